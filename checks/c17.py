"""C17 - model-selection strategies honour their contract on every request history.

The real ``application.ABTest`` / ``Latest`` / ``Explicit`` selectors are driven against real ``asset.Directory`` objects
on temporary posix registries populated through the public publishing API (``Project.put(package)``,
``Release.dump(state)`` + ``Release.put(tag)``).  What a selector returned is read back through the public face of the
returned ``asset.Instance`` (``str(instance)`` = registry-project-release-generation and ``instance.tag`` whose training
ordinal is a number unique to the commit that created the generation).

Monitors
  abtest   : builder API ``compare().over()*.against()``; after *every* request n of a history
             ``|count_v(n) - share_v * n| <= 1`` for every variant, select never raises, only configured variants are
             returned.  ``share_v`` comes from an independent exact (Fraction) normalisation written from the docstring
             (floats normalised by their sum; omitted = complement to 1 split evenly when the given ones sum below 1,
             otherwise the mean of the given ones).
  crowded  : many ABTest selectors over the same few variants alive in one process (equal shares, equal horizons,
             revisited in random order): every returned instance must be one of the selector's own variants.  The
             per-set monitor above first clears the process-wide ``ABTest.Slot._instance`` lru cache so that it judges
             each variant set as the only selector of its process; this monitor never clears it.
  latest   : registry histories (releases published in increasing PEP 440 order, with and without generations,
             generations committed to any release between requests, one or two registries behind one selector, with
             or without a configured release).  A select must return the model's newest generation of the highest
             release that has one (or of the configured release); between a commit and the next *sync* any state that
             was the latest since the previous sync is accepted.  A sync is logical: a wrapper on ``Latest._pick``
             numbers picks; once two picks of the refresher thread that *started after* the commit have completed the
             very next select must return the new state.  Wall-clock is only a watchdog (=> inconclusive).  The
             refresher's requested sleep must not exceed the configured interval; a refresher thread that died (or
             never started) after a successful select is a refutation, not a timeout.
  explicit : ``Explicit(project, release, generation)`` (str / int / Key spellings) returns the configured generation now
             and after every later registry event.

Oracle slack (what the property does not say): a select on a registry without any generation may raise
(``Listing.Empty``) - only counted; ``Explicit`` is only judged against the registry it was first used with;
deviation exactly 1 is "within one request" (tolerance 1e-6 for float noise).

Found on the pinned tree and fixed since (three fix commits in /repo); one directed case per mechanism still runs on
every quick run (shards 0, 1, 2) so that a regression is reported deterministically under its old key:
  abtest-greedy-undershoot-3plus-variants         (targets 0.34/0.33/0.33, 500 requests)
  abtest-foreign-instance-shared-slot-cache-full  (check_crowded_directed)
  latest-configured-empty-release-refresher-dies  (gen_history(None, 'configured-empty'))
"""
import itertools
import threading
from fractions import Fraction

PROPERTY = 'C17'
LEVEL = 'exploration'
RULE = (
    'ABTest: variant sets of 2-6 over (project, release, generation) combos of a real registry with targets from 7 '
    'normalisation families (floats summing to 1, floats normalised, floats + omitted complement, integers, integers + '
    'omitted mean, all omitted, near-equal) plus every integer weight tuple 1..3 (quick, k<=4) / 1..4 (thorough, k<=5); '
    'every prefix n <= 500 (quick) / 5000 (thorough) of each history is judged; distinct = distinct (targets, '
    'override pattern); non-trivial = every set.  Crowded: 60-110 two/three-way selectors over 8 combos x 160-410 '
    'visits per case.  Latest/Explicit: seeded registry histories of 8-30 events (publish '
    'release, commit generation to any release, immediate select, logical sync + select, explicit select) x configured '
    'or implicit release x 1-2 registries; distinct = distinct event sequence; non-trivial = at least one commit '
    'after the first successful select'
)
ASSUMPTIONS = [
    'share normalisation for omitted targets follows the ABTest docstring (complement to 1 if the given ones sum below '
    '1, else mean of the given ones); mixed float/integer target sets are not generated',
    'a select while no generation exists anywhere may raise; Explicit is judged on one registry per selector',
    'refresh progress is judged in logical steps (two refresher picks started after the commit); the 20 s watchdog '
    'only yields inconclusive',
    'registry content only grows (forml has no deletion API); one writer (the harness thread)',
]
MANIFEST = {
    'text': 'Exploration: the real ABTest selector (built through its builder) is run for thousands of variant/weight '
            'sets and the share bound is checked after every single request; the real Latest and Explicit selectors are '
            'run against real posix registries whose releases/generations are published between requests, compared with '
            'a dictionary model of the registry, with refresher progress observed through a wrapper on Latest._pick. '
            'Holds on the histories observed - not a proof over all weights/histories.',
    'design_ref': 'DESIGN.md section 5 / C17',
    'note': 'Trusted: the Fraction normalisation oracle, the registry model and the _pick/sleep wrappers in '
            'checks/c17.py; instance identity is read from str(instance) and the tag ordinal.',
    'technique': 'runtime monitoring: recorded selection histories vs arithmetic / registry-model oracle, logical '
                 'progress barrier on the refresher',
}
TIMEOUT = {'quick': 600, 'thorough': 3000}
EPS = 1e-6
LADDER = ['0.1.dev1', '0.1', '0.2rc1', '0.2', '1', '1.1', '2', '2.0.post1', '9', '10', '10.1', '11']
WATCHDOG = 20.0
INTERVAL = 0.02


def shards(tier):
    return 8 if tier == 'quick' else 16


def floors(tier):
    if tier == 'quick':
        return {'abtest_sets_checked': 300, 'abtest_prefixes_checked': 100000, 'crowded_selects_checked': 2000,
                'latest_histories': 24,
                'latest_selects_checked': 150, 'latest_barriers_checked': 40, 'latest_sleep_checked': 100,
                'explicit_checked': 40}
    return {'abtest_sets_checked': 3000, 'abtest_prefixes_checked': 10000000, 'crowded_selects_checked': 16000,
            'latest_histories': 200,
            'latest_selects_checked': 1500, 'latest_barriers_checked': 400, 'latest_sleep_checked': 1000,
            'explicit_checked': 400}


# ---------------------------------------------------------------- registry helpers (real publishing API)
class Lab:
    """Real posix registries in a scratch dir + a dictionary model of what was published."""

    def __init__(self):
        import pathlib
        import tempfile

        self.root = pathlib.Path(tempfile.mkdtemp(prefix='c17-'))
        self.serial = 0
        self.ordinal = 0

    def directory(self):
        from forml.io import asset
        from forml.provider.registry.filesystem import posix

        self.serial += 1
        return asset.Directory(posix.Registry(self.root / f'registry{self.serial}'))

    def package(self, name, version, zipped):
        from forml import project as prj

        self.serial += 1
        source = self.root / f'src{self.serial}'
        (source / 'tiny').mkdir(parents=True)
        (source / 'tiny' / '__init__.py').write_text('', encoding='utf-8')
        manifest = prj.Manifest(name, version, 'tiny')
        if zipped:
            return prj.Package.create(source, manifest, self.root / f'pkg{self.serial}.4ml')
        manifest.write(source)
        return prj.Package(source)

    def publish(self, directory, name, version, zipped=False):
        return directory.get(name).put(self.package(name, version, zipped))

    def commit(self, directory, name, version, nstates=1):
        """New generation with a globally unique training ordinal; returns (generation number, ordinal)."""
        import datetime

        from forml.io import asset

        self.ordinal += 1
        release = directory.get(name).get(version)
        sids = [release.dump(b'state-%d-%d' % (self.ordinal, i)) for i in range(nstates)]
        tag = asset.Tag(training=asset.Tag.Training(datetime.datetime(2020, 1, 1), self.ordinal), states=sids)
        generation = release.put(tag)
        return int(str(generation).rsplit('-', 1)[1]), self.ordinal

    def cleanup(self):
        import shutil

        shutil.rmtree(self.root, ignore_errors=True)


def describe(instance):
    """(project, release, generation, ordinal) through the public face of an Instance."""
    text = str(instance)
    head, release, generation = text.rsplit('-', 2)
    return head.rsplit('-', 1)[1], release, int(generation), instance.tag.training.ordinal


# ---------------------------------------------------------------- ABTest
def oracle_shares(targets):
    """targets: list of decimal strings / ints / None -> exact normalised shares (docstring semantics)."""
    given = [Fraction(str(t)) for t in targets if t is not None]
    missing = sum(1 for t in targets if t is None)
    if missing:
        explicit = sum(given, Fraction(0))
        implicit = (1 - explicit) / missing if explicit < 1 else explicit / len(given)
        full = [Fraction(str(t)) if t is not None else implicit for t in targets]
    else:
        full = given
    total = sum(full)
    return [t / total for t in full]


def native(target):
    """Target as handed to forml: decimal strings become floats, ints stay ints."""
    return float(target) if isinstance(target, str) else target


def gen_targets(rng, k):
    family = rng.choice(['float-one', 'float-norm', 'float-complement', 'int', 'int-mean', 'omitted', 'near-equal'])
    if family == 'float-one':
        cuts = sorted(rng.sample(range(1, 100), k - 1))
        parts = [b - a for a, b in zip([0] + cuts, cuts + [100])]
        return family, [f'0.{p:02d}' for p in parts]
    if family == 'float-norm':
        return family, [f'0.{rng.randint(1, 99):02d}' for _ in range(k)]
    if family == 'float-complement':
        nmiss = rng.randint(1, k - 1)
        cuts = sorted(rng.sample(range(1, 90), k - nmiss))
        parts = [b - a for a, b in zip([0] + cuts[:-1], cuts)]
        targets = [f'0.{p:02d}' for p in parts] + [None] * nmiss
        rng.shuffle(targets)
        return family, targets
    if family == 'int':
        return family, [rng.randint(1, 40) for _ in range(k)]
    if family == 'int-mean':
        nmiss = rng.randint(1, k - 1)
        targets = [rng.randint(1, 20) for _ in range(k - nmiss)] + [None] * nmiss
        rng.shuffle(targets)
        return family, targets
    if family == 'omitted':
        return family, [None] * k
    base = 1000 // k
    parts = [base] * k
    parts[0] += 1000 - base * k
    if parts[0] == base:
        parts[0] += 1
    return family, [f'0.{p:03d}' for p in parts]


def gen_variants(rng, combos, targets):
    """-> list of [project, release, generation, target, give_release, give_project] (override flags for the builder)."""
    chosen = rng.sample(combos, len(targets))
    out = []
    for index, ((project, release, generation), target) in enumerate(zip(chosen, targets)):
        if index == 0:
            out.append([project, release, generation, target, True, True])
            continue
        previous = out[-1]
        out.append([project, release, generation, target,
                    release != previous[1] or project != previous[0] or rng.random() < 0.2,
                    project != previous[0] or rng.random() < 0.2])
    return out


def build_abtest(application, variants):
    first = variants[0]
    builder = application.ABTest.compare(first[0], first[1], first[2], native(first[3]))
    for position, (project, release, generation, target, give_release, give_project) in enumerate(variants[1:], 1):
        kwargs = {}
        if give_release:
            kwargs['release'] = release
        if give_project:
            kwargs['project'] = project
        if target is not None or position % 2:
            kwargs['target'] = native(target)
        if position == len(variants) - 1:
            return builder.against(generation, **kwargs)
        builder = builder.over(generation, **kwargs)
    raise AssertionError('unreachable')


def check_abtest(ctx, application, directory, variants, horizon, family='replay'):
    """One request history of ``horizon`` selects judged after every request."""
    ctx.count('evaluations')
    ctx.count('abtest_sets_checked')
    k = len(variants)
    targets = [v[3] for v in variants]
    shares = [float(s) for s in oracle_shares(targets)]
    expected = {(v[0], v[1], int(v[2])): i for i, v in enumerate(variants)}
    ctx.shape(('abtest', [str(t) for t in targets], [(v[4], v[5]) for v in variants], [v[:3] for v in variants]))
    witness = {'kind': 'abtest', 'variants': variants, 'family': family}
    isolate(application)
    try:
        selector = build_abtest(application, variants)
    except Exception as err:  # pylint: disable=broad-except
        ctx.violation('abtest-builder-raises', f'ABTest builder raised {err!r} for targets {targets}', witness)
        return
    counts = [0] * k
    known = {}  # id(instance) -> (index, instance) - the selector hands out one cached Instance per slot
    seen = set()
    for n in range(1, horizon + 1):
        try:
            instance = selector.select(directory, None, None)
        except Exception as err:  # pylint: disable=broad-except
            ctx.violation('abtest-select-raises', f'ABTest.select raised {err!r} at request {n} for targets {targets}',
                          dict(witness, n=n))
            return
        hit = known.get(id(instance))
        if hit is None or hit[1] is not instance:
            try:
                project, release, generation, _ = describe(instance)
            except Exception as err:  # pylint: disable=broad-except
                ctx.violation('abtest-instance-unusable', f'ABTest returned an unusable instance at request {n}: {err!r}',
                              dict(witness, n=n))
                return
            index = expected.get((project, release, generation))
            if index is None:
                ctx.violation(foreign_key(application),
                              f'ABTest returned {project}-{release}-{generation} which is not among {sorted(expected)}',
                              dict(witness, n=n))
                return
            known[id(instance)] = hit = (index, instance)
        chosen = hit[0]
        counts[chosen] += 1
        for i in range(k):
            deviation = counts[i] - shares[i] * n
            if -1 - EPS <= deviation <= 1 + EPS:
                continue
            if deviation > 0:
                key = 'abtest-overshoot'
            elif k == 2:
                key = 'abtest-undershoot-two-variants'
            elif -deviation >= k - 1:
                key = 'abtest-undershoot-unbounded'
            elif shares[chosen] < shares[i] - 1e-12:
                key = 'abtest-undershoot-against-order'
            else:
                # >= 3 variants, a variant below its quota by (1, k-1) while an at-least-as-heavy one was served
                key = 'abtest-greedy-undershoot-3plus-variants'
            if key not in seen:
                seen.add(key)
                ctx.violation(
                    key, f'after {n} requests variant #{i} {variants[i][:3]} (share {shares[i]:.6f} of targets {targets}) '
                         f'was selected {counts[i]}x, expected {shares[i] * n:.3f} +-1 (deviation {deviation:+.3f}); '
                         f'request {n} went to variant #{chosen} (share {shares[chosen]:.6f})',
                    dict(witness, n=n, variant=i, count=counts[i], expected=shares[i] * n))
    ctx.count('abtest_prefixes_checked', horizon)
    ctx.note_max('abtest_max_variants', k)


def slot_cache(application):
    """The process-wide lru cache behind ABTest.Slot._instance (None if the tree has none)."""
    cached = getattr(getattr(application.ABTest, 'Slot', None), '_instance', None)
    return cached if hasattr(cached, 'cache_info') and hasattr(cached, 'cache_clear') else None


def isolate(application):
    """Judge a variant set as if it were the only selector of its process (the crowded monitor covers the rest)."""
    cached = slot_cache(application)
    if cached is not None:
        cached.cache_clear()


def foreign_key(application):
    """A foreign instance while the shared slot cache is full is the eviction cross-talk; anything else is new."""
    cached = slot_cache(application)
    if cached is not None:
        info = cached.cache_info()
        if info.maxsize is not None and info.currsize >= info.maxsize:
            return 'abtest-foreign-instance-shared-slot-cache-full'
    return 'abtest-foreign-instance'


def crowd_select(ctx, application, directory, selector, own, witness):
    """One select of one of many selectors living in the same process: the instance must be one of its variants."""
    ctx.count('crowded_selects_checked')
    try:
        got = describe(selector.select(directory, None, None))[:3]
    except Exception as err:  # pylint: disable=broad-except
        ctx.violation('abtest-crowded-select-raises', f'ABTest.select raised {err!r} (variants {own})', witness)
        return False
    if list(got) not in own:
        ctx.violation(foreign_key(application), f'ABTest over {own} returned {got} - an instance of a variant it was '
                      'never configured with (many ABTest selectors in one process)', witness)
        return False
    return True


def two_way(application, first, second, weights=(None, None)):
    return application.ABTest.compare(*first, weights[0]).against(second[2], release=second[1], project=second[0],
                                                                  target=weights[1])


def check_crowded_directed(ctx, application, directory, combos):
    """Deterministic cross-talk: A and B are the same 50/50 test; B's slots enter the shared lru cache while unequal to
    A's (different counts), become equal later, eviction of B's entries then removes A's keys from the cache dict and
    B's keys keep pointing at links that are recycled for other selectors' instances."""
    ctx.count('evaluations')
    ctx.count('crowded_checked')
    witness = {'kind': 'crowded-directed'}
    isolate(application)
    own = [list(combos[0]), list(combos[1])]
    alpha, beta = two_way(application, *own), two_way(application, *own)
    ctx.shape(('crowded-directed',))
    for selector in (alpha,) * 4 + (beta,) * 4:
        if not crowd_select(ctx, application, directory, selector, own, witness):
            return
    cached = slot_cache(application)
    limit = cached.cache_info().maxsize if cached is not None and cached.cache_info().maxsize else 128
    others = [c for c in combos if list(c) not in own]
    misses = 4
    for x in range(1, limit):
        pair = [list(others[x % len(others)]), list(others[(x + 1) % len(others)])]
        filler = two_way(application, *pair, weights=(1000 + x, 1000 - x))
        for _ in range(2):
            if misses < limit + 2:
                misses += 1
                if not crowd_select(ctx, application, directory, filler, pair, witness):
                    return
    for selector in (alpha,) * 4 + (beta,) * 4:
        if not crowd_select(ctx, application, directory, selector, own, witness):
            return


def check_crowded(ctx, application, directory, combos, rngseed):
    """Many selectors over the same few variants with equal shares and equal horizons, revisited in random order."""
    import random

    rng = random.Random(rngseed)
    witness = {'kind': 'crowded', 'rngseed': rngseed}
    ctx.count('evaluations')
    ctx.count('crowded_checked')
    isolate(application)
    pool = []
    plan = []
    for _ in range(rng.randint(60, 110)):
        k = rng.choice([2, 2, 3])
        own = [list(c) for c in rng.sample(combos[:8], k)]
        weights = rng.choice([[None] * k, [1] * k, list(range(1, k + 1))])
        variants = [[*own[i], weights[i], True, True] for i in range(k)]
        pool.append((build_abtest(application, variants), own))
        plan.append((len(pool) - 1, rng.choice([2, 4, 6, 12])))
    for _ in range(rng.randint(100, 300)):
        plan.append((rng.randrange(len(pool)), rng.choice([1, 2, 3])))
    ctx.shape(('crowded', plan[:40]))
    for index, requests in plan:
        selector, own = pool[index]
        for _ in range(requests):
            if not crowd_select(ctx, application, directory, selector, own, witness):
                return


def abtest_registry(lab):
    directory = lab.directory()
    combos = []
    for project, version, zipped in (('p', '1', False), ('p', '2', True), ('q', '1', False)):
        lab.publish(directory, project, version, zipped)
        for _ in range(6):
            generation, _ = lab.commit(directory, project, version, nstates=0)
            combos.append((project, version, generation))
    return directory, combos


def run_abtest(ctx, lab, application):
    directory, combos = abtest_registry(lab)
    horizon = ctx.pick(500, 5000)
    # directed: the known greedy first-eligible case (3 near-equal variants)
    if ctx.shard == 0:
        variants = [['p', '1', 1, '0.34', True, True], ['p', '1', 2, '0.33', False, False], ['p', '1', 3, '0.33', False, False]]
        check_abtest(ctx, application, directory, variants, 500, 'directed')
        ctx.sample({'abtest': [v[3] for v in variants], 'shares': [str(s) for s in oracle_shares([v[3] for v in variants])]})
    if ctx.shard == 2 % ctx.nshards:
        check_crowded_directed(ctx, application, directory, combos)
    for case in range(ctx.pick(8, 64)):
        if ctx.mine(case):
            check_crowded(ctx, application, directory, combos, ctx.rng('crowded', case).getrandbits(48))
    # exhaustive small integer weights
    top, kmax, span = ctx.pick((3, 4, 300), (4, 5, 600))
    index = 0
    for k in range(2, kmax + 1):
        for weights in itertools.product(range(1, top + 1), repeat=k):
            index += 1
            if not ctx.mine(index):
                continue
            variants = [[*combos[i], w, i == 0, i == 0] for i, w in enumerate(weights)]
            check_abtest(ctx, application, directory, variants, span, 'int-exhaustive')
    # asymmetric families: a few equal heavy variants plus several light ones (where quota rules diverge)
    index = 0
    for heavy in (7, 8, 9):
        for nheavy in (2, 3):
            for lights in ((1,), (1, 1), (1, 1, 1), (1, 0.26), (0.08,), (1, 0.26, 1), (0.51, 0.13, 0.87), (1, 1, 1, 1)):
                if nheavy + len(lights) > 6:
                    continue
                for order in range(3):
                    index += 1
                    if not ctx.mine(index):
                        continue
                    weights = [heavy] * nheavy + list(lights)
                    if order == 1:
                        weights = list(lights) + [heavy] * nheavy
                    elif order == 2:
                        weights = [w for pair in itertools.zip_longest(lights, [heavy] * nheavy) for w in pair if w is not None]
                    variants = [[*combos[i], w, i == 0, i == 0] for i, w in enumerate(weights)]
                    check_abtest(ctx, application, directory, variants, ctx.pick(160, 600), 'heavy-light')
    # seeded random families
    total = ctx.pick(240, 2400)
    for case in range(total):
        if not ctx.mine(case):
            continue
        rng = ctx.rng('abtest', case)
        k = rng.choice([2, 3, 3, 4, 4, 5, 6])
        family, targets = gen_targets(rng, k)
        variants = gen_variants(rng, combos, targets)
        check_abtest(ctx, application, directory, variants, horizon, family)
        ctx.note_set('abtest_families', family)
        if case % 97 == 0:
            ctx.sample({'abtest': targets, 'shares': [str(s) for s in oracle_shares(targets)], 'requests': horizon})


# ---------------------------------------------------------------- Latest / Explicit
class Probe:
    """Logical clock + wrappers on Latest._pick, the strategy module's time.sleep and threading.excepthook."""

    def __init__(self, strategy):
        import time

        self.strategy = strategy
        self.cond = threading.Condition()
        self.clock = 0
        self.picks = []  # dicts: selector, registry, thread, start, end
        self.deaths = {}  # thread -> exception
        self.sleeps = []  # (thread, requested)
        self.main = threading.current_thread()
        probe = self
        original = strategy.Latest._pick

        def pick(self, registry):
            record = {'selector': self, 'registry': registry, 'thread': threading.current_thread(), 'start': probe.tick()}
            try:
                return original(self, registry)
            finally:
                with probe.cond:
                    probe.clock += 1
                    record['end'] = probe.clock
                    probe.picks.append(record)
                    probe.cond.notify_all()

        strategy.Latest._pick = pick

        class Time:
            """Stand-in for the ``time`` module inside forml.application._strategy."""

            def __getattr__(self, name):
                return getattr(time, name)

            @staticmethod
            def sleep(seconds):
                if threading.current_thread() is not probe.main:
                    with probe.cond:
                        probe.sleeps.append((threading.current_thread(), seconds))
                # a retired refresher (interval 3600) really sleeps; anything else is capped so that a tree that
                # stretches the interval is reported by the sleep monitor instead of stalling the run
                time.sleep(seconds if seconds >= 3600 else min(seconds, 0.1))

        strategy.time = Time()

        def hook(args):
            with probe.cond:
                probe.deaths[args.thread] = args.exc_value
                probe.cond.notify_all()

        threading.excepthook = hook

    def tick(self):
        with self.cond:
            self.clock += 1
            return self.clock

    def refresher(self, selector):
        thread = getattr(selector, '_refresher', None)
        return thread if isinstance(thread, threading.Thread) else None

    def dead(self, selector):
        """Exception that killed the selector's refresher, or 'not-running', or None."""
        thread = self.refresher(selector)
        for victim, error in self.deaths.items():
            if victim is thread or any(p['thread'] is victim and p['selector'] is selector for p in self.picks):
                return error
        if thread is not None and not thread.is_alive():
            return 'not-running'
        return None

    def barrier(self, selector, registry, after):
        """Wait until two refresher picks that started after logical time ``after`` completed.
        -> 'ok' | exception | 'not-running' | 'watchdog'"""

        def done():
            return sum(1 for p in self.picks if p['selector'] is selector and p['registry'] is registry
                       and p['thread'] is not self.main and p['start'] > after)

        with self.cond:
            self.cond.wait_for(lambda: done() >= 2 or self.dead(selector) is not None, timeout=WATCHDOG)
            if done() >= 2:
                return 'ok'
            fate = self.dead(selector)
            if fate is not None:
                return fate
            elsewhere = sum(1 for p in self.picks if p['selector'] is selector and p['registry'] is not registry
                            and p['thread'] is not self.main and p['start'] > after)
            # the refresher is alive and keeps refreshing other registries of this selector - just never this one
            return 'skipped' if elsewhere >= 4 and done() == 0 else 'watchdog'

    @staticmethod
    def retire(selector):
        """Park the daemon refresher of a finished history (harness hygiene only)."""
        try:
            selector._interval = 3600  # pylint: disable=protected-access
            with selector._lock:  # pylint: disable=protected-access
                selector._cache.clear()  # pylint: disable=protected-access
        except AttributeError:
            pass


def gen_history(rng, directed=None):
    """Event list; every event is valid for the model at the time it is generated."""
    if directed == 'configured-empty':
        return {'configured': '1', 'registries': 1, 'events': [
            ['release', 0, '1', False], ['select', 0], ['commit', 0, '1', 1], ['sync', 0], ['commit', 0, '1', 1],
            ['sync', 0]]}
    nreg = 2 if rng.random() < 0.25 else 1
    configured = None
    events = []
    model = [dict() for _ in range(nreg)]  # release -> generation count
    rung = [0] * nreg

    def publish(reg):
        if rung[reg] >= len(LADDER):
            return
        step = rng.choice([1, 1, 2])
        position = min(rung[reg] + step - 1, len(LADDER) - 1)
        rung[reg] = position + 1
        model[reg][LADDER[position]] = 0
        events.append(['release', reg, LADDER[position], rng.random() < 0.3])

    def commit(reg, release=None):
        if not model[reg]:
            publish(reg)
        releases = sorted(model[reg], key=LADDER.index)
        if release is None:
            release = rng.choice(releases + releases[-1:] * 2)
        model[reg][release] += 1
        events.append(['commit', reg, release, rng.choice([0, 1, 2])])

    for reg in range(nreg):
        for _ in range(rng.choice([1, 1, 2, 3])):
            publish(reg)
        style = rng.choice(['none', 'low', 'top', 'all'])
        releases = sorted(model[reg], key=LADDER.index)
        if style == 'low':
            commit(reg, releases[0])
        elif style == 'top':
            commit(reg, releases[-1])
        elif style == 'all':
            for release in releases:
                commit(reg, release)
    if rng.random() < 0.4:
        shared = [r for r in model[0] if all(r in m for m in model)]
        if shared:
            configured = rng.choice(shared)
    for _ in range(rng.randint(8, 30)):
        reg = rng.randrange(nreg)
        roll = rng.random()
        if roll < 0.12:
            publish(reg)
        elif roll < 0.40:
            commit(reg, configured if configured and rng.random() < 0.7 else None)
        elif roll < 0.60:
            events.append(['select', reg])
        elif roll < 0.88:
            events.append(['sync', reg])
        else:
            stocked = [(r, n) for r, n in model[reg].items() if n]
            if stocked:
                release, count = rng.choice(stocked)
                events.append(['explicit', reg, release, rng.randint(1, count), rng.choice(['str', 'int', 'key'])])
    events.append(['sync', rng.randrange(nreg)])
    # every other history is served next to further Latest selectors of the same process asked against the same registries
    # (a gateway serves several applications): one for another project, and an unconfigured twin of a configured selector
    return {'configured': configured, 'registries': nreg, 'events': events, 'bystanders': rng.random() < 0.5}


def check_history(ctx, lab, probe, application, asset, history):
    """Replay one registry history against real registries, judging every select."""
    ctx.count('evaluations')
    ctx.count('latest_histories')
    configured = history['configured']
    witness = dict(history, kind='latest')
    dirs = [lab.directory() for _ in range(history['registries'])]
    model = [dict() for _ in dirs]  # release -> [ordinal per generation]
    selector = application.Latest('p', configured, refresh=INTERVAL)
    if len(history['events']) % 2:
        # descriptors (and their selectors) travel pickled to the serving processes: the copy is the one that serves
        import pickle

        ctx.count('latest_selectors_pickled')
        selector = pickle.loads(pickle.dumps(selector))
    cached = [False] * len(dirs)  # a select succeeded => the selector serves from its cache from now on
    allowed = [set() for _ in dirs]  # model states acceptable for a cached select
    last_commit = [0] * len(dirs)  # logical time of the latest registry change
    explicit = []  # (selector, reg, expected)
    empty_at_first = [False] * len(dirs)
    trivial = True

    def newest(reg):
        if configured is not None:
            stock = model[reg].get(configured)
            return None if stock is None else (configured, len(stock), stock[-1] if stock else None)
        for release in sorted(model[reg], key=LADDER.index, reverse=True):
            if model[reg][release]:
                return release, len(model[reg][release]), model[reg][release][-1]
        return None

    def changed(reg):
        last_commit[reg] = probe.tick()
        if cached[reg]:
            allowed[reg].add(newest(reg))

    def observe(reg, step):
        """One select judged against the model; returns False when the history cannot continue."""
        want = newest(reg)
        ctx.count('latest_selects_checked')
        try:
            instance = selector.select(dirs[reg], None, None)
        except asset.Level.Listing.Empty as err:
            if want is not None and want[1]:
                ctx.violation('latest-select-raises-empty', f'Latest.select raised {err!r} although {want} exists',
                              dict(witness, step=step))
                return False
            ctx.count('latest_nothing_available_raises')
            return True
        except Exception as err:  # pylint: disable=broad-except
            key = 'latest-select-raises'
            if (isinstance(err, RuntimeError) and configured is not None and any(empty_at_first)
                    and isinstance(probe.dead(selector), asset.Level.Listing.Empty)):
                # same mechanism seen from a second registry: select tries to restart the refresher that died
                key = 'latest-configured-empty-release-refresher-dies'
            ctx.violation(key, f'Latest(release={configured}).select raised {err!r} (model newest {want}; refresher: '
                               f'{probe.dead(selector)!r})', dict(witness, step=step))
            return False
        try:
            _, release, generation, ordinal = describe(instance)
            got = (release, generation, ordinal)
        except asset.Level.Listing.Empty:
            got = (configured, 0, None) if configured is not None else ('?', 0, None)
        except Exception as err:  # pylint: disable=broad-except
            ctx.violation('latest-instance-unusable', f'instance returned by Latest.select is unusable: {err!r}',
                          dict(witness, step=step))
            return False
        if not cached[reg]:
            cached[reg] = True
            empty_at_first[reg] = bool(want is not None and want[1] == 0)
            allowed[reg] = {want}
        if got == want:
            allowed[reg] = {want}
            return True
        if not step_synced[0] and got in allowed[reg]:
            ctx.count('latest_stale_within_interval')
            return True
        if want is None or got[0] != want[0]:
            key = 'latest-wrong-release'
        elif got[1] < want[1]:
            key = 'latest-stale-after-two-picks' if step_synced[0] else 'latest-stale-unexplained'
        else:
            key = 'latest-wrong-generation'
        ctx.violation(key, f'Latest(release={configured}).select returned release {got[0]} generation {got[1]} (ordinal '
                           f'{got[2]}) but the registry model says {want}; synced={step_synced[0]}',
                      dict(witness, step=step))
        return False

    step_synced = [False]
    others = []  # further selectors living in this process: (selector, project, judged)

    def neighbours(step):
        """Every other selector is asked against every registry; the one of the other project must keep returning that
        project's only generation."""
        for other, project, want in others:
            for reg, directory in enumerate(dirs):
                try:
                    got = describe(other.select(directory, None, None))
                except Exception as err:  # pylint: disable=broad-except
                    if want is None:
                        continue
                    ctx.violation('latest-neighbour-selector-raises', f'Latest({project!r}) living next to Latest(\'p\', '
                                  f'{configured}) raised {err!r} against registry #{reg}', dict(witness, step=step))
                    return False
                ctx.count('latest_neighbour_selects')
                if want is not None and got[:3] != (project,) + want[reg][:2]:
                    ctx.violation('latest-neighbour-selector-wrong-instance', f'Latest({project!r}) living next to Latest(\'p\', '
                                  f'{configured}) returned {got} against registry #{reg}, that project holds only {want[reg]}',
                                  dict(witness, step=step))
                    return False
        return True

    try:
        if history.get('bystanders'):
            want = []
            for directory in dirs:
                lab.publish(directory, 'q', '7.7')
                want.append(('7.7',) + lab.commit(directory, 'q', '7.7', 1))
            others.append((application.Latest('q', refresh=INTERVAL), 'q', want))
            if configured is not None:
                others.append((application.Latest('p', refresh=INTERVAL), 'p', None))
        for step, event in enumerate(history['events']):
            kind, reg = event[0], event[1]
            step_synced[0] = False
            if kind in ('select', 'sync') and not neighbours(step):
                return
            if kind == 'release':
                lab.publish(dirs[reg], 'p', event[2], event[3])
                model[reg][event[2]] = []
                changed(reg)
            elif kind == 'commit':
                generation, ordinal = lab.commit(dirs[reg], 'p', event[2], event[3])
                model[reg][event[2]].append(ordinal)
                if generation != len(model[reg][event[2]]):
                    ctx.violation('registry-generation-numbering', f'commit #{len(model[reg][event[2]])} of release '
                                  f'{event[2]} was numbered {generation}', dict(witness, step=step))
                    return
                if cached[reg]:
                    trivial = False
                changed(reg)
            elif kind == 'select':
                if not observe(reg, step):
                    return
            elif kind == 'sync':
                if cached[reg]:
                    fate = probe.barrier(selector, dirs[reg], last_commit[reg])
                    if fate == 'watchdog':
                        raise_inconclusive(f'no two refresher picks within {WATCHDOG}s (history step {step})')
                    if fate == 'skipped':
                        ctx.violation('latest-refresher-skips-registry', f'the refresher of Latest(release={configured}) keeps '
                                      f'refreshing its other registries but never registry #{reg} (model newest {newest(reg)}): '
                                      f'generations committed there are never picked up', dict(witness, step=step))
                        return
                    if fate != 'ok':
                        if configured is not None and any(empty_at_first) and isinstance(fate, asset.Level.Listing.Empty):
                            key = 'latest-configured-empty-release-refresher-dies'
                        elif fate == 'not-running':
                            key = 'latest-refresher-not-running'
                        else:
                            key = 'latest-refresher-died-' + type(fate).__name__.lower()
                        ctx.violation(key, f'the refresher thread of Latest(release={configured}) is gone ({fate!r}); '
                                           f'generations committed from now on are never picked up (model newest '
                                           f'{newest(reg)})', dict(witness, step=step))
                        return
                    ctx.count('latest_barriers_checked')
                    step_synced[0] = True
                if not observe(reg, step):
                    return
            elif kind == 'explicit':
                _, _, release, generation, spelling = event
                keys = {'str': (release, str(generation)), 'int': (release, generation),
                        'key': (asset.Release.Key(release), asset.Generation.Key(generation))}[spelling]
                project = asset.Project.Key('p') if spelling == 'key' else 'p'
                explicit.append((application.Explicit(project, *keys), reg,
                                 (release, generation, model[reg][release][generation - 1])))
            for chooser, where, want in explicit:
                ctx.count('explicit_checked')
                try:
                    first = chooser.select(dirs[where], None, None)
                    second = chooser.select(dirs[where], step, None)
                    got = describe(first)[1:]
                    same = first == second
                except Exception as err:  # pylint: disable=broad-except
                    ctx.violation('explicit-raises', f'Explicit{want[:2]} raised {err!r}', dict(witness, step=step))
                    return
                if got != want or not same:
                    ctx.violation('explicit-other-instance', f'Explicit{want[:2]} returned {got} (stable={same}) after '
                                  f'step {step}, expected {want}', dict(witness, step=step))
                    return
        requested = [s for t, s in probe.sleeps if t is probe.refresher(selector)]
        ctx.count('latest_sleep_checked', len(requested))
        if any(s > INTERVAL + 1e-9 for s in requested):
            ctx.violation('latest-refresh-interval-not-honoured', f'refresher of Latest(refresh={INTERVAL}) asked to sleep '
                          f'{max(requested)} s', dict(witness, step=len(history['events'])))
        if not trivial:
            ctx.shape(('latest', configured, history['registries'], history['events']))
    finally:
        probe.retire(selector)
        for other, _, _ in others:
            probe.retire(other)
        with probe.cond:
            probe.picks[:] = [p for p in probe.picks if p['selector'] is not selector and all(p['selector'] is not o for o, _, _ in others)]
            probe.sleeps.clear()


def raise_inconclusive(reason):
    from vlib import core

    raise core.Inconclusive(reason)


def run_latest(ctx, lab, application, asset, strategy):
    probe = Probe(strategy)
    if ctx.shard == 1 % ctx.nshards:
        history = gen_history(None, 'configured-empty')
        check_history(ctx, lab, probe, application, asset, history)
        ctx.sample({'latest_directed': history})
    total = ctx.pick(48, 400)
    for case in range(total):
        if not ctx.mine(case):
            continue
        history = gen_history(ctx.rng('latest', case))
        check_history(ctx, lab, probe, application, asset, history)
        ctx.note_set('latest_modes', ['configured' if history['configured'] else 'implicit', history['registries']])
        if case % 41 == 0:
            ctx.sample({'latest': history})


def run(ctx):
    from forml import application
    from forml.application import _strategy as strategy
    from forml.io import asset

    lab = Lab()
    try:
        run_abtest(ctx, lab, application)
        run_latest(ctx, lab, application, asset, strategy)
    finally:
        lab.cleanup()


def replay(ctx, witness):
    from forml import application
    from forml.application import _strategy as strategy
    from forml.io import asset

    lab = Lab()
    try:
        if witness['kind'].startswith('crowded'):
            directory, combos = abtest_registry(lab)
            if witness['kind'] == 'crowded':
                check_crowded(ctx, application, directory, combos, witness['rngseed'])
            else:
                check_crowded_directed(ctx, application, directory, combos)
        elif witness['kind'] == 'abtest':
            directory, _ = abtest_registry(lab)
            check_abtest(ctx, application, directory, witness['variants'], max(500, int(witness.get('n', 0)) + 10))
        else:
            history = {k: witness[k] for k in ('configured', 'registries', 'events')}
            check_history(ctx, lab, Probe(strategy), application, asset, history)
    finally:
        lab.cleanup()
