"""C19 - content negotiation picks the client's most preferred supported encoding.

Monitors (oracle = own header-grammar parser, written from the property text):
  parse   : Encoding.parse(header) == media ranges ordered by descending q, ties in header order, q stripped,
            kind lower-cased/stripped, options kept
  match   : pattern.match(concrete) == glob(kind) and all pattern options present with equal values
  encoder : get_encoder(*accept) is the first (client order, then the platform's encoder order is irrelevant as long
            as the *pattern* chosen is the first one any encoder supports) supported one; Unsupported otherwise
  decoder : get_decoder(enc) returns a decoder registered for an encoding that matches enc; Unsupported otherwise
  codec   : decode(encode(table)) == table for the codec pairs usable in this environment
  generic : application.Generic.respond / receive agree with the above on the same headers
"""
import itertools
import re

PROPERTY = 'C19'
LEVEL = 'exploration'
RULE = (
    'headers generated from the media-range grammar (1-5 ranges x wildcards x 0-2 options x q in {absent, 1, 0.x, ties} '
    'x case/whitespace variants): exhaustive skeletons up to 2 (quick) / 3 (thorough) ranges plus seeded random up to 5; '
    'all (pattern, concrete) pairs over a small kind/option universe; distinct = distinct canonical header / pair / '
    'accept-list / table signatures; non-trivial = at least one q-value, wildcard or option involved'
)
ASSUMPTIONS = [
    'the oracle parser implements the grammar of the property text (media ranges separated by commas, parameters by '
    'semicolons, q in [0,1], no quoted commas)',
    'codec round trips only on pairs that work on the pinned tree in this environment (pandas 3 broke read_json(str))',
]
MANIFEST = {
    'text': 'Exploration: the real Encoding.parse/match/get_encoder/get_decoder/Generic.respond are run on thousands of '
            'generated headers and all (pattern, concrete) pairs of a small universe and compared with an independent '
            'header-grammar oracle; codec round trips on the pairs usable in this environment. Holds on the inputs '
            'observed - not a proof over all headers.',
    'design_ref': 'DESIGN.md section 5 / C19',
    'note': 'Trusted: the ~40-line oracle parser/matcher in checks/c19.py; grammar without quoted separators.',
    'technique': 'runtime monitoring: generated-input differential oracle on the live negotiation functions',
}
MUST_WORK = [
    'text/csv -> text/csv',
    'application/json; format=pandas-records -> application/json',
    'application/json; format=pandas-columns -> application/json',
    'application/json; format=pandas-values -> application/json (data only)',
]
KINDS = ['application/json', 'text/csv', 'text/html', 'application/xml', 'image/gif']
WILD = ['*/*', 'application/*', 'text/*', '*/json', 'app*/*son']
#: near misses of the registered kinds: strict prefixes / suffixes / extensions - a pattern must match the *whole* kind
NEAR = ['application/jso', 'application/jsonl', 'application/json-seq', 'pplication/json', 'xapplication/json', 'text/cs',
        'text/csvx', 'ext/csv', 'text/c']
NEARWILD = ['*/jso', 'app*/js', '*/json*', 'text/c*', '*ext/csv', '*/cs', 't*/c', '*/*v', 'application/*l']
OPTS = [('format', 'pandas-records'), ('format', 'pandas-split'), ('charset', 'utf-8'), ('a', 'x'), ('a', 'y'),
        # option values are compared as they are: other spellings of the same letters are other values
        ('format', 'PANDAS-SPLIT'), ('format', 'Pandas-Records'), ('a', 'X'), ('charset', 'UTF-8')]
QS = [None, '1', '1.0', '0.9', '0.5', '0.50', '0.1', '0', '0.001']


#: string cells the csv pair cannot carry (known finding): pandas.read_csv reads them as missing values
NA_LIKE = ['', 'NA', 'null', 'nan', 'None', 'N/A']
K_CSV_NA = 'csv-na-like-string-read-as-missing'
K_CSV_BLANK = 'csv-single-column-blank-cell-row-dropped'
#: string cells every working pair must carry: blanks at either end, separators, quotes, comment marks, non-ascii
STRINGS = ['x', 'yy', 'z z', 'w', ' lead', 'trail ', '  two', ' ', 'a,b', 'q"uote', "it's", 'é', '#c', 'x;y', '-', 'tab\there']


def shards(tier):
    return 2 if tier == 'quick' else 12


def floors(tier):
    scale = 1 if tier == 'quick' else 12
    return {'parse_checked': 2000 * scale, 'match_checked': 15000, 'encoder_checked': 300 * scale, 'codec_checked': 20}


# ---------------------------------------------------------------- oracle
def glob(pattern: str, text: str) -> bool:
    """'*' is the only wildcard of the grammar."""
    return re.fullmatch('.*'.join(map(re.escape, pattern.split('*'))), text) is not None


def oracle_parse(ranges):
    """ranges: list of (kind, [(k, v)...], q|None) in header order -> expected [(kind, {opts})...]."""
    order = sorted(range(len(ranges)), key=lambda i: (-float(ranges[i][2] if ranges[i][2] is not None else 1), i))
    return [(ranges[i][0].strip().lower(), {k.lower(): v for k, v in ranges[i][1]}) for i in order]


def oracle_match(pattern, concrete) -> bool:
    return glob(pattern[0], concrete[0]) and all(concrete[1].get(k) == v for k, v in pattern[1].items())


def render(ranges, rng) -> str:
    """Header text with seeded case / whitespace variation."""
    parts = []
    for kind, opts, q in ranges:
        items = [kind.upper() if rng.random() < 0.2 else kind]
        params = [f'{k.upper() if rng.random() < 0.2 else k}={v}' for k, v in opts]
        if q is not None:
            params.insert(rng.randrange(len(params) + 1), ('Q=' if rng.random() < 0.2 else 'q=') + q)
        sep = rng.choice([';', '; ', ' ;', ' ; '])
        parts.append(sep.join(items + params))
    return rng.choice([',', ', ', ' ,', ' , ']).join(parts)


def gen_ranges(rng, n):
    out = []
    for _ in range(n):
        kind = rng.choice(KINDS + WILD) if rng.random() < 0.7 else rng.choice(NEAR + NEARWILD)
        opts = []
        for key, value in rng.sample(OPTS, rng.choice([0, 0, 1, 1, 2])):
            if key not in [k for k, _ in opts]:
                opts.append((key, value))
        out.append((kind, opts, rng.choice(QS)))
    return out


def as_pair(encoding):
    return encoding.kind, dict(encoding.options)


# ---------------------------------------------------------------- monitors
def check_parse(ctx, layout, ranges, header):
    ctx.count('evaluations')
    ctx.count('parse_checked')
    expected = oracle_parse(ranges)
    try:
        observed = [as_pair(e) for e in layout.Encoding.parse(header)]
    except Exception as err:  # pylint: disable=broad-except
        ctx.violation('parse-raises', f'Encoding.parse({header!r}) raised {err!r}', {'header': header, 'ranges': ranges})
        return None
    if any(q is not None for _, _, q in ranges) or any(o for _, o, _ in ranges):
        ctx.shape(('parse', [(k, sorted(o), q) for k, o, q in ranges]))
    if observed != expected:
        tied = len({float(q or 1) for _, _, q in ranges}) < len(ranges)
        key = 'parse-order-ties' if sorted(map(repr, observed)) == sorted(map(repr, expected)) and tied else (
            'parse-order' if sorted(map(repr, observed)) == sorted(map(repr, expected)) else 'parse-content')
        ctx.violation(key, f'Encoding.parse({header!r}) -> {observed} expected {expected}',
                      {'header': header, 'ranges': ranges})
    return observed


def check_match(ctx, layout, pattern, concrete):
    ctx.count('evaluations')
    ctx.count('match_checked')
    expected = oracle_match(pattern, concrete)
    observed = layout.Encoding(pattern[0], **pattern[1]).match(layout.Encoding(concrete[0], **concrete[1]))
    ctx.shape(('match', pattern[0], sorted(pattern[1].items()), concrete[0], sorted(concrete[1].items())))
    if bool(observed) != expected:
        key = 'match-options' if glob(pattern[0], concrete[0]) else 'match-kind'
        ctx.violation(key, f'{pattern}.match({concrete}) -> {observed} expected {expected}',
                      {'pattern': pattern, 'concrete': concrete})


def check_encoder(ctx, layout, codec, accept_pairs):
    """accept_pairs: client preference order."""
    ctx.count('evaluations')
    ctx.count('encoder_checked')
    supported = [as_pair(e.encoding) for e in codec.ENCODERS]
    first = next((i for i, p in enumerate(accept_pairs) if any(oracle_match(p, s) for s in supported)), None)
    accept = tuple(layout.Encoding(k, **o) for k, o in accept_pairs)
    ctx.shape(('encoder', [(k, sorted(o.items())) for k, o in accept_pairs]))
    try:
        chosen = as_pair(layout.get_encoder(*accept).encoding)
    except layout.Encoding.Unsupported:
        if first is not None:
            ctx.violation('encoder-unsupported-but-available', f'get_encoder{accept_pairs} raised Unsupported',
                          {'accept': accept_pairs})
        else:
            ctx.count('encoder_unsupported_ok')
        return
    except Exception as err:  # pylint: disable=broad-except
        ctx.violation('encoder-raises', f'get_encoder{accept_pairs} raised {err!r}', {'accept': accept_pairs})
        return
    if first is None:
        ctx.violation('encoder-not-refused', f'get_encoder{accept_pairs} -> {chosen}', {'accept': accept_pairs})
    elif not oracle_match(accept_pairs[first], chosen):
        ctx.violation('encoder-not-most-preferred',
                      f'get_encoder{accept_pairs} -> {chosen} does not satisfy most preferred supported pattern '
                      f'{accept_pairs[first]}', {'accept': accept_pairs})
    else:
        ctx.count('encoder_first_preferred')


def check_decoder(ctx, layout, codec, source):
    ctx.count('evaluations')
    ctx.count('decoder_checked')
    registered = [(d, as_pair(e)) for d, e in codec.DECODERS]
    fits = [d for d, p in registered if oracle_match(p, source) and '*' not in source[0]]
    ctx.shape(('decoder', source[0], sorted(source[1].items())))
    try:
        chosen = layout.get_decoder(layout.Encoding(source[0], **source[1]))
    except layout.Encoding.Unsupported:
        if fits:
            ctx.violation('decoder-unsupported-but-available', f'get_decoder({source}) raised Unsupported', {'source': source})
        return
    except Exception as err:  # pylint: disable=broad-except
        ctx.violation('decoder-raises', f'get_decoder({source}) raised {err!r}', {'source': source})
        return
    if not any(chosen is d for d in fits):
        ctx.violation('decoder-mismatch', f'get_decoder({source}) returned a decoder not registered for a matching type',
                      {'source': source})
        return
    # a declared option that some registered decoder is registered for (format=pandas-split ...) names the payload layout: a
    # decoder registered without it, chosen although one registered with it also matches, reads another layout than declared
    mine = next(p for d, p in registered if d is chosen)
    finer = [p for d, p in registered if d in fits and d is not chosen and p[0] == mine[0]
             and set(mine[1].items()) < set(p[1].items())]
    if finer:
        ctx.violation('decoder-ignores-declared-option', f'get_decoder({source}) returned the decoder registered for {mine} although '
                      f'the one registered for {finer[0]} matches the declared options too', {'source': source})


def roundtrip_pairs(layout, codec, dsl):
    """(encoder, decoder) pairs usable here: every registered decoder whose advertised encoding matches the encoder's
    concrete one; established by a probe table on the running tree - a pair that fails the *probe* is skipped
    (environmental: pandas 3 broke read_json(str)), never reported."""
    schema = dsl.Schema.from_fields(dsl.Field(dsl.Integer(), name='p'), dsl.Field(dsl.String(), name='q'))
    probe = layout.Outcome(schema, [[1, 'u'], [2, 'v']])
    pairs = []
    for encoder in codec.ENCODERS:
        for decoder, advertised in codec.DECODERS:
            if not advertised.match(encoder.encoding):
                continue
            try:
                entry = decoder.loads(encoder.dumps(probe))
                rows = [[v.item() if hasattr(v, 'item') else v for v in r] for r in entry.data.to_rows()]
            except Exception:  # pylint: disable=broad-except
                continue
            if rows == [[1, 'u'], [2, 'v']]:
                named = [f.name for f in entry.schema] == ['p', 'q']  # e.g. the 'values' format carries no column names
                pairs.append((encoder, decoder, advertised.header + ('' if named else ' (data only)')))
    return pairs


def check_codec(ctx, layout, dsl, encoder, decoder, names, rows, named=True):
    ctx.count('evaluations')
    ctx.count('codec_checked')
    kinds = []
    for value in rows[0]:
        kinds.append(dsl.Integer() if isinstance(value, int) else dsl.Float() if isinstance(value, float) else dsl.String())
    schema = dsl.Schema.from_fields(*(dsl.Field(k, name=n) for k, n in zip(kinds, names)))
    ctx.shape(('codec', encoder.encoding.header, names, [type(v).__name__ for v in rows[0]], len(rows)))
    try:
        entry = decoder.loads(encoder.dumps(layout.Outcome(schema, rows)))
        back = [[v.item() if hasattr(v, 'item') else v for v in r] for r in entry.data.to_rows()]
        backnames = [f.name for f in entry.schema]
        backkinds = [type(f.kind).__name__ for f in entry.schema]
    except Exception as err:  # pylint: disable=broad-except
        if encoder.encoding.kind == 'text/csv' and len(names) == 1 and all(isinstance(r[0], str) and r[0] and not r[0].strip() for r in rows):
            ctx.violation(K_CSV_BLANK, f'{encoder.encoding.header}: single-column table {rows} of blank cells only decodes to nothing: '
                          f'{err!r}', {'encoding': encoder.encoding.header, 'names': names, 'rows': rows})
            return
        ctx.violation('codec-raises', f'{encoder.encoding.header} round trip of {names} {rows} raised {err!r}',
                      {'encoding': encoder.encoding.header, 'names': names, 'rows': rows})
        return
    if back != rows and encoder.encoding.kind == 'text/csv' and (not named or backnames == list(names)):
        # the two known lossy spots of the CSV text form, alone or together: missing-value markers and blank single-cell lines
        kept = [r for r in rows if not (len(names) == 1 and isinstance(r[0], str) and r[0] and not r[0].strip())]  # '' is written quoted
        if len(back) == len(kept) and all(len(b) == len(r) and all(x == y or (y in NA_LIKE and isinstance(x, float) and x != x)
                                                                   for x, y in zip(b, r)) for b, r in zip(back, kept)):
            if len(kept) != len(rows):
                ctx.violation(K_CSV_BLANK, f'{encoder.encoding.header}: single-column table {rows} came back without its blank-cell '
                              f'rows: {back}', {'encoding': encoder.encoding.header, 'names': names, 'rows': rows})
            if any(y in NA_LIKE for r in kept for y in r):
                ctx.violation(K_CSV_NA, f'{encoder.encoding.header}: string cells {sorted({y for r in rows for y in r if y in NA_LIKE})} '
                              f'of {rows} came back as missing values {back}',
                              {'encoding': encoder.encoding.header, 'names': names, 'rows': rows})
            return
    if back != rows or (named and backnames != list(names)):
        ctx.violation('codec-roundtrip', f'{encoder.encoding.header}: {names} {rows} -> {backnames} {back}',
                      {'encoding': encoder.encoding.header, 'names': names, 'rows': rows})
        return
    # the table is its rows AND its schema: the kinds the decoded entry declares are those of the values it carries (tables
    # of the same column names and other kinds have been decoded before this one in the same process)
    ctx.count('codec_kinds_checked')
    wanted = [type(k).__name__ for k in kinds]
    if rows and backkinds != wanted:
        ctx.violation('codec-roundtrip-schema-kinds', f'{encoder.encoding.header}: {names} {rows} decoded with the right rows but a '
                      f'schema declaring {backkinds}, the values are {wanted}', {'encoding': encoder.encoding.header, 'names': names, 'rows': rows})


def run(ctx):
    from forml import application
    from forml.io import dsl, layout
    from forml.io.layout import _codec as codec

    rng = ctx.rng('gen', ctx.shard)
    # -------- parse: exhaustive skeletons (kinds x q) up to N ranges, sharded
    depth = ctx.pick(2, 3)
    atoms = [(k, o, q) for k in ['text/csv', 'application/*', '*/*'] for o in ([], [('a', 'x')]) for q in [None, '1', '0.5', '0.50', '0']]
    index = 0
    for n in range(1, depth + 1):
        for combo in itertools.product(atoms, repeat=n):
            index += 1
            if not ctx.mine(index):
                continue
            ranges = [(k, list(o), q) for k, o, q in combo]
            header = render(ranges, rng)
            check_parse(ctx, layout, ranges, header)
            if index % 997 == 0:
                ctx.sample({'header': header, 'parsed': [as_pair(e) for e in layout.Encoding.parse(header)]})
    for _ in range(ctx.pick(1500, 12000)):
        ranges = gen_ranges(rng, rng.randint(1, 5))
        header = render(ranges, rng)
        parsed = check_parse(ctx, layout, ranges, header)
        # the negotiated encoder for this very header (client preference order = oracle order)
        check_encoder(ctx, layout, codec, oracle_parse(ranges))
        if parsed is not None and rng.random() < 0.1:
            # Generic descriptor must agree with get_encoder on the same accept list
            accept = layout.Encoding.parse(header)
            ctx.count('generic_checked')
            schema = dsl.Schema.from_fields(dsl.Field(dsl.Integer(), name='a'))
            generic = application.Generic('verif')
            try:
                direct = layout.get_encoder(*accept).encoding
            except layout.Encoding.Unsupported:
                direct = None
            try:
                via = generic.respond(layout.Outcome(schema, [[1]]), accept, None).encoding
            except layout.Encoding.Unsupported:
                via = None
            except Exception as err:  # pylint: disable=broad-except
                via = repr(err)
            if via != direct:
                ctx.violation('generic-respond-differs', f'Generic.respond({header!r}) -> {via} but get_encoder -> {direct}',
                              {'header': header})
            # the serving path hands Generic.respond the accept list of the layout.Request: exactly the client's ranges when
            # an Accept header was given, the request's own encoding only when there was none
            ctx.count('request_accept_checked')
            content = layout.Encoding(rng.choice(['text/csv', 'application/json']), **dict(rng.sample([('format', 'pandas-records')], rng.choice([0, 1]))))
            try:
                with_accept = layout.Request(b'x', content, {}, accept)
                without = layout.Request(b'x', content)
                seen = (tuple(with_accept.accept), tuple(without.accept))
            except Exception as err:  # pylint: disable=broad-except
                seen = repr(err)
            if seen != (tuple(accept), (content,)):
                ctx.violation('request-accept-differs-from-header', f'layout.Request(content type {content.header!r}, Accept {header!r}) '
                              f'negotiates over {seen}', {'header': header})
    ctx.sample({'header': header, 'parsed': [as_pair(e) for e in layout.Encoding.parse(header)]})
    # -------- match: all pairs over the universe (every shard does a slice)
    optsets = [{}, {'a': 'x'}, {'a': 'y'}, {'a': 'x', 'format': 'pandas-records'}, {'format': 'pandas-records'}, {'a': 'X'},
               {'format': 'PANDAS-RECORDS'}]
    index = 0
    for pk, po, ck, co in itertools.product(KINDS + WILD + NEAR + NEARWILD, optsets, KINDS + NEAR, optsets):
        index += 1
        if ctx.mine(index):
            check_match(ctx, layout, (pk, po), (ck, co))
    # -------- decoder lookups over concrete encodings
    decopts = [{}, {'format': 'pandas-records'}, {'format': 'pandas-split'}, {'format': 'nonsense'}, {'charset': 'utf-8'},
               {'format': 'PANDAS-SPLIT'}, {'format': 'Pandas-Records'},
               {'format': 'pandas-columns', 'charset': 'utf-8'}]
    # a declared format next to further parameters, in either order (clients add charset / version / profile)
    for fmt in ('records', 'columns', 'index', 'split', 'table', 'values', 'nonsense'):
        for extra in ({'charset': 'utf-8'}, {'version': '1', 'charset': 'ascii'}, {'a': 'x'}):
            decopts.append({'format': f'pandas-{fmt}', **extra})
            decopts.append({**extra, 'format': f'pandas-{fmt}'})
    for kind, opts in itertools.product(KINDS + NEAR + ['application/*'], decopts):
        check_decoder(ctx, layout, codec, (kind, opts))
    # -------- codec round trips
    usable = roundtrip_pairs(layout, codec, dsl)
    labels = [f'{e.encoding.header} -> {h}' for e, _, h in usable]
    ctx.note_set('usable_codec_pairs', labels)
    # pairs that work on the pinned tree in this environment must keep working (the pandas-3 read_json(str) pairs are not
    # listed: their failure is environmental)
    for must in MUST_WORK:
        ctx.count('evaluations')
        ctx.count('codec_checked')
        if must not in labels:
            ctx.violation('codec-pair-broken', f'codec pair {must} no longer round-trips the probe table', {'pair': must})
    for encoder, decoder, label in usable:
        if encoder.encoding.kind == 'text/csv' and ctx.shard == 0:  # the known finding, every run
            check_codec(ctx, layout, dsl, encoder, decoder, ['a', 'b'], [['NA', 1], ['k', 2]], named='data only' not in label)
            check_codec(ctx, layout, dsl, encoder, decoder, ['a'], [['x'], [' '], ['y']], named='data only' not in label)
        for _ in range(ctx.pick(12, 60)):
            ncols = rng.randint(1, 4)
            names = rng.sample(['a', 'b', 'c', 'd', 'e'], ncols)
            makers = [rng.choice([lambda: rng.randint(-50, 50), lambda: rng.choice(STRINGS) if rng.random() < 0.93 else rng.choice(NA_LIKE),
                                  lambda: rng.randint(-99, 99) + 0.5]) for _ in range(ncols)]
            rows = [[m() for m in makers] for _ in range(rng.randint(1, 5))]
            check_codec(ctx, layout, dsl, encoder, decoder, names, rows, named='data only' not in label)
    ctx.sample({'match_universe': len(KINDS + WILD + NEAR + NEARWILD) * len(optsets) * len(KINDS + NEAR) * len(optsets)})


def replay(ctx, witness):
    from forml.io import dsl, layout
    from forml.io.layout import _codec as codec

    if 'header' in witness and 'ranges' in witness:
        check_parse(ctx, layout, [(k, [tuple(o) for o in opts], q) for k, opts, q in witness['ranges']], witness['header'])
    elif 'pattern' in witness:
        check_match(ctx, layout, tuple(witness['pattern']), tuple(witness['concrete']))
    elif 'accept' in witness:
        check_encoder(ctx, layout, codec, [tuple(p) for p in witness['accept']])
    elif 'source' in witness:
        check_decoder(ctx, layout, codec, tuple(witness['source']))
    elif 'pair' in witness:
        if witness['pair'] not in [f'{e.encoding.header} -> {h}' for e, _, h in roundtrip_pairs(layout, codec, dsl)]:
            ctx.violation('codec-pair-broken', f'codec pair {witness["pair"]} no longer round-trips the probe table', witness)
    elif 'rows' in witness:
        for encoder, decoder, label in roundtrip_pairs(layout, codec, dsl):
            if encoder.encoding.header == witness['encoding']:
                # the history that matters: tables of the same column names and other kinds decoded earlier in the process
                for filler in (1, 0.5, 'u'):
                    check_codec(ctx, layout, dsl, encoder, decoder, witness['names'], [[filler] * len(witness['names'])] * 2,
                                named='data only' not in label)
                check_codec(ctx, layout, dsl, encoder, decoder, witness['names'], witness['rows'], named='data only' not in label)
