"""C01 - the compiled instruction table preserves the task-graph dataflow.

Oracle: a direct evaluator over the *node objects* (vlib.graphgen.evaluate) vs an independent memoised interpreter of
``flow.compile(segment, assets)`` executing the real instructions with symbolic (uninterpreted-function) actors.
Compared: the value of every node (multiset of functor results), exactly one call per instruction, one user functor
per worker node, and the ordered event log of a recording generation double behind a real ``asset.State``.
"""
import collections
import json

PROPERTY = 'C01'
LEVEL = 'exploration'
RULE = (
    'segment topologies built through the public graph API from seeded random specs (1-14 workers, szin/szout 0-3, '
    'fan-out/fan-in, M:N workers with unused ports, fork groups with 0-1 trained member and applied forks, train/label '
    'from arbitrary upstream ports, explicit or auto-traced tail, assets none / any subset and order of stateful groups '
    'incl. foreign gids / with or without previous generation) plus an exhaustive enumeration of all wirings of tiny '
    '(<=3 worker) multi-port shapes; distinct = distinct exact spec; non-trivial = >=3 workers or a trained node'
)
ASSUMPTIONS = [
    'actors are uninterpreted function symbols (the flow layer is payload agnostic)',
    'a valid train-mode asset listing only names groups that are trained in the segment (State.commit asserts this)',
    'trusted: vlib/graphgen.evaluate (direct graph evaluator) and vlib/symbolic.Interpreter',
]
MANIFEST = {
    'text': 'Exploration: thousands of generated segment topologies are compiled by the real flow.compile and the real '
            'instructions are executed by an independent interpreter; every node value, call count and state-asset event '
            'is compared with a direct evaluation of the node objects. Holds on the shapes generated, no proof.',
    'design_ref': 'DESIGN.md section 5 / C01',
    'note': 'Trusted: direct graph evaluator + table interpreter (~150 lines); symbolic actors.',
    'technique': 'runtime monitoring: differential execution of compiled symbol tables vs direct task-graph evaluation '
                 'with symbolic payloads',
}


def shards(tier):
    return 4 if tier == 'quick' else 16


def floors(tier):
    return {'evaluations': 500 if tier == 'quick' else 30000, 'nodes_compared': 2000, 'asset_cases': 100,
            'trained_cases': 100, 'getter_cases': 100, 'state_events_checked': 100}


def check_case(ctx, spec):
    from forml import flow
    from forml.flow._code.target import system, user
    from forml.flow._graph import port
    from vlib import graphgen, symbolic

    ctx.count('evaluations')
    witness = {'spec': spec}
    port.Subscription._PORTS.clear()  # pylint: disable=protected-access  (harness hygiene between independent cases)
    try:
        built = graphgen.build(spec)
    except Exception as err:  # pylint: disable=broad-except
        ctx.violation('build-raises', f'public graph API refused a valid topology: {err!r}', witness)
        return
    if graphgen.nontrivial(spec):
        ctx.shape(graphgen.signature(spec))
    listed = None
    generation = None
    assets = None
    if spec['assets']:
        assets, generation, listed = graphgen.assets_for(spec, built)
        ctx.count('asset_cases')
    try:
        expected = graphgen.evaluate(built, spec, listed)
    except LookupError:
        ctx.count('skipped_not_fully_connected')
        return
    if assets is not None and len(listed) > 1:
        # an earlier compilation of the same segment in this process, against another accessor (other generation, the
        # states stored in another order): the compilation below must load through ITS accessor only
        from forml.io import asset as assetmod

        ctx.count('compiled_before_with_other_accessor')
        try:
            flow.compile(built.segment, assetmod.State(graphgen.Generation(spec['assets']['prev'], len(listed)), listed[::-1]))
        except Exception:  # pylint: disable=broad-except
            pass
    try:
        symbols = flow.compile(built.segment, assets)
    except Exception as err:  # pylint: disable=broad-except
        ctx.violation('compile-raises', f'flow.compile raised on a valid segment: {err!r}', witness)
        return
    try:
        interp = symbolic.Interpreter(symbols)
    except AssertionError as err:
        ctx.violation('table-duplicate-instruction', str(err), witness)
        return
    bad = interp.malformed()
    if bad:
        ctx.violation('table-malformed', bad, witness)
        return
    try:
        interp.run()
    except Exception as err:  # pylint: disable=broad-except
        ctx.violation('table-execution-raises', f'executing the table raised {err!r}', witness)
        return
    # ---- every node value, exactly once
    functors = [s.instruction for s in symbols if isinstance(s.instruction, user.Functor)]
    observed = collections.Counter()
    for functor in functors:
        result = interp.results[id(functor)]
        if user.Train in functor.action:
            observed[symbolic.unstate(result)] += 1
        else:
            observed[symbolic.strip_out(result)] += 1
    wanted = collections.Counter(expected['values'].values())
    ctx.count('nodes_compared', len(expected['nodes']))
    if spec['trainers']:
        ctx.count('trained_cases')
    if any(isinstance(s.instruction, system.Getter) for s in symbols):
        ctx.count('getter_cases')
    if len(functors) != len(expected['nodes']):
        ctx.violation('functor-count', f'{len(functors)} user functors for {len(expected["nodes"])} worker nodes', witness)
        return
    if any(c != 1 for c in interp.calls.values()):
        ctx.violation('call-count', 'an instruction executed other than once', witness)
        return
    if observed != wanted:
        miss = [t.show(5) for t in (wanted - observed)][:3]
        extra = [t.show(5) for t in (observed - wanted)][:3]
        kinds = {t.op for t in (wanted - observed)}
        key = 'state-binding-mismatch' if kinds == {'app'} and _only_state_differs(wanted - observed, observed - wanted) else 'value-mismatch'
        ctx.violation(key, f'node values differ: expected-but-missing {miss}; observed-but-unexpected {extra}', witness)
        return
    # ---- system instructions and state events
    if spec['assets']:
        ctx.count('state_events_checked')
        present = {n.gid for n in expected['nodes'] if n.stateful}
        trained = {n.gid: n for n in expected['nodes'] if n.trained}
        want_gets = sorted(i for i, gid in enumerate(listed) if gid in present)
        got_gets = sorted(e[1] for e in generation.log if e[0] == 'get')
        if want_gets != got_gets:
            ctx.violation('state-load-offsets', f'loads at offsets {got_gets}, expected {want_gets}', witness)
            return
        dumps = [e for e in generation.log if e[0] == 'dump']
        puts = [e for e in generation.log if e[0] == 'put']
        want_dump = {i: expected['values'][id(trained[gid])] for i, gid in enumerate(listed) if gid in trained}
        if len(dumps) != len(want_dump):
            ctx.violation('state-dump-count', f'{len(dumps)} dumps for {len(want_dump)} trained persistent groups', witness)
            return
        if want_dump:
            if len(puts) != 1:
                ctx.violation('state-commit-count', f'{len(puts)} commits', witness)
                return
            bysid = {sid: symbolic.unstate(state) for _, sid, state in dumps}
            committed = [bysid.get(sid) for sid in puts[0][1]]
            if committed != [want_dump.get(i) for i in range(len(listed))]:
                ctx.violation('state-commit-order',
                              f'committed {[c.show(2) if c else None for c in committed]} expected '
                              f'{[want_dump[i].show(2) if i in want_dump else None for i in range(len(listed))]}', witness)
                return
            if generation.log.index(puts[0]) != len(generation.log) - 1:
                ctx.violation('state-commit-not-last', 'commit happened before a dump/load', witness)
                return
        elif puts:
            ctx.violation('state-commit-unexpected', 'commit without trained persistent group', witness)
            return
    else:
        if any(isinstance(s.instruction, (system.Loader, system.Dumper, system.Committer)) for s in symbols):
            ctx.violation('system-instruction-without-assets', 'loader/dumper/committer emitted without assets', witness)
    if ctx.counters['evaluations'] % 400 == 1:
        ctx.sample({'spec': spec, 'symbols': len(symbols), 'sink': next(iter(expected['values'].values())).show(4)})


def _only_state_differs(missing, extra) -> bool:
    strip = lambda c: sorted((t.args[0], tuple(a.dg for a in t.args[2:])) for t in c if t.op == 'app')
    return strip(missing) == strip(extra)


def run(ctx):
    from vlib import graphgen

    index = 0
    for spec in graphgen.enumerate_small(3):
        index += 1
        if ctx.mine(index):
            check_case(ctx, spec)
    ctx.count('exhaustive_small', index if ctx.shard == 0 else 0)
    rng = ctx.rng('random', ctx.shard)
    total = ctx.pick(1200, 48000) // ctx.nshards
    for k in range(total):
        bias = [None, 'forks', 'train'][k % 3]
        spec = graphgen.generate(rng, maxnodes=rng.choice([3, 5, 8, 14]), bias=bias)
        trained = sorted({t['group'] for t in spec['trainers']})
        if trained and rng.random() < 0.3:
            # a trained actor whose new state is empty: still dumped and committed at its position
            ctx.count('hollow_trained_groups')
            spec['nodes'][rng.choice(trained)]['hollow'] = True
        check_case(ctx, spec)


def replay(ctx, witness):
    check_case(ctx, json.loads(json.dumps(witness['spec'])))
