"""C09 - a feed is selected exactly when it can resolve the statement.

Workload: (statements, pool) cases.  Statements: ``vlib/dslgen.py`` skeleton enumeration (depth 2) + seeded random
statements (depth 2-3) + a few bare origins, literals remapped to a python-hash-collision-free pool and window functions
left out (C08's known defects must not leak in here).  Pools: 1-3 feeds (``vlib/c09_pool.PoolFeed``, a minimal
``io.Feed`` reading through the stock ``alchemy.Reader``) whose advertised ``sources`` keys are *real dsl objects built
separately* (``dslgen.build(sub-AST)``) for an arbitrary subset of the tables / references / joins / sub-queries / sets
of the statement's source tree, plus things that do not occur in it (unused tables, sub-statements of another statement,
near misses: other join / set kind, swapped sides, other alias, query with another limit / without its filter).

Priorities: explicit instances always rank infinite (``Importer.Slot.priority``), so distinct priorities are obtained
the way a platform gets them - through ``setup.Feed`` descriptors: the case registers a ``[FEED.c09-sN]`` section
(``provider = 'vlib.c09_pool:PoolFeed'``, ``priority = <random distinct float incl. negative / zero>``, ``slot = sN``)
with the public ``setup.CONFIG.update`` and hands ``setup.Feed('c09-sN')`` to ``io.Importer``; forml instantiates the
feed lazily through the provider bank.  At most one feed of a pool is an explicit instance (infinite priority); ~8 % of
the pools hold a tie (then either of the tied covering feeds is accepted).  The order of the Importer arguments is
shuffled.  Half of the cases match a second, different statement on the same importer (``match`` is lru-cached on the
statement) and every match is repeated.

Oracle (``vlib/c09_lib.coverage``, on the AST): a feed covers a statement iff every table of its source tree is
advertised or lies inside an advertised sub-statement the statement contains.
  select  : ``Importer.match`` returns the highest-priority covering feed; ``forml.MissingError`` iff none covers
  rematch : the repeated (cached) match gives the same object / error
  parse   : the selected feed's own parser (``Feed.Reader.parser(feed.sources, feed.features)``) parses the statement
            (``UnprovisionedError`` -> violation classified by the kind of advertised sub-statement that, alone, cannot
            be parsed by a feed advertising just it; any other exception -> ``selected-parser-raises-<type>``)
  passed  : every feed passed over (higher priority than the selected one, or all of them on MissingError; not covering)
            fails to parse it (any exception counts as "could not have parsed it"; succeeding is the violation)
Parse monitors are skipped for the statements the alchemy parser cannot translate even with the whole catalog provided
(C06 matters; counted as ``parser_fragment_skipped``).  Feeds of lower priority than the selected one are not judged -
the property says nothing about them.

Former findings (repaired in /repo by 2d7acf5, bad46a2, 088ee89; recorded as "fixed" in known_findings.json).  Each keeps a
directed case that runs on every quick run (floor ``directed_checked``), so a regression is reported under these keys:
  matched-feed-unprovisioned:{join,query,set}-advertised-without-inner-tables - ``parser.bypass`` ran the wrapped visit
      (which resolves the inner tables) before it consulted the feed's mapping for the sub-statement;
  matched-feed-unprovisioned:reference-advertised-without-inner-tables - ``visit_reference`` never consulted the mapping;
  match-raises-AttributeError:string-reference-slot - ``Slot('name')`` took ``setup.Feed.resolve()``'s tuple for a feed.
A half repair (mapping consulted first, but the origins inside the provided sub-statement left unregistered) shows up
as ``selected-parser-raises-KeyError:via-...``.

Harness sanity: every advert that is a part of the statement is compared (hash and ==) with the in-situ object; a
mismatch, or a foreign advert that forml's equality conflates with a part of the statement, is C08's subject: the advert
is dropped and counted (``advert_identity_mismatch`` / ``foreign_advert_conflated``), never reported here.
"""
import itertools

PROPERTY = 'C09'
LEVEL = 'exploration'
RULE = (
    '(statement, pool) pairs: generator statements (skeleton enumeration depth 2 + seeded random depth 2-3 + bare origins) '
    'x pools of 1-3 feeds with random distinct priorities (setup.Feed descriptors; at most one explicit instance; some '
    'ties) whose adverts are subsets of the statement source tree nodes (tables, references, joins, sub-queries, sets) '
    'chosen by 11 strategies (all tables, all but one, random covering cut, cut minus one, single sub-statement, near '
    'miss, random, empty ...) plus foreign sources. distinct = distinct (statement skeleton, per-feed priority rank / '
    'explicit flag / advertised node paths+kinds / foreign advert kinds); non-trivial = not every feed advertises '
    'exactly the tables of the statement'
)
ASSUMPTIONS = [
    'coverage is the AST rule of vlib/c09_lib.coverage: a table is read iff it is a leaf of the source tree (query source, '
    'join / set sides, referenced instance); columns only use in-scope origins (generator invariant)',
    'DSL equality of separately built identical sub-statements is C08 business: adverts whose real object is not equal '
    'to the in-situ part (or foreign adverts forml conflates with a part) are dropped and counted, literals are remapped '
    'to hash-collision-free values, window functions are excluded',
    'the feed parser is the stock SQLAlchemy parser; statements it cannot translate with the full catalog are skipped by '
    'the parse monitors',
    'with tied priorities either tied covering feed is accepted',
]
MANIFEST = {
    'text': 'Exploration: the real io.Importer.match is run on thousands of (statement, pool) pairs - pools of 1-3 real feeds '
            'registered through setup.Feed descriptors with random priorities and advertising arbitrary subsets of the '
            'tables, references, joins, sub-queries and sets of the statement (or near misses of them) - and compared with a '
            'coverage oracle computed on the statement AST; the selected feed and every feed passed over then parse the '
            'statement with their own SQLAlchemy parser. Holds on the pairs observed - not a proof.',
    'design_ref': 'DESIGN.md section 5 / C09',
    'note': 'Trusted: the ~15-line coverage rule in vlib/c09_lib.py and dslgen.build producing sub-objects equal to the '
            'parts of the statement (checked in situ on every case).',
    'technique': 'runtime monitoring: generated-input differential oracle on the live importer and feed parsers',
}
SUB = ('reference', 'join', 'set', 'query')


def shards(tier):
    return 16


def floors(tier):
    scale = 1 if tier == 'quick' else 20
    return {
        'evaluations': 1500 * scale, 'select_checked': 2200 * scale, 'selected_ok': 1500 * scale,
        'missing_ok': 400 * scale, 'selected_not_top_slot': 400 * scale, 'covered_via_substatement': 800 * scale,
        'selected_via_join': 100 * scale, 'selected_via_query': 150 * scale, 'selected_via_reference': 100 * scale,
        'selected_via_set': 30 * scale, 'rematch_checked': 2200 * scale, 'selected_parse_checked': 1500 * scale,
        'passed_over_parse_checked': 1400 * scale, 'lazy_feeds': 3000 * scale, 'explicit_feeds': 200 * scale,
        'tied_pools': 50 * scale, 'second_statement_cases': 600 * scale, 'adverts_in_situ_checked': 4000 * scale,
        'directed_checked': 14,
    }


# ---------------------------------------------------------------------------------------------- environment
class Env:
    """The forml side, imported once per process."""

    def __init__(self):
        import forml
        from forml import io, setup
        from forml.io import dsl
        from forml.provider.feed.reader import alchemy
        from sqlalchemy import sql

        from vlib import c09_lib, c09_pool, dslgen

        self.forml, self.io, self.setup, self.dsl, self.alchemy, self.sql = forml, io, setup, dsl, alchemy, sql
        self.lib, self.pool, self.g = c09_lib, c09_pool, dslgen
        self.tables = dslgen.alchemy_sources()
        self.serial = itertools.count()
        self._built = {}
        self._fragment = {}

    def build(self, ast, rename=None):
        """The real object of a source AST, built once per process (forml exceptions escape).  ``rename``: references of
        the AST that get the name of another one (dslgen.shared_names)."""
        sig = (self.g.signature(ast), tuple(sorted((rename or {}).items())))
        if sig not in self._built:
            self._built[sig] = self.g.build(ast, rename=rename)
        return self._built[sig]

    def in_fragment(self, ast, statement, rename=None):
        """Whether the stock parser translates the statement when the whole catalog is provided."""
        sig = (self.g.signature(ast), tuple(sorted((rename or {}).items())))
        if sig not in self._fragment:
            self._fragment[sig] = parse_with(self, self.tables, statement)[0] == 'ok'
        return self._fragment[sig]


def locate(obj, ast, path):
    """The real object at the source-tree path of a built statement."""
    for index in path:
        tag = ast[0]
        if tag == 'reference':
            obj = obj.instance
        elif tag == 'query':
            obj = obj.source
        else:
            obj = obj.left if index == 1 else obj.right
        ast = ast[index]
    return obj


def parse(env, feed, statement):
    """('ok' | 'unprovisioned' | 'error', detail) of the feed's own parser on the statement."""
    try:
        with type(feed).Reader.parser(feed.sources, feed.features) as visitor:
            statement.accept(visitor)
            visitor.fetch()
        return 'ok', None
    except env.dsl.UnprovisionedError as err:
        return 'unprovisioned', repr(err)
    except Exception as err:  # pylint: disable=broad-except
        return 'error', f'{type(err).__name__}: {err}'


def parse_with(env, sources, statement):
    try:
        with env.alchemy.Parser(sources, {}) as visitor:
            statement.accept(visitor)
            visitor.fetch()
        return 'ok', None
    except env.dsl.UnprovisionedError as err:
        return 'unprovisioned', repr(err)
    except Exception as err:  # pylint: disable=broad-except
        return 'error', f'{type(err).__name__}: {err}'


def same_object(left, right):
    try:
        return hash(left) == hash(right) and bool(left == right)
    except Exception:  # pylint: disable=broad-except
        return False


# ---------------------------------------------------------------------------------------------- one case
class Case:
    """A built (statements, pool) case."""

    def __init__(self, ctx, env, spec):
        g, lib = env.g, env.lib
        self.ctx, self.env = ctx, env
        self.spec = spec
        self.asts = [g.norm(a) for a in spec['statements']]
        self.rename = spec.get('rename') or None
        self.statements = [env.build(a, self.rename) for a in self.asts]
        self.insitu = {}  # signature -> real object that is part of one of the statements
        for ast, statement in zip(self.asts, self.statements):
            for path, node in lib.source_nodes(ast):
                self.insitu.setdefault(g.signature(node), locate(statement, ast, path))
        self.parts = {}
        for part in self.insitu.values():
            self.parts.setdefault(hash(part), []).append(part)
        self.feeds = {}  # slot -> dict(priority, sigs, sources, objects)
        for feed in spec['pool']['feeds']:
            self.feeds[feed['slot']] = self.build_feed(feed)

    def build_feed(self, feed):
        ctx, env, g = self.ctx, self.env, self.env.g
        sources, sigs, built = {}, set(), {}
        for ast in map(g.norm, feed['adverts']):
            sig = g.signature(ast)
            try:
                obj = env.build(ast, self.rename)
            except Exception:  # pylint: disable=broad-except
                ctx.count('adverts_unbuildable')
                continue
            real = self.insitu.get(sig)
            if real is not None:
                ctx.count('adverts_in_situ_checked')
                if not same_object(obj, real):
                    ctx.count('advert_identity_mismatch')
                    continue
            elif any(same_object(obj, part) for part in self.parts.get(hash(obj), ())):
                ctx.count('foreign_advert_conflated')
                continue
            sources[obj] = self.native(feed['slot'], ast, obj)
            sigs.add(sig)
            built[sig] = (ast, obj)
        priority = float('inf') if feed['priority'] is None else float(feed['priority'])
        return {'priority': priority, 'sigs': sigs, 'sources': sources, 'built': built, 'route': feed.get('route')}

    def native(self, slot, ast, obj):
        """What the feed maps the advert to: the catalog's table clause for a table, a (denormalised) table clause for a
        join / reference and a SELECT over such a table for a query / set - the same class of selectable the stock parser
        would have generated for that kind of source."""
        env = self.env
        if ast[0] == 'table':
            return env.tables[obj]
        name = f'{slot}_{ast[0]}_{next(env.serial)}'
        if ast[0] in ('join', 'reference'):
            return env.sql.table(name)
        try:
            columns = [env.sql.column(f.name) for f in obj.features]
        except Exception:  # pylint: disable=broad-except
            columns = []  # un-named output (C07 matters)
        return env.sql.select(*(columns or [env.sql.column('c')])).select_from(env.sql.table(name))

    def importer(self):
        """The real pool: descriptors (lazy), explicit instances, or string references, in the shuffled order."""
        env, ctx = self.env, self.ctx
        args = []
        for index in self.spec['pool']['order']:
            feed = self.spec['pool']['feeds'][index]
            slot = feed['slot']
            env.pool.REGISTRY[slot] = self.feeds[slot]['sources']
            if feed['priority'] is None:
                ctx.count('explicit_feeds')
                args.append(env.pool.PoolFeed(slot=slot))
                continue
            name = f'c09-{slot}'
            env.setup.CONFIG.update(
                {'FEED': {name: {'provider': env.pool.PROVIDER, 'priority': feed['priority'], 'slot': slot}}}
            )
            if feed.get('route') == 'string':
                ctx.count('string_feeds')
                args.append(name)
            else:
                ctx.count('lazy_feeds')
                args.append(env.setup.Feed(name))
        return env.io.Importer(*args)


def match(env, importer, statement):
    try:
        return 'feed', importer.match(statement)
    except env.forml.MissingError as err:
        return 'missing', err
    except Exception as err:  # pylint: disable=broad-except
        return 'error', err


def route_tag(spec):
    strings = any(f.get('route') == 'string' for f in spec['pool']['feeds'])
    return 'string-reference-slot' if strings else 'feed-slots'


def parent_kind(ast, path):
    if not path:
        return 'root'
    node = ast
    for index in path[:-1]:
        node = node[index]
    return node[0]


def run_case(ctx, env, spec):
    """All monitors on one (statements, pool) case.  ``spec`` is JSON-able and is the replay witness."""
    lib, g = env.lib, env.g
    ctx.count('pools')
    try:
        case = Case(ctx, env, spec)
    except Exception as err:  # pylint: disable=broad-except
        # building a generator statement with the DSL is C07's subject
        ctx.count('statement_unbuildable')
        ctx.note_set('statement_unbuildable', f'{type(err).__name__}: {err}'[:200], cap=8)
        return
    witness = dict(spec)
    try:
        importer = case.importer()
    except Exception as err:  # pylint: disable=broad-except
        ctx.violation(f'pool-construction-raises-{type(err).__name__}:{route_tag(spec)}',
                      f'io.Importer(...) raised {err!r}', witness)
        return
    if len(case.asts) > 1:
        ctx.count('second_statement_cases')
    priorities = sorted(f['priority'] for f in case.feeds.values())
    tied = len(set(priorities)) < len(priorities)
    if tied:
        ctx.count('tied_pools')
    first = []
    for number, (ast, statement) in enumerate(zip(case.asts, case.statements)):
        witness = dict(spec, failing_statement=number)
        ctx.count('evaluations')  # one evaluation = one (statement, pool) match decision
        if not lib.trivial(ast, spec['pool']):
            ctx.shape(lib.pool_signature(ast, spec['pool']))
        cover = {slot: lib.coverage(ast, feed['sigs']) for slot, feed in case.feeds.items()}
        covering = [slot for slot, (ok, _, _) in cover.items() if ok]
        top = max((case.feeds[s]['priority'] for s in covering), default=None)
        expected = sorted(s for s in covering if case.feeds[s]['priority'] == top)
        # ---------------- select
        ctx.count('select_checked')
        kind, got = match(env, importer, statement)
        first.append((kind, got))
        selected = None
        if kind == 'error':
            ctx.violation(f'match-raises-{type(got).__name__}:{route_tag(spec)}',
                          f'Importer.match raised {got!r} (expected {expected or "MissingError"})', witness)
            continue
        if kind == 'missing':
            if expected:
                how = lib.via(cover[expected[0]][1])
                ctx.violation(f'missing-although-covered:via-{how}',
                              f'Importer.match raised MissingError although feed {expected} covers the statement via {how}',
                              witness)
            else:
                ctx.count('missing_ok')
        else:
            selected = getattr(got, 'slot', None)
            if selected not in case.feeds:
                ctx.violation('selected-unknown-object', f'Importer.match returned {got!r}', witness)
                continue
            if not cover[selected][0]:
                path, name = cover[selected][2][0]
                ctx.violation(
                    f'selected-feed-does-not-cover:table-under-{parent_kind(ast, path)}',
                    f'Importer.match returned feed {selected} which advertises neither table {name} (at {path}) nor a '
                    f'sub-statement of the statement containing it; expected {expected or "MissingError"}', witness)
                continue
            if selected not in expected:
                how = lib.via(cover[expected[0]][1])
                ctx.violation(
                    f'selected-lower-priority:expected-via-{how}',
                    f'Importer.match returned feed {selected} (priority {case.feeds[selected]["priority"]}) although feed '
                    f'{expected} (priority {top}) covers the statement via {how}', witness)
                continue
            ctx.count('selected_ok')
            if case.feeds[selected]['priority'] < max(priorities):
                ctx.count('selected_not_top_slot')
            if lib.via(cover[selected][1]) != 'tables':
                ctx.count('covered_via_substatement')
                ctx.note_set('covered_via', lib.via(cover[selected][1]))
                for name in lib.via(cover[selected][1]).split('+'):
                    ctx.count(f'selected_via_{name}')
        # ---------------- parse monitors
        if not env.in_fragment(ast, statement, spec.get('rename')):
            ctx.count('parser_fragment_skipped')
            continue
        if selected is not None:
            ctx.count('selected_parse_checked')
            outcome, detail = parse(env, got, statement)
            if outcome == 'ok':
                ctx.count('selected_parse_ok')
            elif outcome == 'error':
                ctx.violation(f'selected-parser-raises-{detail.split(":")[0]}:via-{lib.via(cover[selected][1])}',
                              f'the parser of the selected feed {selected} raised {detail}', witness)
            else:
                classify_unprovisioned(ctx, env, case, ast, selected, cover[selected][1], detail, witness)
        bar = case.feeds[selected]['priority'] if selected is not None else float('-inf')
        for slot, feed in case.feeds.items():
            if slot == selected or cover[slot][0]:
                continue
            if feed['priority'] <= bar:
                ctx.count('lower_feeds_not_judged')
                continue
            ctx.count('passed_over_parse_checked')
            instance = next((f for f in importer if getattr(f, 'slot', None) == slot), None)
            if instance is None:
                continue
            outcome, detail = parse(env, instance, statement)
            if outcome == 'ok':
                path, name = cover[slot][2][0]
                ctx.violation(
                    f'passed-over-feed-parses:table-under-{parent_kind(ast, path)}',
                    f'feed {slot} was passed over (it advertises nothing covering table {name} at {path}) yet its parser '
                    f'parsed the statement', witness)
            elif outcome == 'error':
                ctx.count('passed_over_other_error')
                ctx.note_set('passed_over_other_error', detail[:160], cap=8)
            else:
                ctx.count('passed_over_unprovisioned')
    # ---------------- rematch (lru cache on the statement)
    for number, statement in reversed(list(enumerate(case.statements[:len(first)]))):
        ctx.count('rematch_checked')
        kind, got = match(env, importer, statement)
        before = first[number]
        if kind != before[0] or (kind == 'feed' and got is not before[1]):
            ctx.violation('rematch-differs', f'repeated Importer.match gave {kind}:{got!r} after {before[0]}:{before[1]!r}',
                          dict(spec, failing_statement=number))


def classify_unprovisioned(ctx, env, case, ast, selected, stops, detail, witness):
    """The matched feed cannot parse.  Mechanism = the kinds of advertised sub-statements (needed for the coverage and
    holding a table the feed does not advertise) that a feed advertising *only that sub-statement* cannot parse alone."""
    lib, g = env.lib, env.g
    feed = case.feeds[selected]
    culprits = set()
    for _, node in stops:
        if node[0] == 'table':
            continue
        if all(g.signature(('table', name)) in feed['sigs'] for name in lib.tables_of(node)):
            continue
        sub_ast, sub = feed['built'][g.signature(node)]
        if parse_with(env, {sub: feed['sources'][sub]}, sub)[0] == 'unprovisioned':
            culprits.add(sub_ast[0])
    if not culprits:
        ctx.violation('matched-feed-unprovisioned:unexplained',
                      f'the parser of the selected feed {selected} raised {detail}; every advertised sub-statement parses '
                      f'alone', witness)
    for kind in sorted(culprits):
        ctx.violation(
            f'matched-feed-unprovisioned:{kind}-advertised-without-inner-tables',
            f'feed {selected} advertises a {kind} of the statement but not the tables inside it: Importer.match selects it, '
            f'its parser raises {detail}', witness)


# ---------------------------------------------------------------------------------------------- directed cases
def directed_cases(g):
    col = g.column
    eq = g.cmp('==', col('A', 'x'), col('B', 'x'))
    jab = g.join(g.table('A'), g.table('B'), 'inner', eq)
    over_join = g.query(jab, [col('A', 'y'), col('B', 'w')], where=g.cmp('>', col('A', 'x'), g.lit(3)))
    qa = g.query(g.table('A'), [col('A', 'x'), col('A', 'y')], where=g.cmp('>', col('A', 'x'), g.lit(3)))
    ref_q = g.reference(qa, 'q0')
    over_ref_q = g.query(ref_q, [col('q0', 'x')])
    union = g.setop(g.query(g.table('A'), [col('A', 'x')]), g.query(g.table('B'), [col('B', 'x')]), 'union')
    ref_a = g.reference(g.table('A'), 'r0')
    over_ref = g.query(ref_a, [col('r0', 'x')], orderby=[(col('r0', 'y'), 'asc')])
    self_join = g.join(g.table('A'), ref_a, 'left', g.cmp('==', col('A', 'x'), col('r0', 'y')))
    over_self = g.query(self_join, [col('A', 'x'), col('r0', 's')])
    tables = [g.table('A'), g.table('B')]

    def pool(*feeds, order=None):
        specs = [{'slot': f's{i}', 'priority': p, 'adverts': a, 'strategy': 'directed', 'target': 0, **extra}
                 for i, (p, a, extra) in enumerate(feeds)]
        return {'feeds': specs, 'order': order or list(range(len(specs)))[::-1]}

    ref_b = g.reference(g.table('B'), 'r1')
    two_refs = g.setop(g.query(ref_a, [col('r0', 'x')]), g.query(ref_b, [col('r1', 'x')]), 'union')
    inner_a = g.reference(g.query(g.reference(g.table('A'), 't0'), [col('t0', 'x')]), 'q1')
    inner_b = g.reference(g.query(g.reference(g.table('B'), 't1'), [col('t1', 'x'), col('t1', 'w')]), 'q2')
    two_inner = g.query(g.join(inner_a, inner_b, 'inner', g.cmp('==', col('q1', 'x'), col('q2', 'x'))), [col('q1', 'x'), col('q2', 'w')])
    return {
        # two different references under one name in separate scopes; the preferred feed knows only the first one's table
        'same-named-references-union': {'statements': [two_refs], 'rename': {'r1': 'r0'},
                                        'pool': pool((10.0, [g.table('A')], {}), (1.0, tables, {}))},
        'same-named-references-union-other': {'statements': [two_refs], 'rename': {'r1': 'r0'},
                                              'pool': pool((10.0, [g.table('B')], {}), (1.0, tables, {}))},
        'same-named-inner-aliases': {'statements': [two_inner], 'rename': {'t1': 't0'},
                                     'pool': pool((10.0, [g.table('A')], {}), (1.0, tables, {}))},
        'join-only': {'statements': [over_join], 'pool': pool((10.0, [jab], {}), (1.0, tables, {}))},
        'join-and-tables': {'statements': [over_join], 'pool': pool((10.0, [jab] + tables, {}), (1.0, tables, {}))},
        'bare-join-only': {'statements': [jab], 'pool': pool((10.0, [jab], {}))},
        'query-only': {'statements': [qa], 'pool': pool((10.0, [qa], {}), (-1.0, [g.table('A')], {}))},
        'query-under-reference': {'statements': [over_ref_q], 'pool': pool((2.0, [qa], {}), (1.0, [g.table('A')], {}))},
        'referenced-query-only': {'statements': [over_ref_q], 'pool': pool((2.0, [ref_q], {}))},
        'set-only': {'statements': [union], 'pool': pool((0.5, [union], {}), (0.0, tables, {}))},
        'reference-only': {'statements': [over_ref], 'pool': pool((5.0, [ref_a], {}), (1.0, [g.table('A')], {}))},
        'reference-and-table': {'statements': [over_ref], 'pool': pool((5.0, [ref_a, g.table('A')], {}))},
        'self-join-only': {'statements': [over_self], 'pool': pool((5.0, [self_join], {}), (None, [g.table('A')], {}))},
        'tables-three-feeds': {'statements': [over_join, qa],
                               'pool': pool((1.0, tables, {}), (3.0, [g.table('A')], {}), (2.0, tables, {}), order=[1, 0, 2])},
        'near-miss-join': {'statements': [over_join],
                           'pool': pool((9.0, [g.join(g.table('A'), g.table('B'), 'left', eq)], {}), (1.0, tables, {}))},
        'string-reference': {'statements': [over_join], 'pool': pool((4.0, tables, {'route': 'string'}))},
        'string-and-descriptor': {'statements': [qa],
                                  'pool': pool((4.0, [g.table('B')], {'route': 'string'}), (1.0, [g.table('A')], {}))},
    }


# ---------------------------------------------------------------------------------------------- workload
def corpus(ctx, env):
    """The statement ASTs of this shard (sanitised), in a seeded order."""
    g, lib = env.g, env.lib
    rng = ctx.rng('corpus', ctx.shard)
    out = []
    for index, ast in enumerate(g.enumerate_asts(2, ctx.rng('enumerate'), 1)):  # same enumeration in every shard
        if ctx.mine(index) and (not ctx.quick or index // ctx.nshards % 5 == ctx.seed % 5):
            out.append(ast)
    for _ in range(ctx.pick(30, 1200)):
        out.append(g.random_ast(rng, rng.choice((2, 2, 3))))
    clean = []
    for ast in out:
        ast = lib.sanitize(ast)
        if ast is None:
            ctx.count('statements_with_window_skipped')
            continue
        clean.append(ast)
        if rng.random() < 0.04:  # bare origins are sources too (Importer.match takes any dsl.Source)
            origins = [n for _, n in lib.source_nodes(ast) if n[0] in ('join', 'reference', 'table')]
            clean.append(rng.choice(origins))
    rng.shuffle(clean)
    return clean


def run(ctx):
    env = Env()
    g, lib = env.g, env.lib
    if ctx.shard == 0:
        for name, spec in directed_cases(g).items():
            ctx.count('directed_checked')
            run_case(ctx, env, dict(spec, directed=name))
    rng = ctx.rng('pools', ctx.shard)
    statements = corpus(ctx, env)
    previous = None
    for index, ast in enumerate(statements):
        for _ in range(ctx.pick(2, 3)):
            chosen = [ast]
            if previous is not None and rng.random() < 0.5 and g.signature(previous) != g.signature(ast):
                chosen.append(previous)
            spec = {'statements': chosen, 'pool': lib.make_pool(rng, chosen)}
            if len(chosen) == 1 and rng.random() < 0.6:
                # two different references that are never visible together get one name (legal: separate scopes)
                rename = g.shared_names(ast)
                inner = {n[2]: env.build(n[1]) for _, n in g.walk(ast) if n[0] == 'reference'}
                # (two references of equal content under one name would be one and the same object: an advert of either
                # covers both, which the AST-level coverage oracle does not model)
                if rename and all(inner[old] != inner[new] for old, new in rename.items()):
                    ctx.count('shared_reference_name_cases')
                    spec['rename'] = rename
            run_case(ctx, env, spec)
            if index % 97 == 0:
                ctx.sample({'statement': g.signature(ast)[:300],
                            'pool': [(f['priority'], f['strategy'], [a[0] for a in f['adverts']]) for f in spec['pool']['feeds']]})
        previous = ast
    ctx.note_max('feeds_instantiated', len(env.pool.CREATED))


def replay(ctx, witness):
    env = Env()
    spec = {'statements': env.g.norm(witness['statements']), 'pool': witness['pool']}
    if witness.get('rename'):
        spec['rename'] = dict(witness['rename'])
    for feed in spec['pool']['feeds']:
        feed['adverts'] = [env.g.norm(a) for a in feed['adverts']]
    run_case(ctx, env, spec)
