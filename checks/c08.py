"""C08 - DSL objects are equal exactly when they are structurally identical.

Workload: statement ASTs from ``vlib/dslgen.py`` (skeleton enumeration + seeded random); for every AST ``x``
  (a) identical pairs: x built through the fluent API vs the raw constructors vs a fresh catalog (new table classes);
  (b) different pairs: x vs every single-leaf variant y (a literal value - with pools of values colliding under python's
      hash: -1/-2, 0/2**61-1, 1/2**61, -1.0/-2.0, and 1/True/1.0 -, an operator, operand order, a function, an alias, a
      direction, a column, a column's origin, a join / set kind, limit / offset, a cast kind, a reference name, a clause
      dropped, the table twin A/A2 with the same fields) - only variants that are conforming statements;
for the statements themselves, the sub-sources and clause features on the path to the changed leaf, their schemas, and
all pairs of a pool of kinds.

Monitors on a pair (oracle = identity of the ASTs' canonical signatures, ``dslgen.signature``):
  eq / hash / set / dict : ``bool(x == y)``, ``hash(x) == hash(y)``, ``y in {x}``, ``{x: 1}.get(y)``
  fidelity : the statement the fluent API hands back has the structure asked for (= what the raw constructors build):
             ``Query.where/groupby/...`` read ``self.prefilter`` etc. through the lru-cached ``Source.__getitem__`` and
             so can silently splice in the clause of an earlier statement that compares equal
  getitem  : ``x[name]`` / ``getattr(x, name)`` then the same on y: each must return *its own* output feature
             (identified by ``dslgen.structure``, which does not use forml's __eq__/__hash__) - the lru cache of
             ``Source.__getitem__`` must not hand out the other statement's feature
  pickle   : a round trip keeps structure, equality and hash, and does not become equal to the other object - on
             freshly built objects and again after they served schema / item access / parsing (cached properties)
  parser   : one ``alchemy.Parser`` (its ``generate_feature`` lru cache) parses x then y: each SQL text must be the
             text a fresh parser produces for that statement alone
  reader   : ``alchemy.Reader._parse_statement`` (lru cache keyed by the statement) likewise
  cross    : objects that were used in this process (hashed, keyed a dict, schema read, parsed) are pickled and shipped to
             a child interpreter with another PYTHONHASHSEED (vlib/c08_child.py), which builds the identical object
             natively from the AST: loaded vs native must be ==, hash equal, interchangeable in set / dict, also after a
             second round trip, and must stay unequal to a natively built single-leaf variant (kinds: all pairs)
  stable   : the verdict vector of sampled pairs is re-evaluated at the end of the shard - after thousands of other
             DSL objects were created - on the same objects and on rebuilt ones

Oracle relaxations:
  * "hash equal iff same structure" is judged as: identical structures hash equal, and objects that compare equal hash
    equal.  A mere hash collision between objects that compare *unequal* (``Source.Schema`` xors its field hashes, so
    permuted schemas collide) cannot confuse a lookup and is only counted (``benign_hash_collisions``).
  * for features forml defines ``==`` as hash equality, so there a collision *is* the confusion (known finding below).
  * schema classes are compared by their field lists only (the class name is not taken as part of the structure:
    forml deliberately leaves it out of both ``__eq__`` and ``__hash__``).
  * a cache slot may be occupied by a *third*, earlier object (the caches are process wide), so a wrong answer is
    classified from what came back (``structure_collision`` / ``sql_collision``: differs from the expected answer only in
    literals that collide under hash -> the known literal mechanism), not only from the pair at hand.
  * the shared-parser monitor is restricted to identical pairs when a reference is involved: the parser's feature cache
    outlives the parsing context, so reference elements of a second parse stay bound to the first parse's alias object
    (known finding); for different statements that artefact cannot be told from a confusion in the SQL text.
  * statements the parser cannot translate at all on the pinned tree (Not, Abs, windows, predicate factors - C06 matters)
    are skipped by the parser / reader monitors (counted as ``parser_unparseable``).
"""
PROPERTY = 'C08'
LEVEL = 'exploration'
RULE = (
    'pairs (x, y) of real DSL objects built from generator ASTs: identical (fluent vs raw vs fresh-catalog builds) and '
    'single-leaf variants (literal value incl. python-hash-colliding pools, literal kind 1/True/1.0, operator, operand '
    'order, function, alias, direction, column, column origin, join/set kind, limit/offset, cast kind, reference name, '
    'dropped clause, twin table) x object level (statement, sub-source, clause feature, changed node, schema) + all '
    'pairs of 16 kinds. distinct = distinct (statement skeleton, kind of leaf changed, path, object level) for variants '
    'and (skeleton, build routes) for identical pairs; non-trivial = every variant pair, and identical pairs built '
    'through two different routes'
)
ASSUMPTIONS = [
    'structural identity is identity of the generator ASTs (vlib/dslgen.py signature); dslgen.structure() describes real '
    'objects by class names and nested items without using forml equality',
    'statements over the fixed 3-table catalog (+ twin table A2); literal pools chosen to contain python hash collisions',
    'a hash collision between objects that compare unequal is not a violation (it cannot confuse a mapping)',
]
MANIFEST = {
    'text': 'Exploration: tens of thousands of pairs of really constructed DSL statements, sources, features, schemas and '
            'kinds - identical rebuilt through different routes, or differing in exactly one leaf (including literal '
            'values whose python hashes collide) - are compared through ==, hash, set/dict lookups, cached item/attribute '
            'access, pickling, one shared SQL parser and the reader statement cache, and re-checked after thousands of '
            'unrelated objects exist. Holds on the pairs observed - not a proof.',
    'design_ref': 'DESIGN.md section 5 / C08',
    'note': 'Trusted: AST signature identity and dslgen.structure(); mere hash collisions of unequal objects are not '
            'counted as violations.',
    'technique': 'runtime monitoring: pairwise differential oracle on live DSL objects and their caches',
}


def shards(tier):
    return 12 if tier == 'quick' else 16


def floors(tier):
    scale = 1 if tier == 'quick' else 8
    return {
        'evaluations': 8000 * scale, 'pairs_identical': 1800 * scale, 'pairs_different': 3600 * scale,
        'pairs_source': 2000 * scale, 'pairs_feature': 2000 * scale, 'pairs_schema': 1300 * scale, 'pairs_kind': 256,
        'collision_pairs': 100 * scale, 'getitem_checked': 350 * scale, 'pickle_checked': 350 * scale,
        'pickle_used_checked': 100 * scale, 'parser_checked': 200 * scale, 'reader_checked': 300 * scale,
        'fidelity_checked': 800 * scale, 'stable_checked': 150, 'cross_process_pairs_checked': 1500 if tier == 'quick' else 6000, 'objects_built': 6000 * scale, 'directed_checked': 28,
    }


# ---------------------------------------------------------------------------------------------- helpers
def has_window(g, ast):
    return ast is not None and any(n[0] == 'window' for _, n in g.walk(ast) if isinstance(n, tuple))


def untwin(ast):
    """The AST with the twin table A2 renamed to A."""
    if isinstance(ast, tuple):
        return tuple(untwin(a) for a in ast)
    return 'A' if ast == 'A2' else ast


def structure_collision(left, right):
    """Two ``dslgen.structure`` descriptions differ only in int / float literal leaves whose values collide under hash."""
    diffs = []

    def rec(a, b):
        if isinstance(a, list) and isinstance(b, list):
            if len(a) == 2 and len(b) == 2 and a[0] == b[0] and a[0] in ('int', 'float') and isinstance(a[1], str):
                if a[1] != b[1]:
                    diffs.append((a[0], a[1], b[1]))
                return True
            return len(a) == len(b) and all(rec(i, j) for i, j in zip(a, b))
        return a == b

    if not rec(left, right) or not diffs:
        return False
    conv = {'int': int, 'float': float.fromhex}
    return all(hash(conv[t](v)) == hash(conv[t](w)) for t, v, w in diffs)


NUMBER = None


def sql_collision(seen, want):
    """Two SQL texts differ only in numeric literals whose python values collide under hash (-1/-2, 0/2**61-1 ...)."""
    import re

    global NUMBER  # pylint: disable=global-statement
    if NUMBER is None:
        NUMBER = re.compile(r'-?\d+(?:\.\d+)?(?:e[+-]?\d+)?')
    if not isinstance(seen, str) or not isinstance(want, str) or NUMBER.sub('#', seen) != NUMBER.sub('#', want):
        return False
    pairs = [(a, b) for a, b in zip(NUMBER.findall(seen), NUMBER.findall(want)) if a != b]

    def value(text):
        return float(text) if ('.' in text or 'e' in text) else int(text)

    return bool(pairs) and all(hash(value(a)) == hash(value(b)) for a, b in pairs)


def twin_of(g, ast):
    """The statement with table A replaced by its twin A2 (same fields, other name), or None."""
    uses = any(n[0] == 'table' and n[1] == 'A' for _, n in g.walk(ast))
    if not uses or any(n[0] == 'table' and n[1] == 'A2' for _, n in g.walk(ast)):
        return None

    def swap(node):
        if isinstance(node, tuple):
            if node and node[0] == 'literal':
                return node
            if node and node[0] == 'table' and node[1] == 'A':
                return ('table', 'A2')
            if node and node[0] == 'column' and node[1] == 'A':
                return ('column', 'A2', node[2])
            return tuple(swap(n) for n in node)
        return node

    return swap(ast)


def classify(g, monitor, level, same, ax, ay, what, root=None):
    """Mechanism key of a disagreement from structural features of the pair (``root``: the statement a sub-object was
    taken from - a column of it may point at a reference whose definition holds a window)."""
    if same:
        if has_window(g, ax) or has_window(g, g.norm(root) if root is not None else None):
            return 'window-identity'
        return f'{monitor}-splits-identical-{level}'
    if ax is not None and ay is not None:
        pairs = g.literal_difference(ax, ay)
        if pairs and all(hash(v) == hash(w) for v, w in pairs):
            return 'literal-hash-collision'
        if g.signature(untwin(ax)) == g.signature(untwin(ay)):
            return 'table-name-ignored-by-eq'
    return f'{monitor}-confuses-{level}-{what}'


def report(ctx, key, message, witness):
    """ctx.violation with a lazily built message (forml reprs of deep statements are slow; only 8 per key are kept)."""
    seen = ctx._vkeys.get(key, 0)  # pylint: disable=protected-access
    ctx.violation(key, message() if seen < 8 else '', witness if seen < 8 else None)


def vector(x, y):
    """(eq, hash equal, y in {x}, {x: 1}.get(y)) - exceptions are part of the observation."""
    out = []
    for probe in (lambda: bool(x == y), lambda: hash(x) == hash(y), lambda: y in {x}, lambda: {x: 1}.get(y) == 1):
        try:
            out.append(probe())
        except RecursionError:
            out.append('raises:RecursionError')
        except Exception as err:  # pylint: disable=broad-except
            note = ':unknown-ETL-type' if isinstance(err, ValueError) and 'is of unknown ETL type' in str(err) else ''
            out.append(f'raises:{type(err).__name__}{note}')
    return out


MONITORS = ('eq', 'hash', 'set', 'dict')


def check_pair(ctx, g, level, x, y, same, ax, ay, what, witness, keep=None):
    """Equality / hash / set / dict monitors on one pair of objects."""
    ctx.count('evaluations')
    ctx.count('pairs_identical' if same else 'pairs_different')
    ctx.count(f'pairs_{level}')
    seen = vector(x, y)
    collision = False
    if not same and ax is not None and ay is not None:
        pairs = g.literal_difference(ax, ay)
        collision = bool(pairs) and all(hash(v) == hash(w) for v, w in pairs)
        if collision:
            ctx.count('collision_pairs')
    for monitor, value in zip(MONITORS, seen):
        if value is same:
            continue
        if monitor == 'hash' and not same and value is True and seen[0] is False and seen[2] is False and seen[3] is False:
            ctx.count('benign_hash_collisions')  # unequal objects sharing a hash: no lookup can confuse them
            continue
        key = classify(g, monitor, level, same, ax, ay, what, witness.get('ast') if isinstance(witness, dict) else None)
        if monitor == 'eq' and value == 'raises:ValueError:unknown-ETL-type' and not same:
            key = 'eq-raises-casting-non-feature'  # Operable.__eq__ tried to make a Literal of None / a source / ...
        report(ctx, key, lambda: f'{level} pair ({what}): {monitor} gives {value!r} for structurally '
                           f'{"identical" if same else "different"} objects {x!r:.160} / {y!r:.160}', witness)
    if keep is not None and len(keep) < 40 and ctx.counters['evaluations'] % 23 == 0:
        keep.append((level, x, y, same, ax, ay, what, witness, seen))
    return seen


def outputs(g, ast):
    """[(name, feature AST)] of the named outputs of a query when all output names are unique, else None."""
    if ast[0] != 'query':
        return None
    env = g.Env(ast)
    try:
        feats = g.output_features(ast, env)
    except g.DslgenError:
        return None
    names = [g.feature_name(f) for f in feats]
    if None in names or len(set(names)) != len(names):
        return None
    return list(zip(names, feats))


def misaligned(obj):
    """The source lists more features than its schema has fields (Set.features concatenates both operands; equal names
    collapse in the schema), so ``Source.__getitem__``'s zip(schema, features) pairs names with the wrong features."""
    try:
        return len(list(obj.schema)) != len(obj.features)
    except RecursionError:
        return False
    except Exception:  # pylint: disable=broad-except
        return False


def check_getitem(ctx, g, x, y, same, ax, ay, what, witness):
    """x[name] / x.name then y[name] / y.name: the (cached) accessor must return each statement's own feature."""
    outs_x, outs_y = outputs(g, ax), outputs(g, ay)
    if outs_x is None or outs_y is None:
        return
    ctx.count('getitem_checked')
    ctx.count('evaluations')
    for obj, ast, outs in ((x, ax, outs_x), (y, ay, outs_y), (x, ax, outs_x)):
        builder = g.Builder(ast, raw=True)
        for name, feature in outs:
            want = g.structure(builder.feature(feature))
            for how, access in (('item', lambda o, n: o[n]), ('attr', getattr)):
                try:
                    got = g.structure(access(obj, name))
                except RecursionError:
                    got = 'raises:RecursionError'
                except Exception as err:  # pylint: disable=broad-except
                    got = f'raises:{type(err).__name__}: {err}'
                if got != want:
                    key = classify(g, 'getitem', 'source', same, ax, ay, what)
                    if isinstance(got, list) and misaligned(obj):
                        key = 'getitem-schema-features-misaligned'
                    elif isinstance(got, list) and structure_collision(got, want):
                        # the lru cache of Source.__getitem__ is process wide: the slot may belong to a third, earlier
                        # statement that differs from this one only in hash-colliding literals
                        key = 'literal-hash-collision'
                    report(ctx, key, lambda: f'{how} access {name!r} on {obj!r:.160} returned {got} instead of {want} '
                                       f'(after the same access on {x!r:.160})', witness)
                    return


def unnamed_outputs(g, ast):
    try:
        return g.is_source(ast) and None in [n for n, _ in g.schema_of(ast)]
    except g.DslgenError:
        return False


def reaches_factors(obj):
    """The object graph pickle walks (tuple items and instance dicts) contains a cached ``Predicate.Factors``."""
    seen, todo = set(), [obj]
    while todo:
        item = todo.pop()
        if id(item) in seen:
            continue
        seen.add(id(item))
        if type(item).__name__ == 'Factors':
            return True
        if isinstance(item, tuple):
            todo.extend(tuple.__iter__(item))
        if isinstance(getattr(item, '__dict__', None), dict):
            todo.extend(item.__dict__.values())
    return False


def check_pickle(ctx, g, level, x, y, same, ax, ay, what, witness, used=False):
    """Round trip of x.  ``used``: x has already served attribute access / schema / parsing (cached properties)."""
    import pickle

    ctx.count('pickle_used_checked' if used else 'pickle_checked')
    ctx.count('evaluations')
    try:
        z = pickle.loads(pickle.dumps(x))
    except RecursionError as err:
        key = 'pickle-unnamed-feature-recursion' if used and unnamed_outputs(g, ax) else 'pickle-raises-RecursionError'
        report(ctx, key, lambda: f'pickle round trip of {x!r:.200} raised RecursionError: {err}', witness)
        return
    except Exception as err:  # pylint: disable=broad-except
        if has_window(g, ax):
            key = 'window-identity'
        elif isinstance(err, TypeError) and 'mappingproxy' in str(err) and reaches_factors(x):
            # its own predicates were parsed before (``used``) or - through the lru cache behind Query.selection /
            # .prefilter - the statement was assembled from clauses of an earlier, equal statement that was parsed
            key = 'pickle-after-factors-cached'
        else:
            key = f'pickle-raises-{type(err).__name__}'
        report(ctx, key, lambda: f'pickling {x!r:.200} raised {type(err).__name__}: {err}', witness)
        return
    problems = []
    if g.structure(z) != g.structure(x):
        problems.append('structure changed')
    seen = vector(x, z)
    if seen != [True, True, True, True]:
        problems.append(f'copy vs original (eq, hash, set, dict) = {seen}')
    other = vector(z, y)
    expect = vector(x, y)
    if other != expect:
        problems.append(f'copy vs other = {other}, original vs other = {expect}')
    if problems:
        key = 'window-identity' if has_window(g, ax) else f'pickle-changes-identity-{level}'
        report(ctx, key, lambda: f'pickle round trip of {x!r:.200}: {"; ".join(problems)}', witness)


class Sql:
    """SQL text of statements through fresh / shared alchemy parsers and the reader's statement cache."""

    def __init__(self, g):
        from forml.provider.feed.reader import alchemy

        self.alchemy = alchemy
        self.sources = g.alchemy_sources()
        self.reader = alchemy.Reader(self.sources, {}, 'sqlite://')
        self.uses = 0

    def parser(self):
        return self.alchemy.Parser(self.sources, {})

    @staticmethod
    def text(clause):
        return ' '.join(str(clause.compile(compile_kwargs={'literal_binds': True})).split())

    def parse(self, parser, statement):
        with parser:
            statement.accept(parser)
            return self.text(parser.fetch())

    def fresh(self, statement):
        try:
            return self.parse(self.parser(), statement)
        except RecursionError:
            return None
        except Exception:  # pylint: disable=broad-except
            return None

    def renew(self):
        """A new reader (its statement cache is per instance) - one per pair, so that a slot can only belong to the pair."""
        self.reader = self.alchemy.Reader(self.sources, {}, 'sqlite://')

    def cached(self, statement):
        return self.text(self.reader._parse_statement(statement))  # pylint: disable=protected-access


def has_reference(g, ast):
    return any(n[0] == 'reference' for _, n in g.walk(ast))


def check_sql(ctx, g, sql, x, y, same, ax, ay, what, witness):
    """One parser / one reader for both statements vs a fresh parser per statement."""
    fresh_x, fresh_y = sql.fresh(x), sql.fresh(y)
    if fresh_x is None or fresh_y is None:
        ctx.count('parser_unparseable')
        return
    for monitor, counter in (('parser', 'parser_checked'), ('reader', 'reader_checked')):
        referenced = has_reference(g, ax) or has_reference(g, ay)
        if monitor == 'parser' and referenced:
            # (until the repair of the reference handles - /repo c08 fixed entry parser-cache-stale-reference-origin - these
            # pairs were skipped: the parser's feature cache bound elements of a reference to the alias of the first parse)
            ctx.count('parser_reference_pairs')
        ctx.count(counter)
        ctx.count('evaluations')
        shared = sql.parser()
        sql.renew()
        got = []
        for statement in (x, y):
            try:
                got.append(sql.parse(shared, statement) if monitor == 'parser' else sql.cached(statement))
            except Exception as err:  # pylint: disable=broad-except
                got.append(f'raises:{type(err).__name__}: {err}')
                shared = sql.parser()
        for index, (seen, want) in enumerate(zip(got, (fresh_x, fresh_y))):
            if seen == want:
                continue
            key = classify(g, monitor, 'statement', same, ax, ay, what)
            if monitor == 'parser' and same and referenced and index == 1:
                key = 'parser-cache-stale-reference-origin'
            elif sql_collision(seen, want):
                # the slot hit belongs to a feature that differs only in hash-colliding literals - possibly a feature
                # at another position of the other statement, not the leaf this pair was derived from
                key = 'literal-hash-collision'
            report(ctx, key, lambda: f'{monitor} shared by two statements produced for statement #{index + 1} {seen!r:.300} but a fresh '
                               f'parser produces {want!r:.300} (other statement: {(fresh_x, fresh_y)[1 - index]!r:.200})', witness)
            break


# ---------------------------------------------------------------------------------------------- workload
def levels(g, ax, ay, path):
    """(level, sub AST of x, sub AST of y) for the statement, the sources and the clause features on the path."""
    out = [('source', ax, ay)]
    clause_paths = {tuple(p) for _, _, p, _ in g.clauses(ax)}
    for end in range(1, len(path) + 1):
        prefix = tuple(path[:end])
        try:
            nx, ny = g.get(ax, prefix), g.get(ay, prefix)
        except (IndexError, TypeError):
            break
        if not (isinstance(nx, tuple) and isinstance(ny, tuple) and nx and ny):
            continue
        if g.is_source(nx) and g.is_source(ny):
            out.append(('source', nx, ny))
        elif prefix in clause_paths or end == len(path):
            if g.is_feature(nx) and g.is_feature(ny):
                out.append(('feature', nx, ny))
    return out


def build_sub(g, root, node, raw=False):
    builder = g.Builder(root, raw=raw)
    if g.is_source(node):
        return builder.source(node)
    obj = builder.feature(node)
    if type(obj).__name__ == 'Pythonic':  # the lazy proxy python's == / < return; the DSL object is its .operable
        obj = obj.operable
    return obj


def check_fidelity(ctx, g, fluent, raw, ast, witness):
    """The statement the fluent API returns has the structure that was asked for (= what the raw constructors build).
    The fluent methods read ``self.prefilter`` etc. through the lru-cached ``Source.__getitem__``, so a statement built
    step by step can silently receive the clause of an *earlier, equal* statement."""
    ctx.count('fidelity_checked')
    ctx.count('evaluations')
    got, want = g.structure(fluent), g.structure(raw)
    if got == want:
        return True
    key = 'literal-hash-collision' if structure_collision(got, want) else 'fluent-build-returns-other-structure'
    report(ctx, key, lambda: f'fluent construction of {ast} returned {fluent!r:.300}, the constructors give {raw!r:.300}', witness)
    return False


def run_statement(ctx, g, dsl, sql, ast, index, rng, keep):
    from vlib import core

    witness = {'ast': ast}
    try:
        x = g.build(ast)
        x_raw = g.build_raw(ast)
        x_new = g.build(ast, tables=g.make_catalog({**g.SCHEMA, **g.TWIN}))
        # the clause methods of every query called in another (seeded) order: the same structure
        x_perm = g.build(ast, order=core.subseed('c08-order', g.signature(ast)))
    except Exception as err:  # pylint: disable=broad-except
        ctx.count('unconstructible')  # construction is C07's subject (e.g. un-aliased == in a select list)
        del err
        return
    ctx.count('objects_built', 4)
    skeleton = g.skeleton(ast)
    if not (check_fidelity(ctx, g, x, x_raw, ast, witness) and check_fidelity(ctx, g, x_new, x_raw, ast, witness)
            and check_fidelity(ctx, g, x_perm, x_raw, ast, {**witness, 'route': 'permuted'})):
        return  # x is not the statement the AST describes: nothing below could be attributed correctly
    # ---- identical pairs
    for route, other in (('raw', x_raw), ('fresh-catalog', x_new), ('permuted', x_perm)):
        info = {**witness, 'pair': 'identical', 'route': route}
        ctx.shape((skeleton, 'identical', route))
        check_pair(ctx, g, 'source', x, other, True, ast, ast, f'identical-{route}', info, keep)
    named = True
    try:
        schema = x.schema
        check_pair(ctx, g, 'schema', schema, x_raw.schema, True, None, None, 'identical-raw', {**witness, 'pair': 'schema'})
        check_pair(ctx, g, 'schema', schema, x_new.schema, True, None, None, 'identical-fresh', {**witness, 'pair': 'schema'})
    except RecursionError:
        named = False  # C07 finding: un-named outputs have no schema
    for _, clause, path, feature in g.clauses(ast):
        if rng.random() < 0.5:
            continue
        try:
            f1, f2 = build_sub(g, ast, feature), build_sub(g, ast, feature, raw=True)
        except Exception:  # pylint: disable=broad-except
            continue
        ctx.count('objects_built', 2)
        check_pair(ctx, g, 'feature', f1, f2, True, feature, feature, f'identical-{clause}',
                   {**witness, 'pair': 'feature', 'path': list(path)})
    if index % 3 == 0:
        check_getitem(ctx, g, x, x_raw, True, ast, ast, 'identical-raw', {**witness, 'pair': 'getitem-identical'})
        check_pickle(ctx, g, 'source', g.build_raw(ast), x_raw, True, ast, ast, 'identical-raw', {**witness, 'pair': 'pickle-identical'})
    if index % 4 == 0 and ast[0] in ('query', 'set'):
        check_sql(ctx, g, sql, x, x_raw, True, ast, ast, 'identical-raw', {**witness, 'pair': 'sql-identical'})
    # ---- single-leaf variants
    variants = list(g.leaf_variants(ast, rng))
    twin = twin_of(g, ast)
    if twin is not None:
        variants.append((twin, 'twin-table', ()))
    budget = ctx.pick(12, 24)
    if len(variants) > budget:
        collisions = [v for v in variants if v[1] == 'literal']
        rest = [v for v in variants if v[1] != 'literal']
        rng.shuffle(collisions)
        rng.shuffle(rest)
        variants = collisions[:budget // 3] + rest[:budget - min(len(collisions), budget // 3)]
    for position, (variant, what, path) in enumerate(variants):
        if g.signature(variant) == g.signature(ast):
            continue
        try:
            if g.violations(variant) or g.unspecified(variant):
                ctx.count('variants_illformed')
                continue
        except g.DslgenError:
            ctx.count('variants_illformed')
            continue
        info = {'ast': ast, 'variant': variant, 'what': what, 'path': list(path)}
        try:
            y = g.build(variant) if position % 2 else g.build_raw(variant)
            if position % 2:
                check_fidelity(ctx, g, y, g.build_raw(variant), variant, {**info, 'level': 'fidelity'})
        except Exception:  # pylint: disable=broad-except
            ctx.count('unconstructible')
            continue
        ctx.count('objects_built')
        ctx.count(f'variant_{what}')
        for level, nx, ny in levels(g, ast, variant, path):
            if g.signature(nx) == g.signature(ny):
                continue
            ctx.shape((skeleton, what, list(path), level, len(g.signature(nx))))
            if nx is ast:
                ox, oy = x, y
            else:
                try:
                    ox, oy = build_sub(g, ast, nx), build_sub(g, variant, ny, raw=bool(position % 2))
                except Exception:  # pylint: disable=broad-except
                    continue
                ctx.count('objects_built', 2)
            check_pair(ctx, g, level, ox, oy, False, nx, ny, what, {**info, 'level': level}, keep)
        if named and variant[0] in ('query', 'set'):
            try:
                sx, sy = x.schema, y.schema
                same = g.structure(sx) == g.structure(sy)
                check_pair(ctx, g, 'schema', sx, sy, same, None, None, what, {**info, 'level': 'schema'})
            except RecursionError:
                pass
        if position % 3 == 0:
            check_getitem(ctx, g, x, y, False, ast, variant, what, {**info, 'level': 'getitem'})
        if position % 4 == 1:
            check_pickle(ctx, g, 'source', g.build_raw(ast), y, False, ast, variant, what, {**info, 'level': 'pickle'})
        if ast[0] in ('query', 'set') and (position % 7 == 2 or (what == 'literal' and position % 3 == 0)):
            check_sql(ctx, g, sql, x, y, False, ast, variant, what, {**info, 'level': 'sql'})
    if index % 2 == 0:  # x has by now served schema / item access / parsing: it must still survive a round trip
        check_pickle(ctx, g, 'source', x, x_raw, True, ast, ast, 'identical-raw', {**witness, 'pair': 'pickle-used'}, used=True)


def kind_pool(dsl):
    return [
        ('Boolean', dsl.Boolean), ('Integer', dsl.Integer), ('Float', dsl.Float), ('Decimal', dsl.Decimal),
        ('String', dsl.String), ('Date', dsl.Date), ('Timestamp', dsl.Timestamp),
        ('Array(Integer)', lambda: dsl.Array(dsl.Integer())), ('Array(Float)', lambda: dsl.Array(dsl.Float())),
        ('Array(Array(Integer))', lambda: dsl.Array(dsl.Array(dsl.Integer()))),
        ('Map(Integer,String)', lambda: dsl.Map(dsl.Integer(), dsl.String())),
        ('Map(String,Integer)', lambda: dsl.Map(dsl.String(), dsl.Integer())),
        ('Struct(a=Integer)', lambda: dsl.Struct(a=dsl.Integer())), ('Struct(b=Integer)', lambda: dsl.Struct(b=dsl.Integer())),
        ('Struct(a=Float)', lambda: dsl.Struct(a=dsl.Float())),
        ('Struct(a=Integer,b=String)', lambda: dsl.Struct(a=dsl.Integer(), b=dsl.String())),
    ]


def run_kinds(ctx, g, dsl):
    import pickle

    pool = kind_pool(dsl)
    for (name_x, make_x) in pool:
        for (name_y, make_y) in pool:
            same = name_x == name_y
            x, y = make_x(), make_y()
            ctx.shape(('kind', name_x, name_y))
            check_pair(ctx, g, 'kind', x, y, same, None, None, 'kind', {'kinds': [name_x, name_y]})
            compound = name_x.startswith(('Array', 'Map', 'Struct'))
            try:
                z = pickle.loads(pickle.dumps(x))
            except Exception as err:  # pylint: disable=broad-except
                report(ctx, 'compound-kind-pickle' if compound else f'pickle-kind-raises-{type(err).__name__}', lambda: f'pickle round trip of kind {name_x} raised {type(err).__name__}: {err}', {'kinds': [name_x, name_y]})
                continue
            if vector(z, y) != [same] * 4 or (not compound and z is not x):
                report(ctx, 'compound-kind-pickle' if compound else 'pickle-changes-identity-kind', lambda: f'pickled {name_x} vs {name_y}: (eq, hash, set, dict) = {vector(z, y)}', {'kinds': [name_x, name_y]})
    # literal features over the kinds and fields over the kinds
    for (name_x, make_x) in pool[:7]:
        for (name_y, make_y) in pool[:7]:
            same = name_x == name_y
            fx, fy = dsl.Field(make_x(), 'f'), dsl.Field(make_y(), 'f')
            sx, sy = dsl.Schema.from_fields(fx), dsl.Schema.from_fields(fy)
            check_pair(ctx, g, 'schema', sx, sy, same, None, None, 'field-kind', {'kinds': [name_x, name_y], 'level': 'field'})
    names = ['p', 'q']
    for nx in names:
        for ny in names:
            sx = dsl.Schema.from_fields(dsl.Field(dsl.Integer(), nx), dsl.Field(dsl.String(), 'z'))
            sy = dsl.Schema.from_fields(dsl.Field(dsl.Integer(), ny), dsl.Field(dsl.String(), 'z'))
            check_pair(ctx, g, 'schema', sx, sy, nx == ny, None, None, 'field-name', {'fields': [nx, ny]})
    ordered = dsl.Schema.from_fields(dsl.Field(dsl.Integer(), 'p'), dsl.Field(dsl.String(), 'z'))
    swapped = dsl.Schema.from_fields(dsl.Field(dsl.String(), 'z'), dsl.Field(dsl.Integer(), 'p'))
    check_pair(ctx, g, 'schema', ordered, swapped, False, None, None, 'field-order', {'fields': 'order'})


def directed(g):
    """(tag, kind of leaf changed, ast x, ast y) - one pair per known finding plus the pool collisions in every clause."""
    A = g.table('A')
    ax, ay = g.column('A', 'x'), g.column('A', 'y')
    cases = []
    for tag, v, w, kind in (('int--1--2', -1, -2, 'int'), ('int-0-m61', 0, 2**61 - 1, 'int'), ('int-1-p61', 1, 2**61, 'int'),
                            ('float--1--2', -1.0, -2.0, 'float')):
        lv, lw = g.lit(v, kind), g.lit(w, kind)
        cases.append((f'collision-where-{tag}', 'literal', g.query(A, [ax], where=g.cmp('>', ay, lv)),
                      g.query(A, [ax], where=g.cmp('>', ay, lw))))
        cases.append((f'collision-select-{tag}', 'literal', g.query(A, [g.alias(g.arith('+', ax, lv), 'k')]),
                      g.query(A, [g.alias(g.arith('+', ax, lw), 'k')])))
        cases.append((f'collision-orderby-{tag}', 'literal', g.query(A, [ax], orderby=[(g.arith('*', ay, lv), 'asc')]),
                      g.query(A, [ax], orderby=[(g.arith('*', ay, lw), 'asc')])))
    for tag, what, v, w in (('int-1-2', 'literal', g.lit(1), g.lit(2)), ('int-1-true', 'literal-kind', g.lit(1), g.lit(True)),
                            ('int-1-float', 'literal-kind', g.lit(1), g.lit(1.0)), ('str-a-b', 'literal', g.lit('a'), g.lit('b')),
                            ('float-05-10', 'literal', g.lit(0.5), g.lit(1.0)), ('int-0-false', 'literal-kind', g.lit(0), g.lit(False)),
                            # values python calls equal although they are different literals (other sign, other text)
                            ('float-zero-signs', 'literal', g.lit(0.0, 'float'), g.lit(-0.0, 'float')),
                            ('float-zero-signs-reversed', 'literal', g.lit(-0.0, 'float'), g.lit(0.0, 'float'))):
        cases.append((f'distinct-select-{tag}', what, g.query(A, [ax, g.alias(v, 'c')]), g.query(A, [ax, g.alias(w, 'c')])))
    for tag, v, w in (('zero-signs', g.lit(0.0, 'float'), g.lit(-0.0, 'float')),):
        cases.append((f'distinct-where-{tag}', 'literal', g.query(A, [ax], where=g.cmp('>', g.column('A', 'z'), v)),
                      g.query(A, [ax], where=g.cmp('>', g.column('A', 'z'), w))))
        cases.append((f'distinct-feature-{tag}', 'literal', g.arith('+', g.column('A', 'z'), v), g.arith('+', g.column('A', 'z'), w)))
    win = g.query(A, [ax, g.alias(g.window('sum', ay, [ax], [(ay, 'asc')]), 'w')])
    cases.append(('window-rebuilt', 'identical', win, win))
    rank = g.query(A, [ax, g.alias(g.window('rownumber', None, [ax]), 'w')])
    cases.append(('ranking-window-rebuilt', 'identical', rank, rank))
    cases.append(('twin-select-star', 'twin-table', g.query(A), g.query(g.table('A2'))))
    cases.append(('twin-table', 'twin-table', A, g.table('A2')))
    ref = g.reference(A, 'r')
    cases.append(('reference-parsed-twice', 'identical', g.query(ref, [g.column('r', 'x')]), g.query(ref, [g.column('r', 'x')])))
    cases.append(('reference-name', 'reference-name', g.query(ref, [g.column('r', 'x')]),
                  g.query(g.reference(A, 'r_'), [g.column('r_', 'x')])))
    union = g.reference(g.setop(g.query(A, [ax]), g.query(g.table('B'), [g.column('B', 'x')]), 'union'), 'u')
    star = g.query(g.join(union, g.table('C'), 'cross', None))
    cases.append(('select-star-over-reference-of-set', 'identical', star, star))
    cases.append(('where-dropped', 'where-dropped', g.query(A, [ax], where=g.cmp('>', ay, g.lit(1))), g.query(A, [ax])))
    cases.append(('alias-dropped', 'alias-dropped', g.query(A, [g.alias(ax, 'g'), ay]), g.query(A, [ax, ay])))
    cases.append(('unnamed-output', 'identical', g.query(A, [g.arith('+', ax, g.lit(1))]), g.query(A, [g.arith('+', ax, g.lit(1))])))
    return cases


def run_directed(ctx, g, sql, keep):
    for tag, what, ax, ay in directed(g):
        ctx.count('directed_checked')
        same = g.signature(ax) == g.signature(ay)
        info = {'ast': ax, 'variant': ay, 'what': what, 'directed': tag}
        x, y = g.build(ax), g.build_raw(ay)
        ctx.shape(('directed', tag))
        check_pair(ctx, g, 'source', x, y, same, ax, ay, what, info, keep)
        check_getitem(ctx, g, x, y, same, ax, ay, what, info)
        check_pickle(ctx, g, 'source', g.build_raw(ax), y, same, ax, ay, what, info)
        if ax[0] in ('query', 'set'):
            try:
                x.schema  # pylint: disable=pointless-statement
            except RecursionError:
                pass
            check_sql(ctx, g, sql, x, y, same, ax, ay, what, info)
            check_pickle(ctx, g, 'source', x, y, same, ax, ay, what, {**info, 'used': True}, used=True)


# ---------------------------------------------------------------------------------------------- cross-process pickle
class Cross:
    """Batch of used objects for the cross-process pickle monitor (see vlib/c08_child.py)."""

    def __init__(self, limit):
        self.limit = limit
        self.items = []

    def full(self):
        return len(self.items) >= self.limit

    def add(self, ctx, what, obj, **spec):
        """Use the object the way a process does before shipping it (hash it, key a dict with it) and pickle it."""
        import base64
        import pickle

        try:
            hash(obj)
            assert {obj: 1}[obj] == 1 and obj in {obj}
            blob = pickle.dumps(obj)
        except RecursionError:
            ctx.count('cross_unpicklable')  # in-process matters: reported by the pickle / pair monitors
            return
        except Exception:  # pylint: disable=broad-except
            ctx.count('cross_unpicklable')
            return
        self.items.append({'id': len(self.items), 'what': what, 'blob': base64.b64encode(blob).decode(), **spec})


CROSS_DIRECTED = None


def cross_directed(g):
    """Statements that together contain every class of DSL object (features of all kinds, windows, all source types)."""
    A, B, C = g.table('A'), g.table('B'), g.table('C')
    ax, ay, az, as_ = (g.column('A', n) for n in 'xyzs')
    ck, cd, cb = g.column('C', 'k'), g.column('C', 'd'), g.column('C', 'b')
    r = g.reference(A, 'r')
    rx = g.column('r', 'x')
    sub = g.reference(g.query(B, [g.column('B', 'x'), g.alias(g.agg('count', g.column('B', 't')), 'n')], groupby=[g.column('B', 'x')]), 'q')
    return [
        g.query(A, [ax, g.alias(g.arith('+', ay, g.lit(1)), 'e'), g.alias(g.lit('a'), 'c'), g.alias(g.lit(0.5), 'f'), g.alias(g.lit(True), 't'),
                    g.alias(g.lit('2020-01-01', 'date'), 'd'), g.alias(g.cast(as_, 'Integer'), 'k'), g.alias(g.func('abs', az), 'm'),
                    g.alias(g.func('ceil', az), 'u')],
                where=g.and_(g.cmp('>', ay, g.lit(-1)), g.or_(g.isnull(as_), g.not_(g.cmp('==', ax, g.lit(2**61 - 1))))),
                orderby=[(ax, 'desc'), (g.arith('*', ay, g.lit(2)), 'asc')], rows=(3, 1)),
        g.query(A, [ax, g.alias(g.agg('sum', ay), 's'), g.alias(g.arith('-', g.agg('max', az), g.agg('min', az)), 'w'),
                    g.alias(g.agg('avg', az), 'v'), g.alias(g.agg('count', as_), 'n')],
                groupby=[ax], having=g.cmp('>=', g.agg('count', ay), g.lit(2))),
        g.query(C, [ck, g.alias(g.func('year', cd), 'y'), g.alias(g.notnull(cb), 'p')], where=cb),
        g.query(A, [ax, g.alias(g.window('sum', ay, [ax], [(ay, 'asc')]), 'w'), g.alias(g.window('rownumber', None, [as_]), 'i')]),
        g.query(g.join(g.join(A, r, 'left', g.cmp('==', ax, g.column('r', 'y'))), C, 'cross', None), [ax, g.alias(rx, 'rx'), ck]),
        g.query(g.join(A, sub, 'full', g.cmp('<', ax, g.column('q', 'n'))), [g.alias(g.column('q', 'n'), 'n'), as_], where=g.cmp('!=', as_, g.lit('b'))),
        g.setop(g.setop(g.query(A, [ax, as_]), g.query(B, [g.column('B', 'x'), g.alias(g.column('B', 't'), 's')]), 'union'),
                g.query(A, [g.alias(ay, 'x'), as_]), 'difference'),
        g.query(g.reference(g.setop(g.query(A, [ax]), g.query(B, [g.column('B', 'x')]), 'intersection'), 'u'), [g.column('u', 'x')],
                where=g.cmp('<=', g.column('u', 'x'), g.lit(3))),
    ]


def cross_variants(g, ast, rng, cap=16):
    """Conforming single-leaf variants of the statement (a seeded sample): [(variant, what, path)]."""
    found = [v for v in g.leaf_variants(ast, rng) if g.signature(v[0]) != g.signature(ast)]
    rng.shuffle(found)
    out = []
    for variant, what, path in found:
        if len(out) >= cap:
            break
        try:
            if not g.violations(variant) and not g.unspecified(variant):
                out.append((variant, what, tuple(path)))
        except g.DslgenError:
            continue
    return out


def cross_collect(ctx, g, sql, cross, ast, rng, per_statement=8, everything=False):
    """Build the statement, use it (schema, item access, parse), and add it, its schema, sub-sources and clause (sub)
    features - each with a single-leaf variant where one exists - to the batch."""
    try:
        x = g.build(ast)
    except Exception:  # pylint: disable=broad-except
        return
    named = True
    try:
        schema = x.schema
        hash(schema)
    except RecursionError:
        named = False
    if ast[0] in ('query', 'set'):
        sql.fresh(x)  # a parse reads .factors of every predicate (cached on the features)
    variants = cross_variants(g, ast, rng)

    def variant_for(path):
        for variant, what, vpath in variants:
            if vpath[:len(path)] == tuple(path) or (not path):
                try:
                    node = g.get(variant, path)
                except (IndexError, TypeError):
                    continue
                if isinstance(node, tuple) and node and (g.is_source(node) or g.is_feature(node)) \
                        and g.signature(node) != g.signature(g.get(ast, path)):
                    return variant, node, what
        return None, None, None

    nodes = []
    for path, node in g.walk(ast):
        if path and (g.is_source(node) or g.is_feature(node)):
            nodes.append((tuple(path), node))
    if not everything and len(nodes) > per_statement:
        rng.shuffle(nodes)
        nodes = nodes[:per_statement]
    variant, vnode, what = variant_for(())
    cross.add(ctx, 'source', x, root=ast, node=ast, raw=False, variant_root=variant, variant_node=vnode, leaf=what, level='statement')
    if named:
        cross.add(ctx, 'schema', schema, root=ast, node=None, raw=False, variant_root=variant, variant_node=None, leaf=what, level='schema')
    for index, (path, node) in enumerate(nodes):
        raw = bool(index % 2)
        try:
            obj = build_sub(g, ast, node, raw=raw)
        except Exception:  # pylint: disable=broad-except
            continue
        variant, vnode, what = variant_for(path)
        cross.add(ctx, 'source' if g.is_source(node) else 'feature', obj, root=ast, node=node, raw=raw, variant_root=variant,
                  variant_node=vnode, leaf=what, level=node[0])


def run_cross(ctx, g, dsl, cross):
    """Ship the batch to an interpreter with another PYTHONHASHSEED and judge what it reports."""
    import json
    import os
    import subprocess
    import sys
    import tempfile

    from vlib import core

    if not cross.items:
        return
    workdir = tempfile.mkdtemp(prefix='c08-cross-')
    job = {'items': cross.items, 'out': os.path.join(workdir, 'out.json')}
    with open(os.path.join(workdir, 'job.json'), 'w', encoding='utf-8') as fd:
        json.dump(core.jsonable(job), fd)
    mine = os.environ.get('PYTHONHASHSEED', '0')
    other = str((int(mine) + 7919) % 4294967295) if mine.isdigit() else '7919'
    env = dict(os.environ, PYTHONHASHSEED=other, PYTHONPATH=os.pathsep.join([core.REPO, core.VERIF]), PYTHONWARNINGS='ignore',
               PYTHONDONTWRITEBYTECODE='1')
    try:
        proc = subprocess.run([sys.executable, '-m', 'vlib.c08_child', os.path.join(workdir, 'job.json')], env=env, cwd=workdir,
                              capture_output=True, text=True, timeout=900, check=False)
    except subprocess.TimeoutExpired:
        ctx.inconclusive('cross-process child timed out')
        return
    if not os.path.exists(job['out']):
        ctx.inconclusive(f'cross-process child died rc={proc.returncode}: {proc.stderr[-600:]}')
        return
    with open(job['out'], encoding='utf-8') as fd:
        results = json.load(fd)['results']
    ctx.note_set('cross_process_hashseeds', [mine, other])
    yes, no = [True] * 4, [False] * 4
    for item, result in zip(cross.items, results):
        spec = {k: v for k, v in item.items() if k != 'blob'}
        witness = {'cross': spec, 'ast': item.get('root')}
        label = f"{item['what']}/{item.get('level') or item.get('name')}"
        if 'skip' in result:
            ctx.count('cross_native_build_skipped')
            continue
        ctx.count('evaluations')
        ctx.count('cross_process_pairs_checked')
        ctx.count(f"cross_{item['what']}")
        ctx.shape(('cross', item['what'], item.get('level') or item.get('name'), g.skeleton(g.norm(item['node'])) if item.get('node') else None))
        if 'error' in result:
            report(ctx, 'cross-process-unpickle-raises', lambda: f'{label}: a pickle made by another interpreter fails to load: '
                                                                 f'{result["error"]}', witness)
            continue
        observed = (result['structure'], result['vector'], result['reverse'], result['repickle'])
        if observed != (True, yes, yes, yes):
            report(ctx, 'pickle-identity-lost-across-processes',
                   lambda: f'{label}: object pickled under PYTHONHASHSEED={mine}, loaded under {other} vs the identical object built '
                           f'there: same structure={observed[0]}, (==, hash, in-set, dict-get) loaded/native={observed[1]} '
                           f'native/loaded={observed[2]} re-pickled/native={observed[3]}', witness)
        if 'variant' in result:
            ctx.count('evaluations')
            ctx.count('cross_process_pairs_checked')
            ctx.count('cross_variant_pairs')
            seen = result['variant']
            same = bool(result.get('variant_same')) if item['what'] == 'schema' else False
            benign = not same and seen == [False, True, False, False]
            if seen != ([same] * 4) and not benign:
                if seen[0] == 'raises:ValueError:unknown-ETL-type' and not same:
                    key = 'eq-raises-casting-non-feature'
                else:
                    ax = g.norm(item['node']) if item.get('node') else g.norm(item['root'])
                    ay = g.norm(item['variant_node']) if item.get('variant_node') else g.norm(item['variant_root'])
                    key = classify(g, 'cross-process', item['what'], same, ax, ay, item.get('leaf') or 'leaf', g.norm(item['root']))
                report(ctx, key, lambda: f'{label}: loaded object vs natively built single-leaf variant ({item.get("leaf")}): '
                                         f'(==, hash, in-set, dict-get) = {seen}', witness)
        for name, seen in (result.get('others') or {}).items():
            ctx.count('cross_process_pairs_checked')
            want = yes if name == item['name'] else no
            if seen != want:
                report(ctx, 'pickle-identity-lost-across-processes' if name == item['name'] else 'cross-process-confuses-kind',
                       lambda: f'kind {item["name"]} loaded from another interpreter vs native {name}: {seen}', witness)
    del dsl


def cross_fixed(ctx, g, dsl, sql, cross, rng):
    """Every shard: kinds, tables and their schemas, and the directed statements with all their nodes."""
    for name, make in kind_pool(dsl):
        cross.add(ctx, 'kind', make(), name=name)
    for name in ('A', 'B', 'C', 'A2'):
        node = ('table', name)
        table = g.build(node)
        _ = table.features, table.schema
        cross.add(ctx, 'source', table, root=node, node=node, raw=False, variant_root=('table', 'B' if name != 'B' else 'C'),
                  variant_node=('table', 'B' if name != 'B' else 'C'), leaf='table', level='table')
    for ast in cross_directed(g):
        cross_collect(ctx, g, sql, cross, ast, rng, everything=True)


def check_stability(ctx, g, keep):
    """Re-evaluate the kept pairs now that thousands of other objects exist (same objects, and rebuilt ones)."""
    for level, x, y, same, ax, ay, what, witness, before in keep:
        ctx.count('stable_checked')
        ctx.count('evaluations')
        after = vector(x, y)
        if after != before:
            report(ctx, f'unstable-{level}', lambda: f'(eq, hash, set, dict) of a pair changed from {before} to {after} after other objects '
                                               f'were created: {x!r:.160} / {y!r:.160}', witness)
            continue
        if ax is not None and g.is_source(ax):
            try:
                again = vector(build_sub(g, ax, ax), build_sub(g, ay, ay, raw=True))
            except Exception:  # pylint: disable=broad-except
                continue
            if again != before:
                report(ctx, f'unstable-{level}', lambda: f'(eq, hash, set, dict) of a rebuilt pair is {again}, was {before} earlier in the '
                                                   f'process: {x!r:.160} / {y!r:.160}', witness)
    del same, what


def run_same_named_functions(ctx, g):
    """Statements differing in exactly one operator leaf: a stock function vs a user-defined function class of the same
    NAME (another class, another module).  Different structure - never equal, never one mapping key."""
    import pickle

    from forml.io.dsl import function

    from vlib import c08_userfn

    tables = g.catalog()
    a, c = tables['A'], tables['C']
    for stock, own, argument in ((function.Count, c08_userfn.Count, a.x), (function.Abs, c08_userfn.Abs, a.z),
                                 (function.Year, c08_userfn.Year, c.d), (function.Max, c08_userfn.Max, a.y)):
        for level, wrap in (('feature', lambda f: f), ('aliased', lambda f: f.alias('v')),
                            ('nested', lambda f: function.Cast(f, tables['A'].x.kind).alias('v')),
                            ('statement', lambda f, t=argument.origin: t.select(f.alias('v')))):
            ctx.count('evaluations')
            ctx.count('same_named_function_pairs')
            left, right = wrap(stock(argument)), wrap(own(argument))
            ctx.shape(('same-named-function', stock.__name__, level))
            witness = {'same_named_function': [stock.__name__, level]}
            try:
                facts = {'eq': bool(left == right), 'hash': hash(left) == hash(right), 'set': len({left, right}) == 1,
                         'dict': {left: 1}.get(right) == 1,
                         'pickled-eq': bool(pickle.loads(pickle.dumps(left)) == right)}
            except Exception as err:  # pylint: disable=broad-except
                ctx.violation('same-named-function-compare-raises', f'{stock.__name__} ({level}): {err!r}', witness)
                continue
            wrong = sorted(k for k, v in facts.items() if v)
            if wrong:
                ctx.violation('same-named-function-classes-confused', f'forml {stock.__name__} vs a user class of the same name '
                              f'({level}): {wrong} hold although the operator class differs', witness)


def run_inherited_schemas(ctx):
    """Schemas written with inheritance (a child re-using an attribute key of its parent, with another field or with the
    very same one) against their flat twins - same class name, same ordered fields: one structure, so schema, table,
    columns and statements must be equal AND interchangeable as mapping keys; against the schema lacking the re-declared
    field nothing may be equal."""
    import types

    from forml.io import dsl
    from forml.io.dsl import function

    def flat(**fields):
        return types.new_class('T', (dsl.Schema,), exec_body=lambda ns: ns.update(fields))  # ``class T(dsl.Schema)``

    def child(parent, **fields):
        return types.new_class('T', (parent,), exec_body=lambda ns: ns.update(fields))  # ``class T(Parent)``

    def integer():
        return dsl.Field(dsl.Integer())

    def string(name=None):
        return dsl.Field(dsl.String(), name=name)

    def real():
        return dsl.Field(dsl.Float())

    cases = {
        'override-kind': (child(flat(k=integer(), v=string()), v=real()), flat(k=integer(), v=real()), True),
        'override-name': (child(flat(k=integer(), v=string()), v=string('w')), flat(k=integer(), v=string('w')), True),
        'verbatim': (child(flat(k=integer(), v=string()), v=string()), flat(k=integer(), v=string()), True),
        'grandchild': (child(child(flat(k=integer(), v=string()), v=real()), k=string()), flat(k=string(), v=real()), True),
        'extended': (child(flat(k=integer()), v=string()), flat(k=integer(), v=string()), True),
        'verbatim-vs-lacking': (child(flat(k=integer(), v=string()), v=string()), flat(k=integer()), False),
        'override-vs-parent': (child(flat(k=integer(), v=string()), v=real()), flat(k=integer(), v=string()), False),
    }
    for label, (left, right, same) in cases.items():
        levels = [('schema', lambda t: t.schema), ('table', lambda t: t), ('rebuilt-table', lambda t: dsl.Table(t.schema)),
                  ('column', lambda t: t.k), ('statement', lambda t: t.select(t.k)), ('expression', lambda t: function.Count(t.k))]
        for level, make in levels:
            ctx.count('evaluations')
            ctx.count('inherited_schema_pairs')
            ctx.shape(('inherited-schema', label, level))
            witness = {'inherited_schema': [label, level]}
            seen = vector(make(left), make(right))
            if same and seen != [True, True, True, True]:
                ctx.violation(f'inherited-schema-twin-not-interchangeable-{level}', f'{label}: a schema re-using an inherited key and '
                              f'its flat twin ({level} level) give (eq, hash, set, dict) = {seen}', witness)
            elif not same and (seen[0] is not False or seen[2] is not False or seen[3] is not False):
                ctx.violation(f'inherited-schema-different-confused-{level}', f'{label}: different schemas ({level} level) give '
                              f'(eq, hash, set, dict) = {seen}', witness)


def run(ctx):
    from forml.io import dsl

    from vlib import dslgen as g

    sql = Sql(g)
    keep = []
    cross = Cross(ctx.pick(0, 0))
    cross_fixed(ctx, g, dsl, sql, cross, ctx.rng('cross-fixed'))
    cross.limit = len(cross.items) + ctx.pick(60, 260)
    rng = ctx.rng('gen')
    index = 0
    stride = ctx.pick(8, 2)
    for ast in g.enumerate_asts(ctx.pick(1, 2), rng, leaves=1):
        index += 1
        if index % stride or not ctx.mine(index // stride):
            continue
        run_statement(ctx, g, dsl, sql, ast, index, ctx.rng('var', index), keep)
        if not cross.full() and (index // stride) % 2 == 0:
            cross_collect(ctx, g, sql, cross, ast, ctx.rng('cross', index))
        if len(ctx.samples) < 1:
            variants = [(v, w) for v, w, _ in g.leaf_variants(ast)][:2]
            ctx.sample({'statement': ast, 'some_variants': [{'what': w, 'variant': v} for v, w in variants]})
    for i in range(ctx.pick(48, 640)):
        if not ctx.mine(i):
            continue
        local = ctx.rng('random', i)
        ast = g.random_ast(local, depth=local.choice((2, 3)))
        run_statement(ctx, g, dsl, sql, ast, i, local, keep)
        if not cross.full():
            cross_collect(ctx, g, sql, cross, ast, local, per_statement=5)
    if ctx.shard == 0:
        run_kinds(ctx, g, dsl)
        run_directed(ctx, g, sql, keep)
        run_same_named_functions(ctx, g)
        run_inherited_schemas(ctx)
    check_stability(ctx, g, keep)
    run_cross(ctx, g, dsl, cross)
    ctx.note_max('objects_built_before_stability', ctx.counters.get('objects_built', 0))


def replay(ctx, witness):
    from forml.io import dsl

    from vlib import dslgen as g

    sql = Sql(g)
    if 'same_named_function' in witness:
        run_same_named_functions(ctx, g)
        return
    if 'inherited_schema' in witness:
        run_inherited_schemas(ctx)
        return
    if 'kinds' in witness or 'fields' in witness:
        run_kinds(ctx, g, dsl)
        return
    if 'cross' in witness:
        import base64
        import pickle

        spec = witness['cross']
        cross = Cross(1)
        if spec['what'] == 'kind':
            cross.add(ctx, 'kind', dict(kind_pool(dsl))[spec['name']](), name=spec['name'])
        else:
            root = g.norm(spec['root'])
            obj = g.build(root) if spec['what'] == 'schema' or spec.get('node') is None else build_sub(g, root, g.norm(spec['node']), raw=spec['raw'])
            if spec['what'] == 'schema':
                obj = obj.schema
            elif root[0] in ('query', 'set') and g.signature(root) == g.signature(g.norm(spec['node'])):
                sql.fresh(obj)
            cross.add(ctx, spec['what'], obj, **{k: v for k, v in spec.items() if k not in ('id', 'what')})
        del base64, pickle
        run_cross(ctx, g, dsl, cross)
        return
    ax = g.norm(witness['ast'])
    if witness.get('directed'):
        run_directed(ctx, g, sql, [])
        return
    ay = g.norm(witness['variant']) if 'variant' in witness else ax
    same = g.signature(ax) == g.signature(ay)
    what = witness.get('what', 'identical')
    x = g.build(ax)
    for y in (g.build(ay), g.build_raw(ay)):
        for level, nx, ny in (levels(g, ax, ay, witness.get('path', ())) if not same else [('source', ax, ay)]):
            if nx is ax:
                ox, oy = x, y
            else:
                ox, oy = build_sub(g, ax, nx), build_sub(g, ay, ny)
            check_pair(ctx, g, level, ox, oy, g.signature(nx) == g.signature(ny), nx, ny, what, witness)
        try:
            sx, sy = x.schema, y.schema
            check_pair(ctx, g, 'schema', sx, sy, g.structure(sx) == g.structure(sy), None, None, what, witness)
        except RecursionError:
            pass
        check_getitem(ctx, g, x, y, same, ax, ay, what, witness)
        check_pickle(ctx, g, 'source', g.build_raw(ax), y, same, ax, ay, what, witness)
        if ax[0] in ('query', 'set'):
            check_sql(ctx, g, sql, x, y, same, ax, ay, what, witness)
        check_pickle(ctx, g, 'source', x, y, same, ax, ay, what, witness, used=True)
