"""C03 - operator composition realises train/apply coherence for every expression.

For every generated expression tree (with explicit parenthesisation) a fresh ``flow.Composition(source, expr >> probe)``
is built from real operators over symbolic actors.  Observations:
  * direct evaluation of the train segment (actors executed on the node objects): tail value, every trainer's state
  * direct evaluation of the apply segment with the states of that training bound by worker group
  * the same through ``flow.compile`` + interpreter with a recording state-asset double (train -> commit -> load)
  * dump events of transparent debug operators
  * two expansions of the same expression: node sets and group ids must be disjoint
Oracle: the denotation [[expr]] of vlib.exprgen (DESIGN appendix A), written from the operator documentation.
The trailing stateful ``probe`` mapper makes the label path observable (its fit term carries X' and Y').
"""
import collections
import gc
import itertools
import json
import os
import tempfile

PROPERTY = 'C03'
LEVEL = 'exploration'
RULE = (
    'expression trees over {wrap.Operator apply/train/label/mapper stackings (stateful/stateless each), MapReduce 1-3 '
    'mappers, Dump, Sniff, FullStack 1-3 bases x 2-3 folds (bases are expressions), a public-API Twice(scope) operator}: '
    'all sequences of <=2 (quick) / <=3 (thorough) operators from a 12-operator pool in every parenthesisation, plus '
    'seeded random trees up to 9 operators; distinct = distinct structural signature (operator kinds, statefulness, '
    'tree shape); non-trivial = >=2 operators or a scope-wrapping operator'
)
ASSUMPTIONS = [
    'the denotation of vlib.exprgen encodes the documented operator semantics (DESIGN appendix A)',
    'actors are uninterpreted function symbols; equality of terms is equality of dataflow',
    'apply-mode states are bound by worker group in the direct evaluation and positionally (Composition.persistent) in '
    'the compiled one',
]
MANIFEST = {
    'text': 'Exploration: thousands of operator expressions (all parenthesisations of short sequences, random larger ones) '
            'are composed with the real operator library; the train/apply graphs are executed on symbolic payloads and '
            'compared with a denotational evaluation of the expression; repeated expansion is checked for independence.',
    'design_ref': 'DESIGN.md section 5 / C03 and appendix A',
    'note': 'Trusted: the denotation (~200 lines), the direct segment evaluator, symbolic actors.',
    'technique': 'runtime monitoring: symbolic execution of composed graphs vs denotational reference semantics',
}
PROBE = {'op': 'wrap', 'id': 0, 'apply': {'name': 'probe', 'stateful': True}, 'train': {'name': 'probe', 'stateful': True},
         'label': None, 'style': 'mapper'}


def shards(tier):
    return 8 if tier == 'quick' else 16


def floors(tier):
    scale = 1 if tier == 'quick' else 25
    return {'evaluations': 300 * scale, 'train_outputs_compared': 300 * scale, 'apply_outputs_compared': 300 * scale,
            'compiled_apply_compared': 300 * scale, 'expansions_compared': 80 * scale, 'scoped_cases': 60 * scale,
            'label_cases': 40 * scale, 'dump_events_compared': 10 * scale}


def pool():
    """Fixed operator pool for the exhaustive part (fresh ids are assigned per use)."""
    def w(style, a=None, t=None, l=None):
        return {'op': 'wrap', 'style': style, 'apply': a, 'train': t, 'label': l}

    S, s = True, False
    return [
        w('mapper', {'stateful': S}, 'same'), w('mapper', {'stateful': s}, 'same'), w('apply', {'stateful': S}),
        w('train', None, {'stateful': S}), w('apply+train', {'stateful': S}, {'stateful': s}),
        w('label', None, None, {'stateful': S}), w('mapper+label', {'stateful': S}, 'same', {'stateful': s}),
        w('chained', {'stateful': S}, 'same'),
        {'op': 'mapreduce', 'mappers': [{'stateful': S}, {'stateful': s}]},
        {'op': 'dump'},
        {'op': 'fullstack', 'bases': [w('mapper', {'stateful': S}, 'same')], 'n': 2},
        {'op': 'twice'},
        dict(w('label', None, None, {'stateful': s}), relabel=True),
    ]


def instantiate(template, counter):
    """Deep copy with fresh unique ids / actor names."""
    node = json.loads(json.dumps(template))

    def name():
        return f'a{next(counter)}'

    if node['op'] == 'wrap':
        node['id'] = next(counter)
        if node['apply']:
            node['apply']['name'] = name()
        if node['train'] == 'same':
            node['train'] = dict(node['apply'])
        elif node['train']:
            node['train']['name'] = name()
        if node['label']:
            node['label']['name'] = name()
    elif node['op'] == 'mapreduce':
        node['id'] = next(counter)
        for m in node['mappers']:
            m['name'] = name()
    elif node['op'] == 'fullstack':
        node['id'] = next(counter)
        node['bases'] = [instantiate(b, counter) for b in node['bases']]
    else:
        node['id'] = next(counter)
    return node


class StatesGen:
    """Generation double behind a real asset.State: serves given states, records dump/put."""

    class Release:
        def __init__(self, owner):
            self.owner = owner

        def dump(self, state):
            import uuid

            sid = uuid.uuid4()
            self.owner.dumped[sid] = state
            return sid

        def put(self, tag):
            self.owner.committed = [self.owner.dumped[s] for s in tag.states]
            return self.owner

    def __init__(self, states=None):
        import datetime
        import uuid

        from forml.io import asset

        self.states = states
        self.dumped = {}
        self.committed = None
        self.release = self.Release(self)
        self.tag = asset.Tag(training=asset.Tag.Training(timestamp=datetime.datetime(2020, 1, 1)),
                             states=[uuid.uuid4() for _ in states]) if states is not None else asset.Tag()

    def get(self, key):
        if self.states is None:
            return b''
        return self.states[key]


def weight(expr) -> int:
    """Rough number of node expansions (to bound the cost of nested scope-wrapping operators)."""
    if expr['op'] == 'chain':
        return weight(expr['left']) + weight(expr['right'])
    if expr['op'] == 'fullstack':
        return 3 + expr['n'] * sum(weight(b) for b in expr['bases'])
    return 1


def total_weight(expr) -> int:
    """Expansion count including scopes multiplied by enclosing scope-wrapping operators."""
    if expr['op'] != 'chain':
        return weight(expr)
    right = expr['right']
    if right['op'] == 'fullstack':
        return right['n'] * total_weight(expr['left']) + weight(right)
    if right['op'] == 'twice':
        return 2 * total_weight(expr['left']) + 1
    return total_weight(expr['left']) + total_weight(right)


def check_expr(ctx, expr):
    from forml import flow
    from forml.flow._graph import port
    from forml.io import asset
    from vlib import exprgen, graphgen, symbolic

    ctx.count('evaluations')
    witness = {'expr': expr}
    full = {'op': 'chain', 'left': expr, 'right': dict(PROBE)}
    ops = list(exprgen.operators(expr))
    sig = exprgen.signature(expr)
    if len(ops) >= 2 or any(o['op'] in ('fullstack', 'twice') for o in ops):
        ctx.shape(sig)
    if any(o['op'] in ('fullstack', 'twice') for o in ops):
        ctx.count('scoped_cases')
    if any(o['op'] == 'wrap' and o['label'] for o in ops):
        ctx.count('label_cases')
    symbolic._UNSTATE.clear()  # pylint: disable=protected-access
    gc.collect()  # let the previous case's subscriptions run their finalisers before the registry is reset
    port.Subscription._PORTS.clear()  # pylint: disable=protected-access
    fd, log = tempfile.mkstemp(prefix='c03-', suffix='.log')
    os.close(fd)
    try:
        try:
            comp = flow.Composition(exprgen.source(), exprgen.build(full, log))
        except Exception as err:  # pylint: disable=broad-except
            ctx.violation('composition-raises', f'composing a legal expression raised {err!r}: {sig}', witness)
            return
        x, y, xa = exprgen.source_terms()
        den = exprgen.denote(full, x, y, xa)
        # ---------------- direct evaluation
        try:
            train = graphgen.evaluate_segment(comp.train)
            apply = graphgen.evaluate_segment(comp.apply, loaded=lambda node: train['state'].get(node.gid))
        except Exception as err:  # pylint: disable=broad-except
            ctx.violation('graph-not-evaluable', f'composed graph cannot be evaluated: {err!r}: {sig}', witness)
            return
        ctx.count('train_outputs_compared')
        if symbolic.term(train['tail']) != den.x:
            ctx.violation('train-output', f'train-mode output {symbolic.term(train["tail"]).show(7)} expected {den.x.show(7)}',
                          witness)
            return
        fits = collections.Counter()
        for node in train['nodes']:
            if isinstance(node, flow.Worker) and node.trained:
                state = symbolic.unstate(train['value'][id(node)]) if isinstance(train['value'][id(node)], bytes) else None
                if state is not None and state.op in ('fit', 'cvstate'):
                    fits[state] += 1
        expected = collections.Counter(den.fits)
        ctx.count('trainers_compared', sum(expected.values()))
        if fits != expected:
            miss = [t.show(6) for t in (expected - fits)][:2]
            extra = [t.show(6) for t in (fits - expected)][:2]
            names = lambda c: sorted(t.args[0] for t in c)
            key = 'trained-on-wrong-data' if names(expected - fits) == names(fits - expected) else 'trainer-set-differs'
            ctx.violation(key, f'trainer states differ: expected-but-missing {miss} unexpected {extra}', witness)
            return
        ctx.count('apply_outputs_compared')
        if symbolic.term(apply['tail']) != den.xa:
            ctx.violation('apply-output', f'apply-mode output {symbolic.term(apply["tail"]).show(7)} expected {den.xa.show(7)}',
                          witness)
            return
        # ---------------- dump events
        with open(log, encoding='utf-8') as fdlog:
            events = {(r['n'], r['k'], r['dg']) for r in map(json.loads, fdlog) if r['k'].endswith('_dump')}
        wanted = {(tag, kind, term.dg) for tag, kind, term in den.dumps}
        if wanted or events:
            ctx.count('dump_events_compared', len(wanted))
        if events != wanted:
            ctx.violation('debug-operator-not-transparent', f'dump events {sorted(events)[:3]} expected {sorted(wanted)[:3]}', witness)
            return
        # ---------------- compiled path with positional persistence
        try:
            persistent = comp.persistent
            gen1 = StatesGen()
            symbolic.Interpreter(flow.compile(comp.train, asset.State(gen1, persistent, asset.Tag().training.trigger()))).run()
            states = gen1.committed if gen1.committed is not None else []
            gen2 = StatesGen(states)
            interp = symbolic.Interpreter(flow.compile(comp.apply, asset.State(gen2, persistent))).run()
            used = {id(a) for s in interp.symbols for a in s.arguments}
            leaves = [s.instruction for s in interp.symbols if id(s.instruction) not in used]
            compiled_tail = [symbolic.term(interp.results[id(i)]) for i in leaves]
        except Exception as err:  # pylint: disable=broad-except
            ctx.violation('compiled-path-raises', f'train->commit->load->apply through flow.compile raised {err!r}', witness)
            return
        ctx.count('compiled_apply_compared')
        if compiled_tail != [den.xa]:
            ctx.violation('compiled-apply-output', f'compiled apply output {[t.show(6) for t in compiled_tail]} expected '
                          f'{den.xa.show(6)}', witness)
            return
        # ---------------- repeated expansion independence
        if ctx.counters['evaluations'] % 3 == 0:
            ctx.count('expansions_compared')
            composable = exprgen.build(full, None)
            one, two = composable.expand(), composable.expand()
            sets = []
            for trunk in (one, two):
                nodes = [n for seg in trunk for n in graphgen.segment_members(seg)]
                sets.append(({id(n) for n in nodes}, {n.gid for n in nodes if isinstance(n, flow.Worker)}))
            if sets[0][0] & sets[1][0]:
                ctx.violation('expansions-share-nodes', 'two expansions of one expression share nodes', witness)
                return
            if sets[0][1] & sets[1][1]:
                ctx.violation('expansions-share-groups', 'two expansions of one expression share worker groups (state)', witness)
                return
        if ctx.counters['evaluations'] % 150 == 1:
            ctx.sample({'expr': sig, 'train_out': den.x.show(5), 'apply_out': den.xa.show(5), 'trainers': len(den.fits)})
    finally:
        os.unlink(log)


def run(ctx):
    from vlib import exprgen

    gc.freeze()  # keep full collections cheap: imported modules never need to be traversed again
    counter = itertools.count(1)
    templates = pool()
    index = 0
    maxlen = ctx.pick(2, 3)
    for length in range(1, maxlen + 1):
        for combo in itertools.product(range(len(templates)), repeat=length):
            index += 1
            if not ctx.mine(index):
                continue
            if length == 3 and ctx.quick:
                continue
            ops = [instantiate(templates[i], counter) for i in combo]
            for tree in exprgen.parenthesisations(ops):
                if total_weight(tree) <= 60:
                    check_expr(ctx, json.loads(json.dumps(tree)))
    if ctx.shard == 0:
        # directed: a hand-written label operator leaving a non-trained worker on the train tail, followed by an operator that
        # does not extend the train segment, followed by a consumer of the train path - in every parenthesisation
        relabel, consumer = templates[-1], templates[0]
        for middle in (templates[2], templates[5], templates[9], {'op': 'sniff'}):
            ops = [instantiate(t, counter) for t in (templates[1], relabel, middle, consumer)]
            for tree in exprgen.parenthesisations(ops):
                ctx.count('directed_relabel_cases')
                check_expr(ctx, json.loads(json.dumps(tree)))
    if ctx.shard == 1 % ctx.nshards:
        # directed: two mappers pre-wired by one hand-written operator which hands its chains over by their head node / as
        # segments / one of each (exprgen.Prewired), alone, before a consumer, and inside the scope of twice / fullstack
        for flavour, (first, second) in itertools.product(('nodes', 'segments', 'mixed'), ((0, 1), (1, 0), (0, 0))):
            def prewired():
                return {'op': 'chain', 'left': instantiate(templates[first], counter), 'right': instantiate(templates[second], counter),
                        'prewired': flavour}

            for ops in ([prewired()], [prewired(), instantiate(templates[0], counter)],
                        [instantiate(templates[1], counter), prewired(), instantiate(templates[11], counter)],
                        [prewired(), instantiate(templates[10], counter)]):
                for tree in exprgen.parenthesisations(ops):
                    ctx.count('directed_prewired_cases')
                    check_expr(ctx, json.loads(json.dumps(tree)))
    rng = ctx.rng('random', ctx.shard)
    for _ in range(ctx.pick(240, 5000) // ctx.nshards):
        gen = exprgen.Gen(rng)
        expr = gen.expr(rng.choice([2, 3, 3, 4, 5, 6, 9]), depth=2)
        if total_weight(expr) > ctx.pick(40, 60):  # ~1 s per unit on an idle core, several times that on a loaded machine
            ctx.count('skipped_too_heavy')
            continue
        check_expr(ctx, expr)


def replay(ctx, witness):
    check_expr(ctx, witness['expr'])
