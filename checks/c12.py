"""C12 - cross-validated evaluation and stacking never leak held-out data.

Workload: real ``evaluation.TrainTestScore`` (CrossVal 2-5 folds / HoldOut) and real ``ensemble.FullStack`` composed
around generated pipelines over symbolic actors and a symbolic ``payload.CVFoldable`` splitter whose fold parts are
the terms ``take(x, idx(i, 'tr'|'te', cv(name, X, Y)))`` - so every prediction carries the provenance of the data
its models were trained on and of the data it was computed from.

Two independent monitors:
  (a) taint rules on the observed terms only (no model of the pipeline): for fold i the scored/stacked prediction
      may mention, inside any fit term, only idx(i,'tr'); its data path must start at take(X, idx(i,'te')); it is
      paired with exactly take(Y, idx(i,'te')); features and labels share one cv binding; every fold exactly once;
      in apply mode the ensemble reduces all fold models of each base on the same input.
  (b) equality with the denotation [[.]] of vlib.exprgen (DESIGN appendix A).
"""
import collections
import gc
import itertools
import json

PROPERTY = 'C12'
LEVEL = 'exploration'
RULE = (
    'evaluated / ensembled pipelines from the expression generator (wrap stackings, MapReduce, label operators, nested '
    'FullStack, Twice) x folds 2-5 x bases 1-3 x {HoldOut, CrossVal} x {TrainTestScore, FullStack + stateful final model}; '
    'distinct = distinct (configuration, structural expression signature); non-trivial = every case (>=2 folds or a '
    'holdout over a pipeline with >=1 stateful actor)'
)
ASSUMPTIONS = [
    'splitter decisions are symbolic fold parts (any splitter); actors and metric are uninterpreted functions',
    'taint rules are judged against the outermost evaluation / ensemble splitter (nested ensembles are covered by the '
    'denotation monitor)',
]
MANIFEST = {
    'text': 'Exploration: real CrossVal/HoldOut evaluation and FullStack ensembling are composed around generated pipelines '
            'and executed on provenance terms; a pure taint monitor on the scored/stacked values and an independent '
            'denotational model must both agree that no held-out part reaches a model and that folds pair up correctly.',
    'design_ref': 'DESIGN.md section 5 / C12',
    'note': 'Trusted: symbolic splitter/actors, the taint rules (~80 lines), the denotation.',
    'technique': 'runtime monitoring: provenance (taint) tracking through executed evaluation/stacking graphs + '
                 'denotational reference',
}


def shards(tier):
    return 8 if tier == 'quick' else 16


def floors(tier):
    scale = 1 if tier == 'quick' else 30
    return {'evaluations': 250 * scale, 'crossval_cases': 80 * scale, 'holdout_cases': 40 * scale,
            'fullstack_cases': 80 * scale, 'fold_predictions_tainted_checked': 500 * scale,
            'denotation_compared': 250 * scale, 'apply_reducers_checked': 80 * scale, 'concrete_cases': 100 * scale,
            'default_reducer_cases': 100 * scale // (1 if tier == 'quick' else 2),
            'default_reducer_zero_fold_cases': 30 * scale // (1 if tier == 'quick' else 2), 'pandas_splitter_cases': 200 * scale // (1 if tier == 'quick' else 2), 'splitter_parts_checked': 1000 * scale // (1 if tier == 'quick' else 2)}


# ------------------------------------------------------------------------------------------------ taint monitor
def idx_leaves(term, cvname):
    """All (fold, part, sigma) of the named splitter occurring anywhere inside the term."""
    return {(t.args[0], t.args[1], t.args[2]) for t in term.find('idx') if t.args[2].args[0] == cvname}


def data_leaves(term):
    """Leaves of the *data path* (state arguments of applications are not followed)."""
    out, stack, seen = [], [term], set()
    while stack:
        t = stack.pop()
        if t.dg in seen:
            continue
        seen.add(t.dg)
        if t.op == 'app':
            inputs = t.args[2:]
            if not inputs:
                out.append(t)
            stack.extend(inputs)
        elif t.op == 'out':
            stack.append(t.args[1])
        elif t.op in ('take', 'none'):
            out.append(t)
        else:
            out.append(t)
    return out


def taint_prediction(pred, fold, cvname, x, sigma):
    """Rules for one fold's prediction; returns mechanism key or None."""
    for fit in pred.find('fit'):
        leaves = idx_leaves(fit, cvname)
        if any(i != fold for i, _, _ in leaves):
            return 'model-trained-on-other-fold'
        if any(part == 'te' for _, part, _ in leaves):
            return 'model-trained-on-held-out-part'
        if not leaves:
            return 'model-trained-outside-folds'
    for leaf in data_leaves(pred):
        if leaf.op != 'take':
            return 'prediction-not-from-fold-data'
        index = leaf.args[1]
        if index.op != 'idx' or index.args[2].args[0] != cvname:
            continue  # a nested splitter's part: judged by the denotation monitor
    outer = [leaf for leaf in _outer_takes(pred, cvname)]
    if not outer:
        return 'prediction-not-from-fold-data'
    for leaf in outer:
        i, part, sg = leaf.args[1].args[0], leaf.args[1].args[1], leaf.args[1].args[2]
        if sg != sigma:
            return 'fold-indices-from-different-split'
        if leaf.args[0] != x:
            return 'prediction-from-wrong-source'
        if i != fold:
            return 'prediction-on-other-fold-data'
        if part != 'te':
            return 'prediction-on-train-part'
    return None


def _outer_takes(term, cvname):
    """take(.., idx of the named splitter) terms on the data path, looking through nested splitters' takes."""
    out, stack, seen = [], [term], set()
    while stack:
        t = stack.pop()
        if t.dg in seen:
            continue
        seen.add(t.dg)
        if t.op == 'app':
            stack.extend(t.args[2:])
        elif t.op == 'out':
            stack.append(t.args[1])
        elif t.op == 'take':
            if t.args[1].op == 'idx' and t.args[1].args[2].args[0] == cvname:
                out.append(t)
            else:
                stack.append(t.args[0])
    return out


def taint_truth(true, fold, cvname, y, sigma):
    if true.op != 'take' or true.args[1].op != 'idx' or true.args[1].args[2].args[0] != cvname:
        return 'truth-not-a-fold-part'
    i, part, sg = true.args[1].args
    if sg != sigma:
        return 'truth-from-different-split'
    if true.args[0] != y:
        return 'truth-from-wrong-source'
    if i != fold:
        return 'truth-of-other-fold'
    if part != 'te':
        return 'truth-of-train-part'
    return None


# ------------------------------------------------------------------------------------------------ cases
def check_traintest(ctx, expr, kind, n):
    from forml import flow
    from forml.flow._graph import port
    from vlib import exprgen, graphgen, symbolic
    from vlib.symbolic import Term

    ctx.count('evaluations')
    ctx.count(f'{kind}_cases')
    witness = {'expr': expr, 'kind': kind, 'n': n}
    sig = (kind, n, exprgen.signature(expr))
    ctx.shape(sig)
    symbolic._UNSTATE.clear()  # pylint: disable=protected-access
    gc.collect()
    port.Subscription._PORTS.clear()  # pylint: disable=protected-access
    try:
        comp = flow.Composition(exprgen.source(), exprgen.build(expr) >> exprgen.evaluator(kind, n))
        result = graphgen.evaluate_segment(comp.train)
    except Exception as err:  # pylint: disable=broad-except
        ctx.violation('evaluation-composition-raises', f'{kind}/{n} over {sig[2]} raised {err!r}', witness)
        return
    x, y, _ = exprgen.source_terms()
    value = symbolic.term(result['tail'])
    sigma = Term('cv', 'cvE', x, y)
    folds = 1 if kind == 'holdout' else n
    # ---- (a) taint rules
    scores = [value] if value.op == 'metric' else list(value.args) if value.op == 'reduce' else None
    if scores is None or any(s.op != 'metric' for s in scores):
        ctx.violation('metric-shape', f'evaluation result is not metric/reduce(metric..): {value.show(4)}', witness)
        return
    if len(scores) != folds:
        ctx.violation('fold-missing-or-repeated', f'{len(scores)} scored partitions for {folds} folds', witness)
        return
    seen = set()
    for score in scores:
        true, pred = score.args
        fold = true.args[1].args[0] if true.op == 'take' and true.args[1].op == 'idx' else None
        ctx.count('fold_predictions_tainted_checked')
        key = taint_truth(true, fold, 'cvE', y, sigma) or taint_prediction(pred, fold, 'cvE', x, sigma)
        if key:
            ctx.violation(key, f'{kind}/{n} fold {fold}: true={true.show(4)} pred={pred.show(6)}', witness)
            return
        if fold in seen:
            ctx.violation('fold-missing-or-repeated', f'fold {fold} scored twice', witness)
            return
        seen.add(fold)
    if seen != set(range(folds)):
        ctx.violation('fold-missing-or-repeated', f'folds scored {sorted(seen)} expected {list(range(folds))}', witness)
        return
    # ---- (b) denotation
    ctx.count('denotation_compared')
    expected = exprgen.denote_traintest(expr, kind, n, x, y)
    if value != expected:
        ctx.violation('evaluation-differs-from-denotation', f'{kind}/{n}: {value.show(6)} expected {expected.show(6)}', witness)
        return
    if ctx.counters['evaluations'] % 90 == 1:
        ctx.sample({'kind': kind, 'folds': n, 'pipeline': sig[2], 'score0': scores[0].show(5)})


def check_fullstack(ctx, pre, bases, n):
    """pre >> FullStack(bases, n folds) >> probe : stacked train set, stacked labels, reduced apply output."""
    from forml import flow
    from forml.flow._graph import port
    from vlib import exprgen, graphgen, symbolic
    from vlib.symbolic import Term

    ctx.count('evaluations')
    ctx.count('fullstack_cases')
    stack = {'op': 'fullstack', 'id': 7000, 'bases': bases, 'n': n}
    probe = {'op': 'wrap', 'id': 0, 'apply': {'name': 'probe', 'stateful': True}, 'train': {'name': 'probe', 'stateful': True},
             'label': None, 'style': 'mapper'}
    inner = {'op': 'chain', 'left': pre, 'right': stack} if pre else stack
    full = {'op': 'chain', 'left': inner, 'right': probe}
    witness = {'pre': pre, 'bases': bases, 'n': n}
    ctx.shape(('fullstack', n, exprgen.signature(inner)))
    symbolic._UNSTATE.clear()  # pylint: disable=protected-access
    gc.collect()
    port.Subscription._PORTS.clear()  # pylint: disable=protected-access
    try:
        comp = flow.Composition(exprgen.source(), exprgen.build(full))
        train = graphgen.evaluate_segment(comp.train)
        apply = graphgen.evaluate_segment(comp.apply, loaded=lambda node: train['state'].get(node.gid))
    except Exception as err:  # pylint: disable=broad-except
        ctx.violation('stacking-composition-raises', f'FullStack/{n} raised {err!r}', witness)
        return
    x, y, xa = exprgen.source_terms()
    cv = 'cv7000'
    sigma = Term('cv', cv, x, y)
    # the probe's fit term carries the stacked train set and the stacked labels
    fit = symbolic.term(train['tail']).args[1]
    stacked, labels = fit.args[2], fit.args[3]
    if stacked.op != 'app' or stacked.args[0] != 'app7000' or len(stacked.args[2:]) != len(bases):
        ctx.violation('stack-shape', f'stacked train set is not appender over {len(bases)} bases: {stacked.show(3)}', witness)
        return
    order = None
    for column in stacked.args[2:]:
        if column.op != 'app' or column.args[0] != 'stk7000' or len(column.args[2:]) != n:
            ctx.violation('fold-missing-or-repeated', f'base column stacks {len(column.args[2:])} folds, expected {n}', witness)
            return
        these = []
        for pred in column.args[2:]:
            takes = _outer_takes(pred, cv)
            fold = takes[0].args[1].args[0] if takes else None
            ctx.count('fold_predictions_tainted_checked')
            key = taint_prediction(pred, fold, cv, x, sigma)
            if key:
                ctx.violation(key, f'FullStack/{n} fold {fold}: stacked prediction {pred.show(6)}', witness)
                return
            these.append(fold)
        if sorted(these) != list(range(n)):
            ctx.violation('fold-missing-or-repeated', f'stacked folds {these}', witness)
            return
        if order is not None and these != order:
            ctx.violation('fold-order-differs-between-bases', f'{these} vs {order}', witness)
            return
        order = these
    if labels.op != 'app' or labels.args[0] != 'stk7000' or len(labels.args[2:]) != n:
        ctx.violation('stack-shape', f'stacked labels: {labels.show(3)}', witness)
        return
    for position, true in enumerate(labels.args[2:]):
        key = taint_truth(true, order[position], cv, y, sigma)
        if key:
            ctx.violation(key, f'FullStack/{n}: stacked label {position} is {true.show(4)} but prediction is of fold '
                          f'{order[position]}', witness)
            return
    # apply mode: appender(reducer(all fold models of base b on the same input)...)
    reduced = symbolic.term(apply['tail']).args[2]
    if reduced.op != 'app' or reduced.args[0] != 'app7000' or len(reduced.args[2:]) != len(bases):
        ctx.violation('apply-stack-shape', f'apply output {reduced.show(3)}', witness)
        return
    for column in reduced.args[2:]:
        ctx.count('apply_reducers_checked')
        if column.op != 'app' or column.args[0] != 'red7000' or len(column.args[2:]) != n:
            ctx.violation('apply-fold-models-missing', f'reducer combines {len(column.args[2:])} fold models, expected {n}', witness)
            return
        folds_seen = []
        for pred in column.args[2:]:
            fits = pred.find('fit')
            folds = {i for f in fits for i, _, _ in idx_leaves(f, cv)}
            parts = {p for f in fits for _, p, _ in idx_leaves(f, cv)}
            if len(folds) > 1 or parts - {'tr'}:
                ctx.violation('apply-model-mixes-folds', f'apply-mode fold model uses folds {folds} parts {parts}', witness)
                return
            folds_seen.append(next(iter(folds)) if folds else None)
            leaves = [l for l in data_leaves(pred)]
            if any(l != xa for l in leaves):
                ctx.violation('apply-input-differs-between-folds', f'apply-mode data leaves {[l.show(2) for l in leaves]}', witness)
                return
        stateful_bases = all(f is not None for f in folds_seen)
        if stateful_bases and sorted(folds_seen) != list(range(n)):
            ctx.violation('apply-fold-models-missing', f'apply-mode fold models {folds_seen}', witness)
            return
    # ---- (b) denotation
    ctx.count('denotation_compared')
    den = exprgen.denote(full, x, y, xa)
    if symbolic.term(train['tail']) != den.x or symbolic.term(apply['tail']) != den.xa:
        ctx.violation('stacking-differs-from-denotation', f'train {symbolic.term(train["tail"]).show(5)} / expected {den.x.show(5)}',
                      witness)
        return
    if ctx.counters['evaluations'] % 90 == 2:
        ctx.sample({'kind': 'fullstack', 'folds': n, 'expr': exprgen.signature(inner), 'stacked': stacked.show(4)})


def check_concrete(ctx, pairs, kind, nbases):
    """Concrete payloads and *arbitrary* splitter decisions (non-complementary, overlapping, gapped parts): a recording
    model remembers the record ids it was trained on; the metric receives (true labels, predictions)."""
    from forml import evaluation, flow
    from forml.flow._graph import port
    from forml.io._input import extract
    from forml.pipeline import ensemble, wrap
    from vlib import exprgen, graphgen

    ctx.count('evaluations')
    ctx.count('concrete_cases')
    size = 1 + max(i for pair in pairs for part in pair for i in part)
    rows = [(rid, 10 * rid) for rid in range(size)]
    witness = {'pairs': pairs, 'mode': kind, 'bases': nbases}
    ctx.shape(('concrete', kind, nbases, tuple(map(lambda p: (tuple(p[0]), tuple(p[1])), pairs))))
    gc.collect()
    port.Subscription._PORTS.clear()  # pylint: disable=protected-access
    source = extract.Operator(exprgen.Const.builder([r[0] for r in rows]), exprgen.Const.builder(rows), exprgen.Unzip.builder())
    splitter = exprgen.ListFolds.builder(crossvalidator=exprgen.FixedCV(pairs))
    model = lambda tag: wrap.Operator.mapper(exprgen.Recorder, tag=tag)()
    try:
        if kind in ('crossval', 'holdout'):
            if kind == 'holdout':
                method = evaluation.HoldOut(splitter=exprgen.ListFolds.builder(crossvalidator=exprgen.FixedCV(pairs[:2])))
            else:
                method = evaluation.CrossVal(splitter=splitter, nsplits=len(pairs))
            metric = evaluation.Function(exprgen.pair_metric, reducer=exprgen.pair_reduce)
            comp = flow.Composition(source, model('m') >> evaluation.TrainTestScore(metric, method))
            value = graphgen.evaluate_segment(comp.train)['tail']
            scored = [value] if value[0] == 'scored' else list(value[1:])
            folds = pairs[:1] if kind == 'holdout' else pairs
            if len(scored) != len(folds):
                ctx.violation('fold-missing-or-repeated', f'{len(scored)} scored partitions for {len(folds)} folds', witness)
                return
            for (train, test), (_, true, pred) in zip(folds, scored):
                ctx.count('fold_predictions_tainted_checked')
                key = _judge_concrete(train, test, true, pred, 'm')
                if key:
                    ctx.violation(key, f'{kind} with parts {train}/{test}: true {true} predictions {pred}', witness)
                    return
        else:
            bases = [model(f'b{i}') for i in range(nbases)]
            stack = ensemble.FullStack(*bases, splitter=splitter, nsplits=len(pairs),
                                       appender=exprgen_apply(exprgen.zip_columns), stacker=exprgen_apply(exprgen.concat_rows),
                                       reducer=exprgen_apply(exprgen.zip_columns))
            comp = flow.Composition(source, stack >> model('final'))
            train = graphgen.evaluate_segment(comp.train)
            final = [n for n in train['nodes'] if isinstance(n, flow.Worker) and n.trained and n.builder.kwargs.get('tag') == 'final']
            import cloudpickle

            state = cloudpickle.loads(train['value'][id(final[0])])
            # the final model was trained on the stacked predictions: recover them from the stacked train rows
            stacked = train['value'][id(_publisher_of(train, final[0]))]
            position = 0
            for train_part, test_part in pairs:
                for rid in test_part:
                    row = stacked[position]
                    position += 1
                    ctx.count('fold_predictions_tainted_checked')
                    for base, cell in enumerate(row):
                        if cell[0] != rid or cell[1] != f'b{base}':
                            ctx.violation('stacked-prediction-misplaced', f'stacked row {position - 1} cell {cell[:2]} expected record {rid} '
                                          f'of base b{base}', witness)
                            return
                        if tuple(cell[2]) != tuple(sorted(train_part)):
                            key = 'model-trained-on-held-out-part' if set(cell[2]) & set(test_part) else 'model-trained-outside-fold-train-part'
                            ctx.violation(key, f'record {rid} (held out in fold {pairs.index((train_part, test_part))}) stacked from a model '
                                          f'trained on {cell[2]} but the training part is {sorted(train_part)}', witness)
                            return
            if position != len(stacked):
                ctx.violation('fold-missing-or-repeated', f'{len(stacked)} stacked rows for {position} held-out records', witness)
                return
            expected_labels = tuple(sorted(10 * rid for _, test_part in pairs for rid in test_part))
            if tuple(state['labels']) != expected_labels:
                ctx.violation('stacked-labels-differ', f'final model labels {state["labels"]} expected {expected_labels}', witness)
                return
    except Exception as err:  # pylint: disable=broad-except
        ctx.violation('concrete-evaluation-raises', f'{kind} over parts {pairs} raised {err!r}', witness)
        return


def exprgen_apply(function):
    from forml.pipeline import payload

    return payload.Apply.builder(function=function)


def _publisher_of(evaluated, node):
    """The node feeding the Train port of the given trainer."""
    from forml.flow._graph import port

    for candidate in evaluated['nodes']:
        for subscriptions in candidate.output:
            for sub in subscriptions:
                if sub.node is node and isinstance(sub.port, port.Train):
                    return candidate
    raise LookupError('no train publisher')


def _judge_concrete(train, test, true, pred, tag):
    if list(true) != [10 * rid for rid in test]:
        return 'truth-of-other-fold' if set(true) != {10 * rid for rid in test} else 'truth-order-differs'
    if [p[0] for p in pred] != list(test):
        return 'prediction-on-other-fold-data'
    for cell in pred:
        if tuple(cell[2]) != tuple(sorted(train)):
            return 'model-trained-on-held-out-part' if set(cell[2]) & set(test) else 'model-trained-outside-fold-train-part'
        if tuple(cell[3]) != tuple(sorted(10 * rid for rid in train)):
            return 'model-trained-on-other-labels'
    return None


def check_default_reducer(ctx, pairs):
    """Cross-validation scored with ``evaluation.Function(metric)`` and its *stock* reducer: the reported score is the mean
    over ALL folds of the per-fold metric - including folds that score exactly 0."""
    import statistics

    from forml import evaluation, flow
    from forml.flow._graph import port
    from forml.io._input import extract
    from forml.pipeline import wrap
    from vlib import exprgen, graphgen

    ctx.count('evaluations')
    ctx.count('default_reducer_cases')
    size = 1 + max(i for pair in pairs for part in pair for i in part)
    rows = [(rid, 10 * rid) for rid in range(size)]
    witness = {'default_reducer': True, 'pairs': pairs}
    ctx.shape(('default-reducer', tuple((tuple(a), tuple(b)) for a, b in pairs)))
    gc.collect()
    port.Subscription._PORTS.clear()  # pylint: disable=protected-access
    source = extract.Operator(exprgen.Const.builder([r[0] for r in rows]), exprgen.Const.builder(rows), exprgen.Unzip.builder())
    method = evaluation.CrossVal(splitter=exprgen.ListFolds.builder(crossvalidator=exprgen.FixedCV(pairs)), nsplits=len(pairs))
    per_fold = [min(10 * rid for rid in test) for _, test in pairs]
    if 0 in per_fold and any(per_fold):
        ctx.count('default_reducer_zero_fold_cases')
    try:
        comp = flow.Composition(source, wrap.Operator.mapper(exprgen.Recorder, tag='m')() >>
                                evaluation.TrainTestScore(evaluation.Function(exprgen.least_label), method))
        value = graphgen.evaluate_segment(comp.train)['tail']
    except Exception as err:  # pylint: disable=broad-except
        ctx.violation('concrete-evaluation-raises', f'cross-validation with the stock reducer over parts {pairs} raised {err!r}', witness)
        return
    expected = statistics.mean(per_fold)
    if not isinstance(value, (int, float)) or abs(value - expected) > 1e-9:
        ctx.violation('fold-missing-or-repeated-in-reduced-score', f'per-fold scores {per_fold} reported as {value!r}, the mean over all '
                      f'folds is {expected}', witness)


def check_stock_reducer(ctx, nfolds, nrows, seed):
    """The reducer a stacked ensemble uses in apply mode when none is given (the default of ``FullStack(reducer=...)``): the
    combined prediction of a record weighs all fold models of a base learner equally (series predictions - the
    multi-column path needs an API pandas 3 removed)."""
    import inspect
    import random

    import pandas
    from forml.pipeline import ensemble

    ctx.count('evaluations')
    ctx.count('stock_reducer_cases')
    ctx.shape(('stock-reducer', nfolds, nrows, seed % 97))
    rng = random.Random(seed)
    witness = {'stock_reducer': [nfolds, nrows, seed]}
    reducer = inspect.signature(ensemble.FullStack.__init__).parameters['reducer'].default
    folds = [[rng.randint(-64, 64) * 0.25 for _ in range(nrows)] for _ in range(nfolds)]
    try:
        result = reducer(*(pandas.Series(values, name='prediction') for values in folds))
        observed = [float(v) for v in (result.iloc[:, 0] if getattr(result, 'ndim', 1) == 2 else result).tolist()]
    except Exception as err:  # pylint: disable=broad-except
        ctx.violation('stock-reducer-raises', f'the default apply-mode reducer raised {err!r} for {nfolds} fold predictions', witness)
        return
    expected = [sum(column) / nfolds for column in zip(*folds)]
    if len(observed) != len(expected) or any(abs(o - e) > 1e-9 for o, e in zip(observed, expected)):
        ctx.violation('apply-mode-fold-models-not-combined-equally', f'fold predictions {folds} reduced to {observed}, all fold models '
                      f'weighed equally give {expected}', witness)


INDEX_KINDS = ['range', 'permuted', 'shifted', 'reversed', 'strings', 'duplicates', 'floats']


def _index(kind, size, rng):
    if kind == 'range':
        return None
    if kind == 'permuted':  # e.g. after set_index(record id) / sort_values without reset_index
        return rng.sample(range(size), size)
    if kind == 'shifted':
        return [100 + i for i in range(size)]
    if kind == 'reversed':
        return list(range(size - 1, -1, -1))
    if kind == 'strings':
        return [f'r{rng.randrange(1000)}_{i}' for i in range(size)]
    if kind == 'duplicates':
        return [i // 2 for i in range(size)]
    return [i + 0.5 for i in range(size)]


def check_pandas_splitter(ctx, pairs, feature_index, label_index, multilabel, seed):
    """The stock pandas splitter actor (``payload.PandasCVFolds``, what CrossVal / HoldOut / FullStack use by default) under
    *arbitrary* splitter decisions and arbitrary frame indexes: trained once, applied to the features and to the labels
    the way the fold wiring does - port 2i / 2i+1 of both must hold exactly the records at the positions the cross-validator
    decided for fold i, in that order (the decisions are positions; frame index labels are none of the splitter's business)."""
    import random

    import pandas
    from forml.pipeline import payload
    from vlib import exprgen

    ctx.count('evaluations')
    ctx.count('pandas_splitter_cases')
    witness = {'splitter': 'pandas', 'pairs': pairs, 'feature_index': feature_index, 'label_index': label_index,
               'multilabel': multilabel, 'seed': seed}
    ctx.shape(('pandas-splitter', feature_index, label_index, multilabel, tuple((tuple(a), tuple(b)) for a, b in pairs)))
    rng = random.Random(seed)
    size = 1 + max(i for pair in pairs for part in pair for i in part)
    features = pandas.DataFrame({'rid': list(range(size)), 'f': [f'x{i}' for i in range(size)]}, index=_index(feature_index, size, rng))
    if multilabel:
        labels = pandas.DataFrame({'y': [10 * i for i in range(size)], 'z': [-i for i in range(size)]}, index=_index(label_index, size, rng))
    else:
        labels = pandas.Series([10 * i for i in range(size)], index=_index(label_index, size, rng), name='y')
    try:
        actor = payload.PandasCVFolds(crossvalidator=exprgen.FixedCV(pairs))
        if seed % 2:
            # incremental training: the splitter starts from the state persisted by the previous training, whose batch was
            # split otherwise - the folds of THIS batch are the ones the cross-validator decides now
            ctx.count('pandas_splitter_retrained_from_state')
            earlier = payload.PandasCVFolds(crossvalidator=exprgen.FixedCV([(te, tr) for tr, te in pairs][::-1]))
            earlier.train(features, labels)
            actor.set_state(earlier.get_state())
        actor.train(features, labels)
        clone = payload.PandasCVFolds(crossvalidator=exprgen.FixedCV([]))  # the fork applied to the labels gets the state only
        clone.set_state(actor.get_state())
        fparts = actor.apply(features)
        lparts = clone.apply(labels)
    except Exception as err:  # pylint: disable=broad-except
        ctx.violation('pandas-splitter-raises', f'PandasCVFolds over parts {pairs} ({feature_index}/{label_index} index) raised {err!r}',
                      witness)
        return
    if len(fparts) != 2 * len(pairs) or len(lparts) != 2 * len(pairs):
        ctx.violation('fold-missing-or-repeated', f'{len(fparts)}/{len(lparts)} output ports for {len(pairs)} folds', witness)
        return
    for fold, pair in enumerate(pairs):
        for side, positions in enumerate(pair):
            ctx.count('splitter_parts_checked')
            port = 2 * fold + side
            got_f = [int(v) for v in fparts[port]['rid'].tolist()]
            column = lparts[port]['y'] if multilabel else lparts[port]
            got_l = [int(v) for v in column.tolist()]
            if got_f != list(positions) or got_l != [10 * i for i in positions]:
                key = 'features-and-labels-split-differently' if [10 * i for i in got_f] != got_l else 'fold-part-not-the-splitter-decision'
                ctx.violation(key, f'fold {fold} {"test" if side else "train"} part decided as positions {list(positions)}: features '
                              f'records {got_f}, labels of records {[v // 10 for v in got_l]} ({feature_index} features index, '
                              f'{label_index} labels index)', witness)
                return


def concrete_pairs(rng):
    """Arbitrary splitter decisions over 6-12 records: partitions, gapped, overlapping tests, time-series like."""
    size = rng.randint(6, 12)
    ids = list(range(size))
    n = rng.randint(2, 4)
    style = rng.choice(['partition', 'gapped', 'timeseries', 'shuffle', 'overlap'])
    pairs = []
    for i in range(n):
        if style == 'partition':
            test = ids[i::n]
            train = [x for x in ids if x not in test]
        elif style == 'gapped':
            test = ids[i::n]
            train = [x for x in ids if x not in test and (x + 1) not in test]
        elif style == 'timeseries':
            cut = max(1, (i + 1) * size // (n + 1))
            train, test = ids[:cut], ids[cut:cut + max(1, size // (n + 1))]
        elif style == 'shuffle':
            shuffled = rng.sample(ids, size)
            test, train = shuffled[:max(1, size // 4)], shuffled[size // 2:]
        else:
            test = rng.sample(ids, max(1, size // 3))
            train = rng.sample([x for x in ids if x not in test], max(1, size // 3))
        if not train or not test:
            train, test = ids[:1], ids[1:2]
        pairs.append((list(train), list(test)))
    return pairs


def run(ctx):
    from vlib import exprgen

    gc.freeze()
    rng = ctx.rng('cases', ctx.shard)
    total = ctx.pick(360, 16000) // ctx.nshards
    for k in range(total):
        gen = exprgen.Gen(rng, maxfolds=3)
        mode = k % 3
        if mode == 0:
            expr = gen.expr(rng.choice([1, 2, 2, 3, 4]), depth=1)
            check_traintest(ctx, expr, 'crossval', rng.randint(2, 5))
        elif mode == 1:
            expr = gen.expr(rng.choice([1, 2, 2, 3]), depth=1)
            check_traintest(ctx, expr, 'holdout', 2)
        else:
            pre = gen.expr(rng.choice([1, 2]), depth=0, scoped_ok=False) if rng.random() < 0.6 else None
            bases = []
            for _ in range(rng.randint(1, 3)):
                base = gen.expr(rng.choice([1, 1, 2]), depth=0, scoped_ok=False)
                bases.append(base)
            check_fullstack(ctx, pre, bases, rng.randint(2, 5))
    crng = ctx.rng('concrete', ctx.shard)
    for k in range(ctx.pick(120, 4000) // ctx.nshards):
        check_concrete(ctx, concrete_pairs(crng), ['crossval', 'holdout', 'fullstack'][k % 3], crng.randint(1, 3))
    for k in range(ctx.pick(120, 2000) // ctx.nshards):
        pairs = concrete_pairs(crng)
        if k % 2:  # make sure a fold holds out record 0 (that fold scores exactly 0) next to folds that do not
            pairs = [(train, [r for r in test if r] or [1]) for train, test in pairs]
            pairs[crng.randrange(len(pairs))][1].append(0)
        check_default_reducer(ctx, pairs)
    for k in range(ctx.pick(120, 1200) // ctx.nshards):
        check_stock_reducer(ctx, 2 + k % 4, crng.randint(1, 5), crng.randrange(10**6))
    for k in range(ctx.pick(240, 4000) // ctx.nshards):
        check_pandas_splitter(ctx, concrete_pairs(crng), INDEX_KINDS[k % len(INDEX_KINDS)], crng.choice(INDEX_KINDS), crng.random() < 0.3,
                              crng.randrange(10**6))


def replay(ctx, witness):
    if witness.get('stock_reducer'):
        check_stock_reducer(ctx, *witness['stock_reducer'])
    elif witness.get('default_reducer'):
        check_default_reducer(ctx, [(list(a), list(b)) for a, b in witness['pairs']])
    elif witness.get('splitter') == 'pandas':
        check_pandas_splitter(ctx, [(list(a), list(b)) for a, b in witness['pairs']], witness['feature_index'], witness['label_index'],
                              witness['multilabel'], witness['seed'])
    elif 'pairs' in witness:
        check_concrete(ctx, [(list(a), list(b)) for a, b in witness['pairs']], witness['mode'], witness['bases'])
    elif 'kind' in witness:
        check_traintest(ctx, witness['expr'], witness['kind'], witness['n'])
    else:
        check_fullstack(ctx, witness['pre'], witness['bases'], witness['n'])
