"""C06 - feed reads return exactly what the statement denotes over its own storage.

Parser level (three-way rule, DESIGN 3.2): every generated well-formed statement is built with the real DSL, parsed by the
real ``alchemy`` parser and executed on sqlite and duckdb over random table contents; the same AST is (a) evaluated by
an independent relational evaluator (bags, NULLs, three-valued logic) and (b) rendered by an independent SQL emitter and
executed on the same engine.  An alarm needs forml's result to differ from the evaluator *while* the evaluator and the
own SQL agree; if my two oracles disagree the case is discarded and counted (oracle_disagreements).  A statement that
cannot be parsed or executed is a violation ("parsing such a statement never fails").

Reader level: short histories of {read through feed f, mutate the storage, read through another feed over another
database with equally named tables, restart the process keeping $FORML_HOME} against the real feeds (alchemy over sqlite
files, monolite csv/inline/parquet); every read must equal the reference evaluation over the storage content *at read time*.
"""
import collections
import json
import os
import shutil
import subprocess
import sys
import tempfile

PROPERTY = 'C06'
LEVEL = 'exploration'
RULE = (
    'statements from vlib.dslgen (exhaustive origin/clause skeletons up to depth 2 (quick) / 3 with sampled leaves + '
    'seeded random deeper ones): projection, aliases, arithmetic/comparison/logic/IsNull/Cast, where, groupby+aggregates+'
    'having, orderby, limit/offset, all five join kinds incl. self joins through references, nested statements, set '
    'operations; each executed on {sqlite, duckdb} x {fixed + random table contents with NULLs, ties, empty tables}; '
    'reader histories of <=6 steps over alchemy (sqlite files) and monolite feeds; distinct = distinct (statement '
    'signature, engine) / history; non-trivial = statement with >=2 clauses or a non-table source'
)
ASSUMPTIONS = [
    'constructs whose meaning differs between engines (integer division, modulo sign, rounding casts, dates arithmetic, '
    'huge integers, NULL ordering, ties under LIMIT) are rewritten or compared only as far as the property fixes them',
    'set operations are mathematical (distinct) sets',
    'trusted: vlib/dsleval.py (evaluator + SQL emitter, cross-checked against each other on every case)',
]
MANIFEST = {
    'text': 'Exploration: generated statements are parsed by the real SQL parser and executed on two engines over random '
            'data; results are compared three-way with an independent evaluator and an independent SQL rendering; reader '
            'histories check that reads depend only on the current content of the feed\'s own storage.',
    'design_ref': 'DESIGN.md section 5 / C06',
    'note': 'Trusted: relational evaluator + SQL emitter (~450 lines) and the sqlite/duckdb engines themselves (duckdb on one thread).',
    'technique': 'runtime monitoring: differential execution (three-way oracle) of parsed statements; storage-history '
                 'model for feed reads',
}
TIMEOUT = {'quick': 1500, 'thorough': 7200}


def shards(tier):
    return 8 if tier == 'quick' else 16


def floors(tier):
    scale = 1 if tier == 'quick' else 20
    return {'evaluations': 500 * scale, 'three_way_compared': 400 * scale, 'engine_sqlite': 200 * scale,
            'engine_duckdb': 200 * scale, 'join_cases': 60 * scale, 'set_cases': 10 * scale, 'grouped_cases': 40 * scale,
            'negation_cases': 10 * scale, 'reader_reads_checked': 12, 'nested_limit_cases': 20 * scale, 'nested_set_cases': 15}


# ------------------------------------------------------------------------------------------------ parser level
class Engines:
    """One in-memory database per engine, reloaded per dataset."""

    def __init__(self):
        import sqlalchemy

        self.sa = sqlalchemy
        self.engines = {'sqlite': sqlalchemy.create_engine('sqlite://'), 'duckdb': sqlalchemy.create_engine('duckdb:///:memory:')}
        self.conns = {name: engine.connect() for name, engine in self.engines.items()}
        # duckdb 1.5 answers a nested ORDER BY + LIMIT joined to another table wrongly about once in 80 runs when it runs on
        # several threads (top-n dynamic filter vs join filter; reproduced on the bare engine, no forml involved): one thread
        self.conns['duckdb'].execute(sqlalchemy.text('SET threads=1'))
        self.loaded = None

    def load(self, data, key):
        from vlib import dsleval, dslgen

        if self.loaded == key:
            return
        schema = {**dslgen.SCHEMA, **dslgen.TWIN}
        for conn in self.conns.values():
            for name in schema:
                conn.execute(self.sa.text(f'DROP TABLE IF EXISTS {name.lower()}'))
            for ddl in dsleval.create_sql(schema):
                conn.execute(self.sa.text(ddl))
            for name, fields in schema.items():
                rows = data.get(name, [])
                if rows:
                    cols = ', '.join(f'"{c}"' for c, _ in fields)
                    marks = ', '.join(f':p{i}' for i in range(len(fields)))
                    conn.execute(self.sa.text(f'INSERT INTO {name.lower()} ({cols}) VALUES ({marks})'),
                                 [{f'p{i}': v for i, v in enumerate(row)} for row in rows])
            conn.commit()  # a later failing statement is rolled back - the tables must survive that
        self.loaded = key

    def close(self):
        for conn in self.conns.values():
            conn.close()


def features_of(ast):
    """Structural feature set of a statement (coverage accounting and mechanism keys)."""
    from vlib import dslgen

    feats = set()
    for _, node in dslgen.walk(ast):
        tag = node[0]
        if tag == 'join':
            feats.add(f'join-{node[3]}')
        elif tag == 'set':
            feats.add(f'set-{node[3]}')
        elif tag == 'reference':
            feats.add('reference-query' if node[1][0] != 'table' else 'reference-table')
        elif tag == 'query':
            if node[3] is not None:
                feats.add('where')
            if node[4]:
                feats.add('groupby')
            if node[5] is not None:
                feats.add('having')
            if node[6]:
                feats.add('orderby')
            if node[7] is not None:
                feats.add('rows')
        elif tag in ('not', 'agg', 'cast', 'isnull', 'notnull', 'or', 'and', 'arith'):
            feats.add(tag)
    return feats


def supported(ast, env, nested_sets=False):
    """Reason why the statement is outside the comparable fragment (None = comparable)."""
    from vlib import dsleval, dslgen

    for path, node in dslgen.walk(ast):
        if node[0] == 'query' and node[7] is not None and path != () and not node[6]:
            return 'nested limit without ordering (content depends on storage order)'
    for _, node in dslgen.walk(ast):
        if node[0] == 'literal' and node[2] == 'date':
            return 'date literal'
        if node[0] == 'cmp':
            kinds = {dslgen.kind_of(node[2], env), dslgen.kind_of(node[3], env)}
            if 'Date' in kinds:
                return 'date comparison'
            if 'Boolean' in kinds and node[1] not in ('==', '!='):
                return 'boolean ordering'
        if node[0] == 'agg' and node[1] in ('min', 'max', 'sum', 'avg'):
            if dslgen.kind_of(node[2], env) in ('Boolean', 'Date', 'String'):
                return 'aggregate of a non-numeric feature'
        if node[0] == 'query' and node[6]:
            for feature, _ in node[6]:
                if dslgen.kind_of(feature, env) in ('Boolean',):
                    return 'ordering by a boolean'
        if node[0] == 'query' and not node[4]:
            outputs = list(node[2]) + [f for f, _ in node[6]] + ([node[5]] if node[5] is not None else [])
            if any(dslgen.contains_aggregate(f) for f in outputs):
                for feature in outputs:
                    for sub in dslgen.subfeatures(feature):
                        if sub[0] == 'column' and not _under_aggregate(feature, sub):
                            return 'mixed aggregate and plain column without grouping (engine specific)'
        if node[0] == 'query' and any(dslgen.contains(g, 'literal') for g in node[4]):
            return 'grouping by an expression holding a literal (bind parameters make it engine specific)'
        if node[0] == 'set' and any(side[0] == 'query' and (side[6] or side[7] is not None) for side in (node[1], node[2])):
            return 'ordered/limited set operand (not accepted by sqlite in a compound select)'
        if not nested_sets and node[0] == 'set' and (node[1][0] == 'set' or node[2][0] == 'set'):
            return 'nested set operation (sqlite cannot parse the parenthesised compound SQLAlchemy emits)'
        if node[0] == 'query' and node[4]:
            grouped = {dslgen.signature(g) for g in node[4]}
            for feature in list(node[2]) + [f for f, _ in node[6]] + ([node[5]] if node[5] is not None else []):
                if not _grouped_or_aggregated(dslgen.strip_alias(feature), grouped):
                    return 'grouped query using a column outside grouping and aggregates (engine specific)'
    return None


def _under_aggregate(feature, column):
    """True if every occurrence of the column inside the feature sits under an aggregate."""
    from vlib import dslgen

    def walk(node, covered):
        if node is column or node == column:
            return covered
        ok = True
        for _, child in dslgen.children(node):
            if dslgen.is_feature(child):
                ok = ok and walk(child, covered or node[0] == 'agg')
        return ok

    return walk(feature, False)


def _grouped_or_aggregated(feature, grouped):
    from vlib import dslgen

    if dslgen.signature(feature) in grouped or feature[0] in ('agg', 'literal'):
        return True
    if feature[0] == 'column':
        return False
    return all(_grouped_or_aggregated(child, grouped) for _, child in dslgen.children(feature) if dslgen.is_feature(child))


def forml_rows(ast, conn, rename=None, split=False, order=None):
    """Build with the real DSL, parse with the real alchemy parser, execute."""
    from forml.provider.feed.reader import alchemy
    from vlib import dslgen

    # split: a top-level AND of where / having as successive calls; order: clause methods called in a seeded permutation
    statement = dslgen.build(ast, rename=rename, split=split, order=order)
    with alchemy.Parser(dslgen.alchemy_sources(), {}) as visitor:
        statement.accept(visitor)
        selectable = visitor.fetch()
    return [tuple(r) for r in conn.execute(selectable).fetchall()], str(selectable)


def classify(ast, feats, data, error=None):
    """Mechanism key from structural features of the failing case."""
    from vlib import dslgen

    if error is not None:
        name = type(error).__name__
        text = str(error)
        if 'not' in feats and name == 'TypeError' and 'Boolean value of this clause' in text:
            return 'parse-raises-negation-operator'
        if name == 'AttributeError' and 'Factors' in text:
            return 'parse-raises-factors-merge'
        if name == 'RuntimeError' and 'Pythonic comparison proxy' in text:
            return 'pythonic-proxy-selected'
        return f'parse-or-execute-raises-{name}'
    if 'join-cross' in feats:
        # FULL OUTER JOIN .. ON true equals CROSS JOIN unless one side is empty (then the other side survives NULL-padded)
        from vlib import dsleval

        evaluator = dsleval.Evaluator(ast, data)
        for _, node in dslgen.walk(ast):
            if node[0] == 'join' and node[3] == 'cross':
                try:
                    sizes = [len(evaluator.relation(node[1])[1]), len(evaluator.relation(node[2])[1])]
                except Exception:  # pylint: disable=broad-except
                    continue
                if 0 in sizes and sizes != [0, 0]:
                    return 'cross-join-emitted-as-full-outer-join'
    if any(node[0] == 'query' and not node[2] and _over_set_reference(node[1]) for _, node in dslgen.walk(ast)):
        return 'select-all-over-set-reference-doubles-columns'
    structural = sorted(f for f in feats if f.startswith(('join-', 'set-', 'reference-')) or f in ('groupby', 'having', 'rows', 'orderby'))
    return 'result-differs:' + ('+'.join(structural) if structural else 'projection')


def _over_set_reference(source):
    from vlib import dslgen

    return any(node[0] == 'reference' and node[1][0] == 'set' for _, node in dslgen.walk(source) if node[0] in ('reference',))


def _source_tables(source):
    from vlib import dslgen

    return [node[1] for _, node in dslgen.walk(source) if node[0] == 'table']


def check_statement(ctx, engines, raw, data, datakey, share_names=None):
    from vlib import core, dsleval, dslgen

    ctx.count('evaluations')
    try:
        ast = dsleval.simplify(raw)
    except dsleval.Unsupported:
        ctx.count('skipped_unsupported')
        return
    env = dslgen.Env(ast)
    if dslgen.violations(ast) or dslgen.unspecified(ast) is not None:
        ctx.count('skipped_not_conforming_after_simplify')
        return
    why = supported(ast, env, nested_sets=True)
    if why:
        ctx.count('skipped_' + why.split(' ')[0])
        return
    only = None
    if supported(ast, env):  # nothing but a nested set operation: sqlite cannot parse the parenthesised compound - duckdb can
        only = {'duckdb'}
        ctx.count('nested_set_cases')
    feats = features_of(ast)
    sig = dslgen.signature(ast)
    witness = {'ast': ast, 'data': data}
    try:
        reference = dsleval.evaluate(ast, data)
        full = dsleval.evaluate(dsleval.strip_rows(ast), data)
        mine_sql = dsleval.to_sql(ast)
    except dsleval.Unsupported:
        ctx.count('skipped_unsupported')
        return
    orderby, rows = dsleval.order_spec(ast)
    for feature, counter in (('join-', 'join_cases'), ('set-', 'set_cases')):
        if any(f.startswith(feature) for f in feats):
            ctx.count(counter)
    if 'groupby' in feats or 'agg' in feats:
        ctx.count('grouped_cases')
    if 'not' in feats:
        ctx.count('negation_cases')
    if dsleval.inner_rows(ast):
        # a nested ORDER BY + LIMIT is only comparable when the inner order is total on this data
        for path, node in dslgen.walk(ast):
            if node[0] == 'query' and node[7] is not None and path != ():
                keys = _sort_keys(node, data)
                if keys is None or len(set(keys)) != len(keys) or any(v is None for k in keys for v in k):
                    ctx.count('skipped_nested_limit_with_ties')
                    return
        ctx.count('nested_limit_cases')
    # every other statement with two references that are never visible together is built with both sharing one name
    rename = dslgen.shared_names(ast) if (core.subseed(0, sig) % 2 if share_names is None else share_names) else {}
    if rename:
        ctx.count('shared_reference_name_cases')
        witness['rename'] = rename
    split = core.subseed(1, sig) % 2 == 0 and ast[0] == 'query' and any(c is not None and c[0] == 'and' for c in (ast[3], ast[5]))
    if split:
        ctx.count('split_filter_cases')
        witness['split'] = True
    # two statements in three are built with their clause methods (select / where / groupby / having / orderby / limit) called
    # in another order than the canonical one: every order denotes the same statement
    order = core.subseed(2, sig) if core.subseed(2, sig) % 3 else None
    if order is not None:
        ctx.count('permuted_clause_order_cases')
        witness['order'] = True
    engines.load(data, datakey)
    for name, conn in engines.conns.items():
        if only is not None and name not in only:
            continue
        ctx.count(f'engine_{name}')
        if len(feats) >= 2 or any(f.startswith(('join-', 'set-', 'reference-')) for f in feats):
            ctx.shape((sig, name))
        try:
            mine = [tuple(r) for r in conn.execute(engines.sa.text(mine_sql)).fetchall()]
        except Exception as err:  # pylint: disable=broad-except
            ctx.count('oracle_disagreements')
            ctx.note_set('oracle_sql_errors', f'{name}: {type(err).__name__}: {str(err)[:120]}', cap=8)
            try:
                conn.rollback()
            except Exception:  # pylint: disable=broad-except
                pass
            continue
        if not _agree(reference, mine, rows, full):
            ctx.count('oracle_disagreements')
            ctx.note_set('oracle_disagreement_samples', {'sql': mine_sql[:300], 'engine': name}, cap=5)
            continue
        try:
            theirs, their_sql = forml_rows(ast, conn, rename, split, order)
        except Exception as err:  # pylint: disable=broad-except
            try:
                conn.rollback()
            except Exception:  # pylint: disable=broad-except
                pass
            ctx.violation(classify(ast, feats, data, err), f'[{name}] statement cannot be parsed/executed: {type(err).__name__}: '
                          f'{str(err)[:300]} :: {sig[:300]}', dict(witness, engine=name))
            continue
        ctx.count('three_way_compared')
        problem = _compare(reference, theirs, full, orderby, rows, ast, data)
        if problem:
            ctx.violation(classify(ast, feats, data), f'[{name}] {problem}; forml SQL: {their_sql[:400]}', dict(witness, engine=name))
        elif ctx.counters['three_way_compared'] % 400 == 1:
            ctx.sample({'statement': sig[:400], 'engine': name, 'rows': len(theirs), 'sql': their_sql[:300]})


def _agree(reference, other, rows, full):
    from vlib import dsleval

    if rows is None:
        return dsleval.bag(reference) == dsleval.bag(other)
    return len(reference) == len(other) and not (dsleval.bag(other) - dsleval.bag(full))


def _compare(reference, theirs, full, orderby, rows, ast, data):
    """None if forml's rows are what the statement denotes; else a description."""
    from vlib import dsleval

    if rows is None:
        if dsleval.bag(reference) != dsleval.bag(theirs):
            missing = list((dsleval.bag(reference) - dsleval.bag(theirs)).elements())[:3]
            extra = list((dsleval.bag(theirs) - dsleval.bag(reference)).elements())[:3]
            return f'rows differ: missing {missing} unexpected {extra} ({len(theirs)} vs {len(reference)} rows)'
    else:
        if len(theirs) != len(reference):
            return f'limit/offset: {len(theirs)} rows, expected {len(reference)}'
        if dsleval.bag(theirs) - dsleval.bag(full):
            return 'limit/offset: rows not in the unlimited result'
    if orderby:
        keys = _sort_keys(ast, data)
        if keys is not None and all(v is not None for k in keys for v in k):
            # total, null-free order: sequence must match up to permutations inside equal-key groups
            expected_groups = []
            for row, key in zip(dsleval.evaluate(dsleval.strip_rows(ast), data), keys):
                if expected_groups and expected_groups[-1][0] == key:
                    expected_groups[-1][1].append(dsleval._norm_row(row))  # pylint: disable=protected-access
                else:
                    expected_groups.append((key, [dsleval._norm_row(row)]))  # pylint: disable=protected-access
            if rows is None:
                position = 0
                for _, members in expected_groups:
                    chunk = [dsleval._norm_row(r) for r in theirs[position:position + len(members)]]  # pylint: disable=protected-access
                    if collections.Counter(chunk) != collections.Counter(members):
                        return f'ordering violated near output row {position}'
                    position += len(members)
            elif len({k for k, _ in expected_groups}) == len(keys) and len(set(keys)) == len(keys):
                expected = [m[0] for _, m in expected_groups][rows[1]:rows[1] + rows[0]]
                if [dsleval._norm_row(r) for r in theirs] != expected:  # pylint: disable=protected-access
                    return 'limit/offset under a total order selects other rows'
    return None


def _sort_keys(ast, data):
    """Sort key tuples of the unlimited result in output order (None when not obtainable)."""
    from vlib import dsleval, dslgen

    ast = dslgen.norm(ast)
    if ast[0] != 'query' or not ast[6]:
        return None
    keyed = ast[:2] + (tuple(f for f, _ in ast[6]),) + ast[3:7] + (None,)
    try:
        rows = dsleval.evaluate(keyed, data)
    except Exception:  # pylint: disable=broad-except
        return None
    return [dsleval._norm_row(r) for r in rows]  # pylint: disable=protected-access


# ------------------------------------------------------------------------------------------------ reader level
READER_CHILD = r'''
import json, os, sys
sys.path[:0] = [os.environ['VERIF_REPO'], os.environ['VERIF_ROOT']]
from vlib import core
core.quiet_stderr()
from vlib import dslgen
job = json.load(open(sys.argv[1]))
out = []
producers = {}
for step in job['steps']:
    try:
        if step['db'] not in producers:  # one feed / reader per storage and process, like a runner keeps it
            tables = dslgen.catalog()
            if step['feed'] == 'alchemy':
                from forml.provider.feed import alchemy
                feed = alchemy.Feed({tables[n]: n.lower() for n in dslgen.SCHEMA}, connection=f"sqlite:///{step['db']}")
            elif step['feed'] == 'inline':
                from forml.provider.feed import monolite
                content = json.load(open(step['db']))
                feed = monolite.Feed(inline={tables[n]: content[n] for n in ('A', 'B')})
            elif step['feed'] == 'parquet':
                from forml.provider.feed import monolite
                feed = monolite.Feed(parquet={tables[n]: os.path.join(step['db'], n + '.parquet') for n in ('A', 'B')})
            else:
                from forml.provider.feed import monolite
                feed = monolite.Feed(csv={tables[n]: os.path.join(step['db'], n + '.csv') for n in ('A', 'B')})
            producers[step['db']] = feed.producer(feed.sources, feed.features, **feed._readerkw)
        statement = dslgen.build(dslgen.norm(step['ast']))
        table = producers[step['db']](statement, None)
        rows = [[None if (isinstance(v, float) and v != v) else (v.item() if hasattr(v, 'item') else v) for v in row] for row in table.to_rows()]
        out.append({'rows': json.loads(json.dumps(rows, default=str))})
    except Exception as err:
        out.append({'error': f'{type(err).__name__}: {err}'[:300]})
json.dump(out, open(job['out'], 'w'))
'''


def sqlite_write(path, data):
    import sqlite3

    from vlib import dsleval, dslgen

    if os.path.exists(path):
        os.unlink(path)
    conn = sqlite3.connect(path)
    for ddl in dsleval.create_sql(dslgen.SCHEMA):
        conn.execute(ddl.replace('DOUBLE', 'REAL').replace('BIGINT', 'INTEGER'))
    for name, fields in dslgen.SCHEMA.items():
        if data.get(name):
            conn.executemany(f'INSERT INTO {name.lower()} VALUES ({", ".join("?" * len(fields))})', data[name])
    conn.commit()
    conn.close()


def storage_write(kind, path, data):
    """Materialise the content of one storage: sqlite file, json for an inline feed, directory of csv files."""
    from vlib import dslgen

    if kind == 'alchemy':
        sqlite_write(path, data)
    elif kind == 'inline':
        with open(path, 'w', encoding='utf-8') as fd:
            json.dump({n: [list(r) for r in data[n]] for n in ('A', 'B')}, fd)
    elif kind == 'parquet':
        import pandas

        os.makedirs(path, exist_ok=True)
        for name in ('A', 'B'):
            columns = [c for c, _ in dslgen.SCHEMA[name]]
            pandas.DataFrame([list(r) for r in data[name]], columns=columns).to_parquet(os.path.join(path, name + '.parquet'))
    else:
        import csv

        os.makedirs(path, exist_ok=True)
        for name in ('A', 'B'):
            with open(os.path.join(path, name + '.csv'), 'w', encoding='utf-8', newline='') as fd:
                writer = csv.writer(fd)
                writer.writerow([c for c, _ in dslgen.SCHEMA[name]])
                writer.writerows(data[name])


def nullfree_data(rng):
    """Small NULL-free contents for A and B (the lazy feeds cast columns to plain dtypes)."""
    from vlib import dslgen

    domain = {'Integer': [0, 1, 1, 2, 3, -1], 'Float': [0.5, 1.5, -1.0, 2.0], 'String': ['a', 'b', 'c', 'd']}
    return {name: [tuple(rng.choice(domain[kind]) for _, kind in dslgen.SCHEMA[name]) for _ in range(rng.randint(1, 5))]
            for name in ('A', 'B')}


def run_reader_history(ctx, index):
    """One history: steps are executed in child processes sharing one FORML_HOME."""
    from vlib import core, dsleval, dslgen

    rng = ctx.rng('history', index)
    workdir = tempfile.mkdtemp(prefix='c06-hist-')
    home = os.path.join(workdir, 'home')
    kind = ['alchemy', 'inline', 'csv', 'parquet'][index % 4]
    ctx.count(f'reader_histories_{kind}')
    try:
        suffix = {'alchemy': '.sqlite', 'inline': '.json', 'csv': '.d', 'parquet': '.pq'}[kind]
        stores = {'f': os.path.join(workdir, 'f' + suffix), 'g': os.path.join(workdir, 'g' + suffix)}
        contents = {}
        for key, path in stores.items():
            contents[key] = dsleval.random_data(rng, dslgen.SCHEMA) if kind == 'alchemy' else nullfree_data(rng)
            storage_write(kind, path, contents[key])
        statements = [
            dslgen.query(dslgen.table('A'), select=(dslgen.column('A', 'x'), dslgen.column('A', 's'))),
            dslgen.query(dslgen.table('B'), select=(dslgen.column('B', 'x'), dslgen.column('B', 'w')),
                         where=dslgen.cmp('>', dslgen.column('B', 'w'), dslgen.lit(0))),
            dslgen.query(dslgen.table('A'), select=(dslgen.column('A', 'y'), dslgen.column('A', 's')),
                         where=dslgen.cmp('>', dslgen.column('A', 'x'), dslgen.lit(-1))),
        ]
        rng.shuffle(statements)
        plan = []  # list of processes, each a list of steps
        current = []
        actions = [rng.choice(['read-f', 'read-f', 'read-g', 'mutate-f', 'restart']) for _ in range(rng.randint(3, 6))]
        if index == 0:  # directed: stale after mutation, other feed with equally named tables, restart keeping FORML_HOME
            actions = ['read-f', 'mutate-f', 'read-f', 'read-g', 'restart', 'read-f']
        for action in actions:
            if action == 'restart':
                if current:
                    plan.append(current)
                    current = []
            elif action == 'mutate-f':
                if current:
                    plan.append(current)
                    current = []
                plan.append('mutate-f')
            else:
                current.append(action[-1])
        if current:
            plan.append(current)
        history = []
        reads = []
        history_processes = []
        for item in plan:
            if item == 'mutate-f':
                contents['f'] = dsleval.random_data(rng, dslgen.SCHEMA) if kind == 'alchemy' else nullfree_data(rng)
                storage_write(kind, stores['f'], contents['f'])
                history.append('mutate-f')
                continue
            history_processes.append(len(history))
            steps = [{'feed': kind, 'db': stores[k], 'ast': statements[(len(history) + n) % len(statements)], 'key': k}
                     for n, k in enumerate(item)]
            job = {'steps': steps, 'out': os.path.join(workdir, 'out.json')}
            with open(os.path.join(workdir, 'job.json'), 'w', encoding='utf-8') as fd:
                json.dump(job, fd)
            env = dict(os.environ, VERIF_REPO=core.REPO, VERIF_ROOT=core.VERIF, FORML_HOME=home, PYTHONPATH='')
            proc = subprocess.run([sys.executable, '-c', READER_CHILD, os.path.join(workdir, 'job.json')], env=env, cwd=workdir,
                                  capture_output=True, text=True, timeout=600, check=False)
            if not os.path.exists(job['out']):
                ctx.inconclusive(f'reader child died: {proc.stderr[-400:]}')
                return
            with open(job['out'], encoding='utf-8') as fd:
                results = json.load(fd)
            os.unlink(job['out'])
            for step, key, result in zip(steps, item, results):
                ast = step['ast']
                ctx.count('evaluations')
                ctx.count('reader_reads_checked')
                history.append(f'read-{key}')
                reads.append((key, dslgen.signature(ast), len(history_processes)))
                witness = {'history': list(history), 'ast': ast}
                if 'error' in result:
                    ctx.violation('reader-read-raises', f'read through feed {key} failed: {result["error"]}', witness)
                    continue
                expected = dsleval.evaluate(ast, contents[key])
                if dsleval.bag(expected) != dsleval.bag([tuple(r) for r in result['rows']]):
                    # known mechanism: the same statement was read before, through any feed, and the storage behind this
                    # read differs from that earlier read's (mutated since, or another database)
                    same_before = [k for k, sig, _ in reads[:-1] if sig == dslgen.signature(ast)]
                    stale = bool(same_before) and ('mutate-f' in history[:-1] or any(k != key for k in same_before))
                    key_name = 'alchemy-result-cache-keyed-by-sql-text' if stale else 'reader-result-differs'
                    if kind != 'alchemy':
                        # the lazy feeds register each table once per process in a global duckdb backend keyed by the
                        # table: a read after another feed with equally named tables was read in the same process
                        # sees that feed's content (on top of the SQL-text keyed result cache they inherit)
                        other_in_process = any(k != key and proc == len(history_processes) for k, _, proc in reads[:-1])
                        if stale or other_in_process:
                            key_name = 'lazy-feed-backend-and-result-cache-keyed-by-table-and-sql-text'
                    ctx.violation(key_name, f'history {history}: read through {key} returned {result["rows"][:4]} but its storage '
                                  f'holds {expected[:4]}', witness)
        ctx.shape(('history', tuple(history)))
    finally:
        shutil.rmtree(workdir, ignore_errors=True)


# ------------------------------------------------------------------------------------------------ driver
def run(ctx):
    import random

    from vlib import dsleval, dslgen

    engines = Engines()
    rng = ctx.rng('statements', ctx.shard)
    datasets = [dslgen.DATA] + [dsleval.random_data(ctx.rng('data', k)) for k in range(ctx.pick(3, 8))]
    datasets = [{**d, 'A2': d.get('A2', d['A'])} for d in datasets]
    try:
        index = 0
        depth = ctx.pick(2, 2)
        for ast in dslgen.enumerate_asts(depth, random.Random(ctx.seed), leaves=ctx.pick(1, 3)):
            index += 1
            if not ctx.mine(index):
                continue
            choice = index % len(datasets)
            for k in {0, choice}:
                check_statement(ctx, engines, ast, datasets[k], k)
        for _ in range(ctx.pick(320, 12000) // ctx.nshards):
            try:
                ast = dslgen.random_ast(rng, depth=rng.choice([1, 2, 2, 3]))
            except dslgen.DslgenError:
                continue
            k = rng.randrange(len(datasets))
            check_statement(ctx, engines, ast, datasets[k], k)
        # nested ORDER BY + LIMIT needs a total inner order: NULL-free tables with distinct rows in shuffled storage order
        ordered = []
        for k in range(3):
            drng = ctx.rng('nullfree', k)
            domain = {'Integer': list(range(-2, 7)), 'Float': [0.5, 1.5, -1.0, 2.0, 3.5, 4.25], 'String': list('abcdef'),
                      'Boolean': [True, False], 'Date': ['2020-01-01', '2021-06-30', '2019-03-03']}
            tables = {}
            for name, fields in {**dslgen.SCHEMA, **dslgen.TWIN}.items():
                rows = set()
                while len(rows) < 6:
                    rows.add(tuple(drng.choice(domain[kind]) for _, kind in fields))
                tables[name] = drng.sample(sorted(rows, key=repr), len(rows))
            ordered.append(tables)
        for number in range(ctx.pick(40, 300)):
            ast = nested_limit_statement(rng, number)
            k = number % len(ordered)
            check_statement(ctx, engines, ast, ordered[k], f'nullfree{k}')
        for ast in DIRECTED:
            for k in range(min(3, len(datasets))):
                check_statement(ctx, engines, ast, datasets[k], k, share_names=k % 2 == 0)
            empty = {**datasets[0], 'B': []}
            check_statement(ctx, engines, ast, empty, 'emptyB')
    finally:
        engines.close()
    total = ctx.pick(12, 240)
    for index in range(total):
        if ctx.mine(index):
            run_reader_history(ctx, index)


def nested_limit_statement(rng, number):
    """outer query / join over a reference of `inner ORDER BY <all columns> LIMIT n OFFSET k` (total inner order unless the
    table holds duplicate rows - those cases are skipped by the tie check)."""
    from vlib import dslgen as g

    name = rng.choice(['A', 'B', 'C'])
    columns = [c for c, kind in g.SCHEMA[name] if kind != 'Boolean']
    rng.shuffle(columns)
    keep = columns[:rng.randint(2, len(columns))]
    inner = g.query(g.table(name), select=tuple(g.column(name, c) for c in keep),
                    orderby=tuple((g.column(name, c), rng.choice(['asc', 'desc'])) for c in columns),
                    rows=(rng.randint(1, 4), rng.randint(0, 2)))
    alias = f'n{number}'
    ref = g.reference(inner, alias)
    numeric = [c for c in keep if dict(g.SCHEMA[name])[c] in ('Integer', 'Float')]
    if number % 3 == 0 or not numeric:
        return g.query(ref, select=tuple(g.column(alias, c) for c in keep))
    if number % 3 == 1:
        return g.query(ref, select=(g.column(alias, keep[0]),), where=g.cmp('>=', g.column(alias, numeric[0]), g.lit(0)))
    other = rng.choice([t for t in ('A', 'B', 'C') if t != name])
    ocol = next(c for c, kind in g.SCHEMA[other] if kind in ('Integer', 'Float'))
    return g.query(g.join(ref, g.table(other), rng.choice(['inner', 'left']), g.cmp('==', g.column(alias, numeric[0]), g.column(other, ocol))),
                   select=(g.column(alias, keep[0]), g.column(other, ocol)))


def _directed():
    from vlib import dslgen as g

    a, b = g.table('A'), g.table('B')
    return [
        g.query(a, select=(g.column('A', 'x'),), where=g.not_(g.cmp('>', g.column('A', 'x'), g.lit(1)))),
        g.query(g.join(a, b, 'cross'), select=(g.column('A', 'x'), g.column('B', 'w'))),
        g.query(g.join(a, b, 'inner', g.cmp('==', g.column('A', 'x'), g.column('B', 'x'))),
                select=(g.column('A', 'x'), g.column('B', 'w')),
                where=g.and_(g.or_(g.cmp('>', g.column('A', 'y'), g.lit(0)), g.cmp('>', g.column('B', 'w'), g.lit(10))),
                             g.cmp('>', g.column('B', 'w'), g.lit(0)))),
        g.query(g.join(a, b, 'right', g.cmp('==', g.column('A', 'x'), g.column('B', 'x'))),
                select=(g.column('A', 'x'), g.column('B', 'w'))),
        # mirrored non-commutative expressions in one statement / in consecutive statements of one process
        g.query(a, select=(g.alias(g.arith('-', g.column('A', 'x'), g.column('A', 'y')), 'p'),
                           g.alias(g.arith('-', g.column('A', 'y'), g.column('A', 'x')), 'q'))),
        g.query(a, select=(g.column('A', 'x'), g.column('A', 'y')), where=g.cmp('>', g.column('A', 'x'), g.column('A', 'y')),
                orderby=((g.arith('-', g.column('A', 'y'), g.column('A', 'x')), 'asc'), (g.column('A', 's'), 'asc'))),
        g.query(a, select=(g.column('A', 'x'), g.column('A', 'y')), where=g.cmp('>', g.column('A', 'y'), g.column('A', 'x'))),
        g.query(a, select=(g.alias(g.cmp('<', g.column('A', 'x'), g.column('A', 'y')), 'lt'),
                           g.alias(g.cmp('<', g.column('A', 'y'), g.column('A', 'x')), 'gt'))),
        # one named reference read by both operands of a set operation
        ('set', g.query(g.reference(a, 'rs'), select=(g.column('rs', 'x'),)),
         g.query(g.reference(a, 'rs'), select=(g.column('rs', 'x'),), where=g.cmp('>', g.column('rs', 'y'), g.lit(0))), 'union'),
        ('set', g.query(g.reference(a, 'rt'), select=(g.column('rt', 'y'),), where=g.cmp('>', g.column('rt', 'x'), g.lit(1))),
         g.query(g.reference(a, 'rt'), select=(g.column('rt', 'x'),)), 'difference'),
        # conjunctions issued as successive .where / .having calls (split build) with a bare equality on either side
        g.query(a, select=(g.column('A', 'x'), g.column('A', 's')),
                where=g.and_(g.cmp('>', g.column('A', 'x'), g.lit(0)), g.cmp('==', g.column('A', 'y'), g.lit(1)))),
        g.query(a, select=(g.column('A', 'x'), g.column('A', 's')),
                where=g.and_(g.cmp('==', g.column('A', 'y'), g.lit(0)), g.cmp('>', g.column('A', 'x'), g.lit(1)))),
        g.query(a, select=(g.column('A', 'y'), g.alias(g.agg('count', g.column('A', 'x')), 'n')), groupby=(g.column('A', 'y'),),
                having=g.and_(g.cmp('>', g.agg('count', g.column('A', 'x')), g.lit(0)), g.cmp('==', g.column('A', 'y'), g.lit(0)))),
        # two different references (built under one shared name where they are never visible together)
        ('set', g.query(g.reference(a, 'u1'), select=(g.column('u1', 'x'),)),
         g.query(g.reference(b, 'u2'), select=(g.column('u2', 'x'),)), 'union'),
        g.query(g.join(g.reference(g.query(g.reference(b, 'v1'), select=(g.column('v1', 'x'), g.column('v1', 'w'))), 'vq'),
                       g.reference(a, 'v2'), 'inner', g.cmp('==', g.column('vq', 'x'), g.column('v2', 'x'))),
                select=(g.column('vq', 'w'), g.column('v2', 'y'))),
    ] + referenced_joins() + nested_sets() + function_named_aliases()


def function_named_aliases():
    """Aggregates / expressions aliased by names that are also SQL function names, flat and read through a reference."""
    from vlib import dslgen as g

    a = g.table('A')
    out = []
    for position, fn in enumerate(('max', 'min', 'sum', 'count')):
        for name in (fn, 'count' if fn != 'count' else 'max'):
            inner = g.query(a, select=(g.column('A', 'y'), g.alias(g.agg(fn, g.column('A', 'x')), name)), groupby=(g.column('A', 'y'),))
            out.append(inner)
            ref = f'fa{position}{name}'
            out.append(g.query(g.reference(inner, ref), select=(g.column(ref, name), g.column(ref, 'y')),
                               where=g.notnull(g.column(ref, name))))
    out.append(g.query(a, select=(g.alias(g.arith('+', g.column('A', 'x'), g.column('A', 'y')), 'abs'), g.alias(g.column('A', 's'), 'lower'))))
    return out


def nested_sets():
    """Every pair of set kinds in both nestings, x OP1 (y OP2 z) and (x OP1 y) OP2 z, over overlapping single-column selects."""
    from vlib import dslgen as g

    x = g.query(g.table('A'), select=(g.column('A', 'x'),))
    y = g.query(g.table('B'), select=(g.column('B', 'x'),))
    z = g.query(g.table('A2'), select=(g.column('A2', 'x'),))
    kinds = ('union', 'intersection', 'difference')
    out = []
    for outer in kinds:
        for inner in kinds:
            out.append(('set', x, ('set', y, z, inner), outer))
            out.append(('set', ('set', x, y, inner), z, outer))
    return out


def referenced_joins():
    """A join given a name (``join.reference('j')``) and used through that handle - alone, filtered, ordered, joined on."""
    from vlib import dslgen as g

    a, b, c = g.table('A'), g.table('B'), g.table('C')
    out = []
    for kind in ('inner', 'left', 'right', 'full'):
        j = g.reference(g.join(a, c, kind, g.cmp('==', g.column('A', 'x'), g.column('C', 'k'))), f'j{kind[0]}')
        name = f'j{kind[0]}'
        out.append(g.query(j, select=(g.column(name, 'y'), g.column(name, 'v'))))
        out.append(g.query(j, select=(g.column(name, 's'),), where=g.cmp('>', g.column(name, 'v'), g.lit(0.0, 'float')),
                           orderby=((g.column(name, 'd'), 'asc'), (g.column(name, 's'), 'desc'))))
        out.append(g.query(g.join(j, b, 'inner', g.cmp('==', g.column(name, 'y'), g.column('B', 'x'))),
                           select=(g.column(name, 'z'), g.column('B', 'w')), where=g.notnull(g.column(name, 'k'))))
        out.append(g.query(j, select=(g.column(name, 'b'), g.alias(g.agg('count', g.column(name, 'x')), 'n')),
                           groupby=(g.column(name, 'b'),)))
    return out


class _Lazy(list):
    def __iter__(self):
        if not self:
            self.extend(_directed())
        return super().__iter__()


DIRECTED = _Lazy()


def replay(ctx, witness):
    from vlib import dslgen

    if 'history' in witness:
        run_reader_history(ctx, 0)
        return
    engines = Engines()
    try:
        data = {k: [tuple(r) for r in v] for k, v in witness['data'].items()}
        check_statement(ctx, engines, dslgen.norm(witness['ast']), data, 'replay', share_names=bool(witness.get('rename')))  # (split builds are re-derived from the statement signature)
    finally:
        engines.close()
