"""C05 - registry history is append-only, gap-free and crash-consistent.

Two parts, both on the live ``posix.Registry`` / ``asset.Directory`` code (``volatile.Registry``: history part only).

(A) History part.  A seeded history of 6-25 operations over 2 projects x <= 3 accepted releases from

      publish  project version (directory or zip package; higher / equal (same or other PEP 440 spelling) / lower version)
      train    release (latest or explicit) from generation (latest or explicit older one) with n in 0..4 states, done
               exactly as the runner does it: ``asset.State(generation, nodes, tag=generation.tag.training.trigger())``,
               ``State.dump`` x n, ``State.commit``
      read     latest / explicit release and generation through ``asset.State.load``
      prune    out-of-band: an operator removes the directory of the oldest or a middle generation of a release directly on
               disk (posix root / the volatile registry's temporary directory); the model simply forgets that generation,
               so later trainings must still be numbered highest-existing+1 (not count+1) and must leave the surviving
               generations byte-identical

    is applied to a registry, every operation behaving like a new process (new registry objects, every process-level
    cache dropped: TAGS / STATES / ARTIFACTS and the lru caches of ``posix.Path``).  About a third of the histories end
    with one operation that refers to a release by an equal PEP 440 version of another normal form (``1.0.0`` for a
    release published as ``1.0``); failures of such operations are keyed ``release-alias-spelling-...``.
    After EVERY step a FRESH reader (new ``posix.Registry`` + new ``asset.Directory``, the same caches dropped; thorough
    tier additionally a brand-new python process whose answer must be the same) lists the whole registry through the
    public API (vlib/c05_view.py) and the result must equal what the
    registry model predicts: an accepted training adds exactly one generation numbered max+1 holding exactly the dumped
    states in order (sha256, byte-identical; ``b''`` states are legitimate), every file that existed before the step is
    still there with the same sha256 (everything below the root except ``.stage``), a publish is accepted iff its
    version is greater than every existing release of the project, a rejected publish leaves the complete tree
    (``.stage`` included) untouched, the implicit "latest" keys are the maxima.

(B) Crash part.  For EVERY publish and train (dumps + commit) of a history EVERY crash point is enumerated
    (vlib/fsfault.py): the operation is run in a forked child on a COPY of the registry directory and the child
    ``os._exit(97)``s at the k-th event (audit events of mutating file-system calls below the root + LINE events of
    ``posix.Registry.push/write/close``, ``Manifest.write`` and - while a destination file is open - of
    ``shutil.copyfile`` / ``pathlib.Path.write_bytes``); the events are counted with a dry run on another copy and the
    crashed run must follow the dry run's event sequence.  After each death a fresh reader must see *either the previous
    content or the complete new item* in what is LISTED (staged leftovers are not listed and are allowed), every earlier
    file unchanged.  Anything else is classified by what is structurally wrong with the listed item:

      crash-generation-listed-with-empty-tag            tag file exists with 0 bytes (tag written in place)
      crash-generation-listed-with-unparsable-tag       tag file has bytes but does not parse
      crash-generation-listed-without-tag-file          listed although there is no tag file
      crash-generation-listed-with-missing-state        tag parses, a listed state file is absent
      crash-generation-listed-with-different-state      tag parses, a listed state is present but differs from the dump
      crash-generation-listed-with-wrong-state-count    tag parses, number of states differs
      crash-generation-number-gap                       the new generation is not max+1
      crash-release-listed-with-partial-package-directory / -zipfile   package copied in place
      crash-earlier-content-changed                     a file that existed before is gone or differs
      crash-listing-neither-before-nor-after            anything else

    Sizes: quick = 6 directed + 13 random histories (history part), all crash points of every publish / train of the
    directed and the first 2 random ones; thorough = 160 random histories, crash part for the first 12, a new-process
    reader for the first 12.  The crash points of one operation are dealt to the shards in chunks (load balance); a
    history is cut short after its first history-part violation (model and registry have diverged).

Oracle relaxations (the property does not say more): leftovers below ``.stage`` and unlisted files / directories (a
generation directory without tag, a release directory without package) are not violations; the training timestamp of
the new item of a crashed or dry run is only required to be present (each run takes its own ``utcnow()``); state ids
are random per run and compared by position; a rejection may be any exception.
"""
import copy
import json
import os
import random
import shutil
import subprocess
import sys
import tempfile
import time
import uuid

PROPERTY = 'C05'
LEVEL = 'fault_enumeration'
EXHAUSTIVE = False  # histories are sampled; what IS exhaustive (all crash points of each operation) is stated in
#                     coverage.observed.crash_enumeration and the crash_* counters
RULE = (
    'histories: seeded random sequences of 6-25 operations (quick <= 14) over 2 projects x <= 3 accepted releases from {publish '
    'directory/zip package with a higher / equal (same or other PEP 440 spelling) / lower version, train latest/explicit release from '
    'latest/explicit generation with 0-4 states of 0..20000 bytes, read latest/explicit, prune (operator removes the oldest or a middle '
    'generation directory on disk)}, each run against posix.Registry (fresh reader '
    'after every step) and volatile.Registry, a third of them ending with an operation that names a release by an equal version of '
    'another normal form, plus six directed minimal histories; crash part: for every publish and every train (dumps + commit) of the '
    'directed and the first 2 (quick) / 12 (thorough) random posix histories ALL crash points 1..N (N counted by a dry run) are executed, each in a forked child on a '
    'copy of the registry. evaluations = history steps checked + crash points checked. distinct = distinct (registry kind, operation '
    'shape, model state shape) per step and distinct (operation shape, model state shape, crash event descriptor) per crash point; '
    'non-trivial = the step is a publish/train/read on a non-empty registry or a crash point of an operation that mutates the registry'
)
ASSUMPTIONS = [
    'process death model: os._exit in a forked child at an event boundary (kill -9 semantics: python buffers lost, completed system '
    'calls persist); no power loss, no reordering of completed writes, no torn single write() / sendfile() call',
    'crash points are event boundaries: audit events of mutating fs calls below the registry root and LINE events of '
    'posix.Registry.push/write/close, Manifest.write and (while a destination file is open) shutil.copyfile / Path.write_bytes',
    'the fresh reader is a new posix.Registry + asset.Directory with TAGS/STATES/ARTIFACTS cleared (quick) and additionally a new python '
    'process that must agree with it (thorough); volatile.Registry keeps its artifacts in memory, so its reader is a new asset.Directory '
    'over the same registry object and it has no crash part',
    'one writer at a time (no concurrent publishers / committers); every operation is run as if by a new process (process-level caches '
    'dropped), the way the forml command line runs them',
    'packaging.version.Version is the trusted order on versions; sha256 equality stands for byte identity',
]
MANIFEST = {
    'text': 'Fault enumeration: seeded operation histories are applied to real posix and volatile registries and after every step a '
            'fresh reader must list exactly what an executable registry model predicts (sha256 of every file); for every publish and '
            'every train of those histories every crash point (file-system audit events + line events inside the writes) is executed in '
            'a forked child that dies with os._exit, and a fresh reader must then see the previous content or the complete new item. '
            'Exhaustive per operation (all crash points), sampled over histories.',
    'design_ref': 'DESIGN.md section 5 / C05, section 3.3',
    'note': 'Trusted: vlib/fsfault.py (event accounting + fork/_exit), vlib/c05_view.py (reader), the ~120 line registry model in '
            'checks/c05.py. Process death only, no power-loss model.',
    'technique': 'runtime monitoring with an executable model + exhaustive crash-point injection (sys.addaudithook, sys.monitoring, fork)',
}
TIMEOUT = {'quick': 600, 'thorough': 3000}

PROJECTS = ['pa', 'pb']
# strictly increasing PEP 440 versions, each with spellings that denote the same version
UNIVERSE = [
    ('0.1', ['0.1.0']), ('0.2.dev1', ['0.2.0.dev1']), ('0.2', ['0.2.0', 'v0.2']), ('1.0rc1', ['1.0.0-rc.1', '1.0RC1']),
    ('1.0', ['1.0.0', '1.0.0.0', 'v1.0']), ('1.0.post1', ['1.0-1', '1.0.0.post1']), ('1.1', ['1.1.0']), ('2.0', ['2', '2.0.0']),
    ('10.0', ['10', '10.0.0']),
]
SIZES = [0, 0, 1, 7, 64, 300, 9000, 20000]
MAXREL = 3


def shards(tier):
    return 16


def histories(tier):
    return 13 if tier == 'quick' else 160


def floors(tier):
    if tier == 'quick':
        return {
            'evaluations': 1000, 'history_steps_checked': 100, 'volatile_steps_checked': 100, 'views_compared': 100,
            'crash_points_checked': 700, 'crash_ops_publish_directory': 5, 'crash_ops_publish_zipfile': 5, 'crash_ops_train': 10,
            'dry_runs_checked': 25, 'publish_accepted_checked': 20, 'publish_rejected_checked': 8, 'rejected_tree_compared': 8,
            'train_checked': 30, 'read_checked': 5, 'crash_outcome_before': 300, 'earlier_files_compared': 1000,
            'prune_checked': 2, 'train_on_pruned_listing_checked': 2,
        }
    return {
        'evaluations': 8000, 'history_steps_checked': 1500, 'volatile_steps_checked': 1500, 'views_compared': 1500,
        'crash_points_checked': 3500, 'crash_ops_publish_directory': 25, 'crash_ops_publish_zipfile': 20, 'crash_ops_train': 60,
        'dry_runs_checked': 150, 'publish_accepted_checked': 300, 'publish_rejected_checked': 150, 'rejected_tree_compared': 150,
        'train_checked': 500, 'read_checked': 150, 'crash_outcome_before': 1500, 'earlier_files_compared': 20000,
        'reader_process_views_compared': 1000, 'prune_checked': 15, 'train_on_pruned_listing_checked': 15,
    }


# ---------------------------------------------------------------- registry model (oracle)
def vkey(text):
    from packaging import version

    return version.Version(text)


def norm(text):
    return str(vkey(text))


class Model:
    """{project: {normalised version: {'spelling', 'kind', 'manifest', 'files', 'gens': {number: gen}}}} with
    gen = {'tag': tag view | None, 'blobs': [sha...], 'lens': [...], 'sids': [str...] | None}."""

    def __init__(self, data=None):
        self.data = data if data is not None else {}

    def clone(self):
        return Model(copy.deepcopy(self.data))

    def releases(self, project):
        return sorted(self.data.get(project, {}), key=vkey)

    def latest(self, project):
        rels = self.releases(project)
        return rels[-1] if rels else None

    def resolve(self, project, release):
        """Model key of a release reference (None = latest)."""
        if release is None:
            return self.latest(project)
        wanted = vkey(release)
        return next((r for r in self.releases(project) if vkey(r) == wanted), None)

    def accepts(self, project, version):
        return all(vkey(version) > vkey(r) for r in self.releases(project))

    def publish(self, project, version, kind, package, files):
        self.data.setdefault(project, {})[norm(version)] = {
            'spelling': version, 'kind': kind, 'manifest': [project, norm(version), package, {}], 'files': files, 'gens': {}}

    def train(self, project, release, blobs, sids=None, tag=None):
        import hashlib

        gens = self.data[project][release]['gens']
        number = max(gens, default=0) + 1  # one above the highest EXISTING generation (there may be gaps after a prune)
        gens[number] = {'tag': tag, 'blobs': [hashlib.sha256(b).hexdigest() for b in blobs], 'lens': [len(b) for b in blobs],
                        'sids': sids}
        return number

    def prune(self, project, release, number):
        """An operator removed the generation directory: the model simply forgets it."""
        del self.data[project][release]['gens'][number]

    def view(self):
        """The same structure vlib.c05_view.view returns."""
        out = {'projects': {}}
        for project, rels in self.data.items():
            if not rels:
                continue
            pout = {'releases': {}, 'latest': self.latest(project)}
            for release in self.releases(project):
                rel = rels[release]
                rout = {'package': {'manifest': rel['manifest'], 'kind': rel['kind'], 'files': rel['files']}, 'generations': {},
                        'latest': max(rel['gens'], default=None)}
                for number, gen in sorted(rel['gens'].items()):
                    sids = gen['sids'] or [f'#{i}' for i in range(len(gen['blobs']))]
                    rout['generations'][str(number)] = {
                        'tag': dict(gen['tag'] or {'training': True, 'ordinal': None, 'tuning': None, 'score': None}, states=sids),
                        'states': [{'sid': s, 'present': True, 'sha': h, 'len': n} for s, h, n in zip(sids, gen['blobs'], gen['lens'])],
                        'listing': sorted(set(sids)),
                    }
                pout['releases'][release] = rout
            out['projects'][project] = pout
        return out

    def shape(self):
        """State shape for distinctness accounting: per project the ordered (kind, generation state counts) of its releases."""
        return [[(rel['kind'], [(n, len(g['blobs'])) for n, g in sorted(rel['gens'].items())]) for _, rel in sorted(self.data.get(p, {}).items(),
                                                                                             key=lambda kv: vkey(kv[0]))]
                for p in PROJECTS]


def normalised(view):
    """View with per-run values masked: state ids by position, training timestamp by presence."""
    view = copy.deepcopy(view)
    for project in view.get('projects', {}).values():
        for release in project.get('releases', {}).values():
            for gen in release.get('generations', {}).values():
                if 'tag' in gen:
                    gen['tag']['training'] = bool(gen['tag']['training'])
                    gen['tag']['states'] = len(gen['tag']['states'])
                    gen['listing'] = len(gen['listing']) if isinstance(gen.get('listing'), list) else gen.get('listing')
                    for state in gen.get('states', []):
                        state['sid'] = '#'
    return view


def diff(expected, actual, path=()):
    """First differences between two JSON-like values as (path, expected, actual)."""
    if isinstance(expected, dict) and isinstance(actual, dict):
        for key in sorted(set(expected) | set(actual), key=str):
            if key not in expected:
                yield path + (key,), '<absent>', actual[key]
            elif key not in actual:
                yield path + (key,), expected[key], '<absent>'
            else:
                yield from diff(expected[key], actual[key], path + (key,))
    elif isinstance(expected, list) and isinstance(actual, list) and len(expected) == len(actual):
        for index, (left, right) in enumerate(zip(expected, actual)):
            yield from diff(left, right, path + (index,))
    elif expected != actual:
        yield path, expected, actual


def error_types(view):
    """View with error texts reduced to the exception type (the wording of an import error depends on what else the process
    has imported before)."""
    if isinstance(view, dict):
        return {k: (v.split(':')[0] if k == 'error' and isinstance(v, str) else error_types(v)) for k, v in view.items()}
    if isinstance(view, list):
        return [error_types(v) for v in view]
    return view


LEVELS = {'projects', 'releases', 'generations', 'package', 'tag', 'states', 'listing', 'latest', 'files', 'manifest', 'kind', 'sha',
          'len', 'present', 'sid', 'training', 'ordinal', 'tuning', 'score', 'error'}


def structural(path):
    """Mechanism part of a difference path: the level names without the concrete keys."""
    return '-'.join(str(p) for p in path if p in LEVELS) or 'root'


# ---------------------------------------------------------------- history generation
def blob(spec):
    return random.Random(spec['seed']).randbytes(spec['len'])


def gen_history(rng, length):
    model = Model()
    ops = []
    payload = 0
    while len(ops) < length - 1:
        project = rng.choice(PROJECTS)
        rels = model.releases(project)
        roll = rng.random()
        if not rels or roll < 0.34:
            top = max((vkey(r) for r in rels), default=None)
            relation = rng.choice(['higher', 'higher', 'equal', 'lower']) if rels else 'first'
            if relation == 'higher' and len(rels) >= MAXREL:
                relation = rng.choice(['equal', 'lower'])
            if relation == 'first':
                base, spellings = rng.choice(UNIVERSE[:5])
            elif relation == 'higher':
                above = [u for u in UNIVERSE if vkey(u[0]) > top]
                if not above:
                    relation, above = 'equal', [u for u in UNIVERSE if vkey(u[0]) == top]
                base, spellings = rng.choice(above[:3])
            elif relation == 'equal':
                base, spellings = rng.choice([u for u in UNIVERSE if any(vkey(u[0]) == vkey(r) for r in rels)])
            else:
                below = [u for u in UNIVERSE if vkey(u[0]) < top]
                if not below:
                    continue
                base, spellings = rng.choice(below)
            version = rng.choice([base, base] + spellings)
            payload += 1
            ops.append({'op': 'publish', 'project': project, 'version': version, 'kind': rng.choice(['directory', 'zipfile']),
                        'payload': payload, 'extra': rng.randint(0, 3), 'big': rng.random() < 0.15, 'relation': relation})
            if model.accepts(project, version):
                model.publish(project, version, ops[-1]['kind'], 'vproj', {})
        else:
            target = rng.choice(rels + [None, None])
            release = model.resolve(project, target)
            if target is not None and rng.random() < 0.5:
                target = model.data[project][release]['spelling']
            numbers = sorted(model.data[project][release]['gens'])
            generation = rng.choice(numbers) if numbers and rng.random() < 0.4 else None
            if roll >= 0.93 and len(numbers) >= 2:  # an operator prunes the oldest or a middle generation directly on disk
                victim = numbers[0] if len(numbers) == 2 or rng.random() < 0.5 else rng.choice(numbers[1:-1])
                ops.append({'op': 'prune', 'project': project, 'release': target, 'generation': victim})
                model.prune(project, release, victim)
            elif roll < 0.85:
                states = [{'seed': rng.randrange(1 << 30), 'len': rng.choice(SIZES)} for _ in range(rng.randint(0, 4))]
                ops.append({'op': 'train', 'project': project, 'release': target, 'generation': generation, 'states': states})
                model.train(project, release, [b''] * len(states))
            else:
                ops.append({'op': 'read', 'project': project, 'release': target, 'generation': generation})
    if rng.random() < 0.35:  # tail: refer to a release by an equal version that is spelled differently from its directory
        choices = [(p, r, a) for p in PROJECTS for r in model.releases(p) for a in aliases(r)]
        if choices:
            project, release, alias = rng.choice(choices)
            if rng.random() < 0.6:
                ops.append({'op': 'train', 'project': project, 'release': alias, 'generation': None,
                            'states': [{'seed': rng.randrange(1 << 30), 'len': rng.choice(SIZES)} for _ in range(rng.randint(0, 2))]})
            else:
                ops.append({'op': 'read', 'project': project, 'release': alias, 'generation': None})
    return ops


def aliases(release):
    """Spellings of the same PEP 440 version whose normal form differs from the given (directory) name."""
    return sorted({s for base, spellings in UNIVERSE for s in [base] + spellings if vkey(s) == vkey(release) and norm(s) != release})


def is_alias(op, model):
    """The operation refers to an existing release by an equal version with another normal form than the release's name."""
    if op['op'] == 'publish' or op['release'] is None:
        return False
    release = model.resolve(op['project'], op['release'])
    return release is not None and norm(op['release']) != release


DIRECTED = [
    # minimal witnesses of the known findings (tag in place / directory package in place / zip package in place)
    [{'op': 'publish', 'project': 'pa', 'version': '1.0', 'kind': 'directory', 'payload': 1, 'extra': 0, 'big': False},
     {'op': 'train', 'project': 'pa', 'release': None, 'generation': None, 'states': [{'seed': 1, 'len': 7}, {'seed': 2, 'len': 0}]}],
    [{'op': 'publish', 'project': 'pb', 'version': '0.1', 'kind': 'zipfile', 'payload': 2, 'extra': 1, 'big': False},
     {'op': 'train', 'project': 'pb', 'release': '0.1', 'generation': None, 'states': []},
     {'op': 'train', 'project': 'pb', 'release': None, 'generation': 1, 'states': [{'seed': 3, 'len': 20000}]},
     {'op': 'read', 'project': 'pb', 'release': None, 'generation': None}],
    # ordering: numeric not lexicographic, equal spellings rejected, training an older release and from an older generation
    [{'op': 'publish', 'project': 'pa', 'version': '2.0', 'kind': 'zipfile', 'payload': 3, 'extra': 2, 'big': True},
     {'op': 'publish', 'project': 'pa', 'version': '10', 'kind': 'directory', 'payload': 4, 'extra': 3, 'big': False},
     {'op': 'publish', 'project': 'pa', 'version': '2.0.0', 'kind': 'directory', 'payload': 5, 'extra': 0, 'big': False},
     {'op': 'publish', 'project': 'pa', 'version': '1.1', 'kind': 'zipfile', 'payload': 6, 'extra': 0, 'big': False},
     {'op': 'train', 'project': 'pa', 'release': '2.0', 'generation': None, 'states': [{'seed': 4, 'len': 1}]},
     {'op': 'train', 'project': 'pa', 'release': '2.0', 'generation': None, 'states': [{'seed': 5, 'len': 64}, {'seed': 6, 'len': 0}]},
     {'op': 'train', 'project': 'pa', 'release': '2.0', 'generation': 1, 'states': [{'seed': 7, 'len': 300}]},
     {'op': 'train', 'project': 'pa', 'release': None, 'generation': None, 'states': [{'seed': 8, 'len': 0}]},
     {'op': 'read', 'project': 'pa', 'release': '2.0', 'generation': 2},
     {'op': 'publish', 'project': 'pa', 'version': '10.0.0', 'kind': 'zipfile', 'payload': 7, 'extra': 0, 'big': False}],
    # a release referred to by an equal PEP 440 version with another normal form than its directory name
    [{'op': 'publish', 'project': 'pa', 'version': '1.0', 'kind': 'directory', 'payload': 8, 'extra': 0, 'big': False},
     {'op': 'train', 'project': 'pa', 'release': None, 'generation': None, 'states': [{'seed': 9, 'len': 7}]},
     {'op': 'train', 'project': 'pa', 'release': '1.0.0', 'generation': None, 'states': [{'seed': 10, 'len': 7}]}],
    [{'op': 'publish', 'project': 'pb', 'version': '2.0.0', 'kind': 'zipfile', 'payload': 9, 'extra': 0, 'big': False},
     {'op': 'train', 'project': 'pb', 'release': '2.0.0', 'generation': None, 'states': [{'seed': 11, 'len': 1}]},
     {'op': 'read', 'project': 'pb', 'release': '2', 'generation': None}],
    # an operator prunes the oldest, later a middle generation: trainings stay max+1 and never touch the survivors
    [{'op': 'publish', 'project': 'pa', 'version': '1.0', 'kind': 'directory', 'payload': 10, 'extra': 0, 'big': False},
     {'op': 'train', 'project': 'pa', 'release': None, 'generation': None, 'states': [{'seed': 12, 'len': 7}]},
     {'op': 'train', 'project': 'pa', 'release': None, 'generation': None, 'states': [{'seed': 13, 'len': 64}, {'seed': 14, 'len': 0}]},
     {'op': 'train', 'project': 'pa', 'release': None, 'generation': None, 'states': [{'seed': 15, 'len': 1}]},
     {'op': 'prune', 'project': 'pa', 'release': None, 'generation': 1},
     {'op': 'train', 'project': 'pa', 'release': None, 'generation': None, 'states': [{'seed': 16, 'len': 300}]},
     {'op': 'prune', 'project': 'pa', 'release': None, 'generation': 3},
     {'op': 'train', 'project': 'pa', 'release': '1.0', 'generation': 2, 'states': [{'seed': 17, 'len': 7}, {'seed': 18, 'len': 7}]},
     {'op': 'read', 'project': 'pa', 'release': None, 'generation': None}],
    # several trainings of one explicitly named release in a row: with kept handles every other one goes through the
    # generation object of an earlier training while the ones in between are committed through fresh objects
    [{'op': 'publish', 'project': 'pb', 'version': '1.0', 'kind': 'zipfile', 'payload': 11, 'extra': 0, 'big': False}] + [
        {'op': 'train', 'project': 'pb', 'release': '1.0', 'generation': None, 'states': [{'seed': 20 + i, 'len': 5 + i}]} for i in range(6)
    ] + [{'op': 'read', 'project': 'pb', 'release': '1.0', 'generation': None}],
]


def advance(model, op, files, result):
    """Advance a model by the operation; returns what the model expects ('accept'/'reject'/generation number/release)."""
    if op['op'] == 'publish':
        if model.accepts(op['project'], op['version']):
            model.publish(op['project'], op['version'], {'directory': 'dir', 'zipfile': 'zip'}[op['kind']], 'vproj', files)
            return 'accept'
        return 'reject'
    release = model.resolve(op['project'], op['release'])
    if op['op'] == 'prune':
        model.prune(op['project'], release, op['generation'])
        return release
    if op['op'] == 'train':
        return model.train(op['project'], release, [blob(s) for s in op['states']], result and result.get('sids'),
                           result and result.get('tag') and {k: v for k, v in result['tag'].items() if k != 'states'})
    return release


# ---------------------------------------------------------------- source packages
def build_package(srcdir, op):
    """Write the source package of a publish operation (outside the registry); returns (path, package files description)."""
    from forml import project as prj

    from vlib import c05_view, projgen

    rng = random.Random(op['payload'] * 7919 + 13)
    label = f"{op['project']}-{op['payload']}"
    files = {'pipeline.py': f"MARK = {op['payload']}\nDATA = {rng.randbytes(12).hex()!r}\n"}
    for index in range(op['extra']):
        rel = ['helper.py', 'sub/consts.py', 'sub/deep/more.py'][index]
        files[rel] = f'VALUE = {rng.randrange(10 ** 9)}\n' * (1 + index)
    tree = projgen.write_package(os.path.join(srcdir, label), op['project'], op['version'], files=files)
    binary = tree / 'vproj' / 'blob.dat'
    binary.write_bytes(rng.randbytes(70000 if op['big'] else rng.choice([0, 5, 900])))
    if op['kind'] == 'directory':
        path = tree
    else:
        staging = os.path.join(srcdir, label, 'content')
        os.makedirs(staging)
        shutil.copytree(tree / 'vproj', os.path.join(staging, 'vproj'))
        path = os.path.join(srcdir, label, f"archive-{op['payload']}.4ml")
        prj.Package.create(staging, prj.Manifest(op['project'], op['version'], 'vproj'), path)
    return str(path), c05_view.package_files(path)


# ---------------------------------------------------------------- the operations on the live code
NODES = [uuid.UUID(int=0x1000 + i) for i in range(8)]


def perform(directory, op, source=None, handles=None, done=None):
    """Run one operation exactly the way the platform does; returns what forml reported.  ``handles``: generation objects
    kept from earlier operations of the history (a long-lived runner / instance): reused, not re-resolved."""
    from forml import project as prj
    from forml.io import asset

    from vlib import c05_view

    if op['op'] == 'publish':
        package = prj.Package(source)
        try:
            directory.get(package.manifest.name).put(package)
        except Exception as err:  # pylint: disable=broad-except
            return {'accepted': False, 'error': f'{type(err).__name__}: {err}'[:200], 'type': type(err).__name__}
        finally:
            if done:
                done()
        return {'accepted': True}
    if handles is not None and (op['project'], op['release'], op['generation']) in handles:
        generation = handles[op['project'], op['release'], op['generation']]
    else:
        generation = directory.get(op['project']).get(op['release']).get(op['generation'])
        if handles is not None:
            handles[op['project'], op['release'], op['generation']] = generation
    if op['op'] == 'train':
        blobs = [blob(s) for s in op['states']]
        nodes = NODES[:len(blobs)]
        tag = generation.tag.training.trigger()
        state = asset.State(generation, nodes, tag=tag)
        sids = [state.dump(b) for b in blobs]
        try:
            state.commit(sids)
        finally:
            if done:  # (what follows is this harness reading the outcome back, no longer the platform's operation)
                done()
        created = state._generation  # pylint: disable=protected-access
        return {'sids': [str(s) for s in sids], 'tag': c05_view.tag_view(tag.replace(states=sids)), 'generation': int(created.key),
                'release': str(created.release.key)}
    tag = generation.tag
    nodes = NODES[:len(tag.states)]
    state = asset.State(generation, nodes)
    loaded = [state.load(n) for n in nodes]
    try:
        number = int(generation.key)
    except asset.Level.Listing.Empty:
        number = None
    return {'release': str(generation.release.key), 'generation': number, 'trained': bool(tag.training),
            'states': [c05_view.sha(b) for b in loaded], 'lens': [len(b) for b in loaded]}


def prune(root, model, op):
    """Out-of-band operation of an operator: remove one generation directory of a release directly on disk (never through
    forml).  ``model`` is the registry model *before* the operation (it knows the directory name of the release)."""
    release = model.resolve(op['project'], op['release'])
    shutil.rmtree(os.path.join(root, op['project'], release, str(op['generation'])))
    return {'pruned': f"{op['project']}/{release}/{op['generation']}"}


def pruned_prefix(model, op):
    """Relative path prefix of what a prune operation removes."""
    return os.path.join(op['project'], model.resolve(op['project'], op['release']), str(op['generation'])) + os.sep


def crash_codes():
    import pathlib

    from forml.project import _distribution
    from forml.provider.registry.filesystem import posix

    from vlib import fsfault

    lines = [fsfault.code_of(posix.Registry.push), fsfault.code_of(posix.Registry.write), fsfault.code_of(posix.Registry.close),
             fsfault.code_of(_distribution.Manifest.write)]
    inner = [fsfault.code_of(shutil.copyfile), fsfault.code_of(pathlib.Path.write_bytes)]
    return lines, inner


# ---------------------------------------------------------------- readers
class Reader:
    """Fresh readers over posix registry directories."""

    def __init__(self, ctx, scratch, process):
        self.ctx = ctx
        self.scratch = scratch
        self.process = process
        self.serial = 0

    def read(self, roots, verify=True):
        """[(view, tree)] for every root: new registry objects with cleared caches; with ``process`` additionally one brand
        new python process reads all the roots and must report the same."""
        from vlib import c05_view

        local = [(c05_view.posix_view(r), c05_view.tree(r)) for r in roots]
        if self.process and verify and roots:
            self.serial += 1
            base = os.path.join(self.scratch, f'reader{self.serial}')
            with open(base + '.in', 'w', encoding='utf-8') as fd:
                json.dump({'roots': [str(r) for r in roots]}, fd)
            proc = subprocess.run([sys.executable, '-m', 'vlib.c05_view', base + '.in', base + '.out'], capture_output=True,
                                  text=True, timeout=600, check=False)
            if proc.returncode != 0 or not os.path.exists(base + '.out'):
                from vlib import core

                raise core.Inconclusive(f'reader process failed rc={proc.returncode}: {proc.stderr[-800:]}')
            with open(base + '.out', encoding='utf-8') as fd:
                remote = json.load(fd)
            os.remove(base + '.in')
            os.remove(base + '.out')
            self.ctx.count('reader_processes')
            for root, (view, tree), rview, rtree in zip(roots, local, remote['views'], remote['trees']):
                self.ctx.count('reader_process_views_compared')
                mine, theirs = error_types(json.loads(json.dumps(view))), error_types(rview)
                if mine != theirs or tree != rtree:
                    first = next(iter(diff(mine, theirs)), None)
                    self.ctx.violation('new-process-reader-differs-from-cleared-cache-reader',
                                       f'a new process and an in-process fresh reader disagree on {root}: {first}',
                                       {'root': str(root), 'difference': repr(first)[:500]})
        return local


# ---------------------------------------------------------------- history driver
class History:
    def __init__(self, ctx, ops, label, scratch, process=False, crash=True, only_crash=None, check=True, crash_ops=None):
        self.ctx = ctx
        self.ops = ops
        self.label = label
        self.scratch = tempfile.mkdtemp(prefix=f'c05-{label}-', dir=scratch)
        self.root = os.path.join(self.scratch, 'registry')
        self.srcdir = os.path.join(self.scratch, 'src')
        self.copies = os.path.join(self.scratch, 'copies')
        os.makedirs(self.copies)
        os.makedirs(self.root)
        self.last = ({'projects': {}}, {})
        self.model = Model()
        self.reader = Reader(ctx, self.scratch, process)
        self.crash = crash
        self.only_crash = only_crash  # replay: {'op_index': i, 'crash_point': k}
        self.check = check
        self.crash_ops = crash_ops if only_crash is None else {only_crash['op_index']: None}
        self.serial = 0
        self.persistent = None
        self.handles = {}
        self.source_of = {}  # op index -> package source of a publish (None for trainings) of crash-enumerated operations
        self.recoveries = 0
        self.writer = 'fresh'
        self.staging = None  # the registry's staging= option (another file system) for this history

    def key(self, key, op):
        """Mechanism key; failures of operations that refer to a release by an alias spelling are a mechanism of their own."""
        return ('release-alias-spelling-' + key) if is_alias(op, self.before_model) else key

    def witness(self, upto, **extra):
        return dict({'history': self.ops[:upto + 1], 'registry': 'posix', 'writer': self.writer, 'staging': bool(self.staging)}, **extra)

    def fresh_copy(self, label):
        self.serial += 1
        target = os.path.join(self.copies, f'{self.serial}-{label}')
        shutil.copytree(self.root, target, symlinks=True)
        return target

    def directory(self, root, writer):
        from vlib import c05_view, projgen

        if writer == 'persistent' and root == self.root:
            if self.persistent is None:
                self.persistent = projgen.directory(root, self.staging)
            return self.persistent
        c05_view.forget()  # every operation behaves as if run by a new process
        return projgen.directory(root, self.staging)

    # -------------------------------------------------------------- one step
    def run(self, writer='fresh'):
        """Apply the history.  ``self.check``: this shard owns the history part (model comparison after every step);
        ``self.crash_ops``: indices of the operations whose crash points this shard enumerates (None = all)."""
        from vlib import c05_view

        self.writer = writer
        last = max(self.crash_ops, default=-1) if self.crash_ops is not None and not self.check else len(self.ops)
        for index, op in enumerate(self.ops):
            if index > last:
                return
            source = files = None
            if op['op'] == 'publish':
                source, files = build_package(self.srcdir, op)
            crashing = self.crash and op['op'] in ('publish', 'train') and (self.crash_ops is None or index in self.crash_ops)
            if crashing and not self.check:
                self.last = self.reader.read([self.root], verify=False)[0]  # the owner of the history verifies this state
            before_view, before_tree = self.last
            before_full = c05_view.tree(self.root, stage=True) if self.check else None
            before_model = self.before_model = self.model.clone()
            crashed = []
            if crashing:
                expected = self.model.clone()
                advance(expected, op, files, None)
                self.source_of[index] = source
                crashed = self.enumerate_crashes(index, op, source, expected)
            if self.only_crash is not None and self.only_crash['op_index'] == index:
                self.settle(index, op, crashed, before_view, before_tree)
                return
            try:
                # 'kept': every other operation goes through generation objects kept from earlier operations of the history
                # (a long-lived handle whose release has meanwhile been written through other objects), the rest is fresh
                # (only trainings of an explicitly named release: a handle of "the latest release" legitimately stays with the
                # release it resolved, and a handle of a generation an operator pruned legitimately fails)
                kept = self.handles if writer.startswith('kept') and index % 2 == int(writer[-1]) and op['op'] == 'train' and op['release'] is not None else None
                if writer.startswith('kept') and op['op'] == 'prune':
                    # (every handle of the project: the prune may name its release implicitly - "the latest" - while the
                    # handles were taken under its explicit name)
                    self.handles = {k: v for k, v in self.handles.items() if k[0] != op['project']}
                if kept is not None and (op['project'], op['release'], op['generation']) in kept:
                    self.ctx.count('kept_handle_operations')
                result = prune(self.root, self.model, op) if op['op'] == 'prune' else perform(self.directory(self.root, writer), op, source, kept)
            except Exception as err:  # pylint: disable=broad-except
                result = {'raised': f'{type(err).__name__}: {err}'[:300]}
            if op['op'] == 'prune':  # what the operator removed is exempt from the append-only comparison of this step
                gone = pruned_prefix(self.model, op)
                before_tree = {k: v for k, v in before_tree.items() if not (k + os.sep).startswith(gone)}
            raw = self.ctx.counters.get('violations_raw', 0)
            if self.check:
                self.judge(index, op, result, files, before_model)
                raw = self.ctx.counters.get('violations_raw', 0) - raw
            elif 'raised' not in result or op['op'] != 'publish' or self.model.accepts(op['project'], op['version']):
                advance(self.model, op, files, result)
            observed = self.reader.read(([self.root] if self.check else []) + [c[1] for c in crashed])
            if self.check:
                (view, tree), observed = observed[0], observed[1:]
                self.last = (view, tree)
                mark = self.ctx.counters.get('violations_raw', 0)
                self.step_check(index, op, result, view, tree, before_tree, before_full)
                raw += self.ctx.counters.get('violations_raw', 0) - mark
            broken = self.check and raw > 0 and index + 1 < len(self.ops)
            self.settle(index, op, [c + o for c, o in zip(crashed, observed)], before_view, before_tree, read=False)
            if broken:  # model and registry have diverged: what follows would only repeat the same difference
                self.ctx.count('histories_cut_short')
                return

    def judge(self, index, op, result, files, before_model):
        """Compare what forml reported with the model and advance the model by what the model says should have happened."""
        ctx = self.ctx
        ctx.count('evaluations')
        ctx.count('history_steps_checked')
        if index > 0:
            ctx.shape(('posix', self.opshape(op), before_model.shape()))
        if 'raised' in result:
            ctx.violation(self.key(f"{op['op']}-raises", op), f"{op['op']} {self.brief(op)} raised {result['raised']} (history {self.label} step {index})",
                          self.witness(index))
            if op['op'] == 'publish' and not self.model.accepts(op['project'], op['version']):
                return
        expected = advance(self.model, op, files, result)
        if op['op'] == 'publish':
            ctx.count('publish_accepted_checked' if expected == 'accept' else 'publish_rejected_checked')
            if result.get('accepted') and expected == 'reject':
                ctx.violation(self.key('publish-nonincreasing-accepted', op),
                              f"publish {op['project']}-{op['version']} accepted although releases {before_model.releases(op['project'])} "
                              f'exist (step {index})', self.witness(index))
            elif result.get('accepted') is False and expected == 'accept':
                ctx.violation(self.key('publish-increasing-rejected', op),
                              f"publish {op['project']}-{op['version']} rejected ({result.get('error')}) although it is greater than "
                              f"{before_model.releases(op['project'])} (step {index})", self.witness(index))
            elif result.get('accepted') is False:
                ctx.note_set('rejection_types', result.get('type'))
        elif op['op'] == 'train' and 'raised' not in result:
            ctx.count('train_checked')
            release = self.model.resolve(op['project'], op['release'])
            numbers = sorted(before_model.data[op['project']][release]['gens']) if release in before_model.data.get(op['project'], {}) else []
            if numbers and numbers != list(range(1, len(numbers) + 1)):
                ctx.count('train_on_pruned_listing_checked')  # max+1 differs from count+1 here
            if result['generation'] != expected or self.model.resolve(op['project'], result['release']) != release:
                ctx.violation(self.key('train-generation-number-not-max-plus-one', op),
                              f"train {self.brief(op)} committed generation {result['release']}/{result['generation']}, the model expects "
                              f'{release}/{expected} (step {index})', self.witness(index))
        elif op['op'] == 'prune':
            ctx.count('prune_checked')
        elif op['op'] == 'read' and 'raised' not in result:
            ctx.count('read_checked')
            release = expected
            gens = self.model.data[op['project']][release]['gens']
            number = op['generation'] or max(gens, default=None)
            want = {'release': release, 'generation': number, 'trained': number is not None,
                    'states': gens[number]['blobs'] if number else [], 'lens': gens[number]['lens'] if number else []}
            got = dict(result, release=self.model.resolve(op['project'], result['release']))
            if got != want:
                first = next(iter(diff(want, got)))
                ctx.violation(self.key('read-' + '-'.join(p for p in first[0] if isinstance(p, str)) + '-differs', op), f'read {self.brief(op)} returned {first} (expected, observed) '
                              f'(step {index})', self.witness(index))

    def step_check(self, index, op, result, view, tree, before_tree, before_full):
        ctx = self.ctx
        from vlib import c05_view

        # (1) nothing that existed changes
        for path, digest in before_tree.items():
            ctx.count('earlier_files_compared')
            if tree.get(path) != digest:
                ctx.violation(self.key('history-earlier-content-changed', op),
                              f"after {op['op']} {self.brief(op)} (step {index}) {path} is {tree.get(path, 'gone')!r:.20} instead of "
                              f'{digest!r:.20}', self.witness(index))
                break
        # (2) a rejected publish changes nothing at all (staging included)
        if op['op'] == 'publish' and result.get('accepted') is False:
            after_full = c05_view.tree(self.root, stage=True)
            ctx.count('rejected_tree_compared')
            if after_full != before_full:
                changed = sorted(set(after_full.items()) ^ set(before_full.items()))[:3]
                ctx.violation(self.key('rejected-publish-changed-registry', op), f"rejected publish {self.brief(op)} (step {index}) changed {changed}",
                              self.witness(index))
        if op['op'] == 'read':
            after_full = c05_view.tree(self.root, stage=True)
            if after_full != before_full:
                ctx.violation(self.key('read-changed-registry', op), f'read {self.brief(op)} (step {index}) changed the registry tree', self.witness(index))
        # (3) the fresh reader lists exactly what the model predicts
        expected = self.model.view()
        ctx.count('views_compared')
        differences = list(diff(expected, json.loads(json.dumps(view))))
        if differences:
            path, want, got = differences[0]
            ctx.violation(self.key('history-' + structural(path) + '-differs', op),
                          f"after {op['op']} {self.brief(op)} (step {index}) a fresh reader sees {'/'.join(map(str, path))} = {got!r:.160} "
                          f'where the model predicts {want!r:.160} ({len(differences)} differences)', self.witness(index))

    # -------------------------------------------------------------- crash part
    def enumerate_crashes(self, index, op, source, expected_model):
        """Run the dry run and every crash point of the operation on copies; returns [(k, root, outcome, total)] still to be
        read (the reading is batched with the step's own read)."""
        from vlib import c05_view, core, fsfault, projgen

        ctx = self.ctx
        lines, inner = crash_codes()

        def make(root):
            def operation():
                c05_view.forget()  # the dying process is a new process
                return perform(projgen.directory(root, self.staging), op, source)

            return operation

        kind = 'train' if op['op'] == 'train' else 'publish_' + op['kind']
        job = None if self.crash_ops is None else self.crash_ops.get(index)  # None: all points are mine
        chunks, nchunks = (None, 0) if job is None else job
        lead = chunks is None or 0 in chunks
        if self.only_crash is not None:
            only = [self.only_crash['crash_point']]
        elif chunks is None:
            only = None
        else:  # my chunks of the points; the lead also takes whatever lies beyond the estimated number of chunks
            def only(total):
                return [k for k in range(1, total + 1)
                        if (k - 1) // CHUNK in chunks or (lead and (k - 1) // CHUNK >= nchunks)]
        pending = []
        dry = None
        for k, root, outcome in fsfault.enumerate_points(make, self.fresh_copy, lines, inner, only=only):
            if k == 'dry':
                dry = outcome
                if not outcome.completed:
                    raise core.Inconclusive(f'dry run of {op} did not complete: status={outcome.status} {outcome.error}')
                if lead:
                    ctx.count('crash_ops_' + kind)
                    ctx.count('crash_ops_enumerated')
                    ctx.count('crash_points_total_of_enumerated_ops', len(outcome.events))
                    ctx.note_max('crash_points_max_per_' + kind, len(outcome.events))
                    if not outcome.events:
                        ctx.count('crash_ops_without_events')
                    elif not any('crash_points' in sample for sample in ctx.samples):
                        ctx.sample({'operation': f"{op['op']} {self.brief(op)}", 'history': self.label, 'step': index,
                                    'crash_points': len(outcome.events), 'events': outcome.events[:6] + ['...'] + outcome.events[-4:]})
                pending.append(('dry', root, outcome, len(outcome.events)))
                continue
            if not outcome.crashed:
                raise core.Inconclusive(f'crash run {k}/{len(dry.events)} of {op} ended with status {outcome.status}: {outcome.error}')
            if outcome.events != dry.events[:k]:
                raise core.Inconclusive(f'crash run {k} of {op} diverged from the dry run: {outcome.events[-1:]} vs {dry.events[k - 1:k]}')
            ctx.count('crash_points_' + kind)
            pending.append((k, root, outcome, len(dry.events)))
        self.expected_after = expected_model
        return pending

    def settle(self, index, op, crashed, before_view, before_tree, read=True):
        """Judge what the fresh reader saw in every crashed copy of this operation."""
        ctx = self.ctx
        if not crashed:
            return
        if read:
            observed = self.reader.read([c[1] for c in crashed])
            crashed = [c + o for c, o in zip(crashed, observed)]
        before = normalised(json.loads(json.dumps(before_view)))
        after = normalised(self.expected_after.view())
        complete = True
        for k, root, outcome, total, view, tree in crashed:
            view = json.loads(json.dumps(view))
            seen = normalised(view)
            event = outcome.events[-1] if k != 'dry' and outcome.events else None
            witness = self.witness(index, op_index=index, crash_point=k, of=total, event=event)
            if k == 'dry':
                ctx.count('dry_runs_checked')
                if seen != after:
                    first = next(iter(diff(after, seen)))
                    ctx.violation(self.key('history-' + structural(first[0]) + '-differs', op),
                                  f'uninterrupted {op["op"]} {self.brief(op)} on a copy (step {index}): fresh reader sees {first[2]!r:.160} at '
                                  f"{'/'.join(map(str, first[0]))} where the model predicts {first[1]!r:.160}", self.witness(index))
                shutil.rmtree(root, ignore_errors=True)
                continue
            ctx.count('evaluations')
            ctx.count('crash_points_checked')
            if before != after:
                ctx.shape(('crash', self.opshape(op), self.expected_after.shape(), event))
            keys = []
            for path, digest in before_tree.items():
                if tree.get(path) != digest:
                    keys.append(('crash-earlier-content-changed', f"{path} is {tree.get(path, 'gone')!r:.20} instead of {digest!r:.20}"))
                    break
            if seen == before:
                ctx.count('crash_outcome_before')
                if self.source_of.get(index, ()) is not () and self.recoveries < 3 and not self.reader.process:
                    # recovery in ONE process: this reader has just listed the interrupted registry; the same process re-runs the
                    # operation and lists again - it must now see the complete new item
                    self.recoveries += 1
                    ctx.count('crash_recoveries_checked')
                    try:
                        perform(self.directory(root, 'fresh'), op, self.source_of[index])
                        again = normalised(json.loads(json.dumps(self.reader.read([root], verify=False)[0][0])))
                    except Exception as err:  # pylint: disable=broad-except
                        again = {'raised': repr(err)}
                    if again != after:
                        first = next(iter(diff(after, again))) if 'raised' not in again else ((), after, again)
                        keys.append(('recovery-in-the-listing-process-incomplete',
                                     f'the process that listed the interrupted registry re-ran the operation and still sees '
                                     f'{first[2]!r:.120} at {"/".join(map(str, first[0]))} (model: {first[1]!r:.120})'))
            elif seen == after:
                ctx.count('crash_outcome_after')
            else:
                keys.extend(self.classify(op, before, after, seen))
            for key, detail in keys:
                ctx.violation(key, f'{op["op"]} {self.brief(op)} (history {self.label} step {index}) killed at crash point {k}/{total} '
                              f'(before {event}): {detail}', witness)
            shutil.rmtree(root, ignore_errors=True)
        if self.only_crash is None:
            ctx.note_set('crash_enumeration', {
                'exhaustive': complete,
                'scope': 'per operation: every crash point 1..N (N from a dry run) of every publish and every train (dumps + commit) '
                         'of the crash-enumerated posix histories (counters crash_ops_*, crash_points_*; complete iff crash_points_checked == '
                         'crash_points_total_of_enumerated_ops, which a run that exits 0 or 1 guarantees)',
                'histories': 'sampled, not exhaustive'})

    def classify(self, op, before, after, seen):
        """Mechanism keys for a crashed registry that shows neither the previous content nor the complete new item."""
        keys = []
        for pname, project in seen.get('projects', {}).items():
            for rname, release in project.get('releases', {}).items():
                rbefore = before['projects'].get(pname, {}).get('releases', {}).get(rname)
                rafter = after['projects'].get(pname, {}).get('releases', {}).get(rname)
                if rbefore is None:
                    if rafter is None:
                        keys.append(('crash-listing-neither-before-nor-after', f'unexpected release {pname}/{rname} listed'))
                    elif release['package'] != rafter['package']:
                        have = release['package']
                        detail = have.get('error') or (f"{len(have['files'])} of {len(rafter['package']['files'])} package files, "
                                                       f"{sum(1 for f, h in have['files'].items() if rafter['package']['files'].get(f) != h)} "
                                                       'of them different')
                        keys.append((f"crash-release-listed-with-partial-package-{op.get('kind', 'unknown')}",
                                     f'release {pname}/{rname} is listed but its package is incomplete: {detail}'))
                    continue
                if release['package'] != rbefore['package']:
                    keys.append(('crash-earlier-content-changed', f'package of {pname}/{rname} differs from before'))
                known = rbefore['generations']
                top = max(map(int, known), default=0)
                for gname, gen in release.get('generations', {}).items():
                    if gname in known:
                        if gen != known[gname]:
                            keys.append(('crash-earlier-content-changed', f'generation {pname}/{rname}/{gname} reads differently than before'))
                        continue
                    where = f'new generation {pname}/{rname}/{gname}'
                    want = (rafter or {}).get('generations', {}).get(gname)
                    if int(gname) != top + 1:
                        keys.append(('crash-generation-number-gap', f'{where} listed, highest before was {top}'))
                    if 'error' in gen:
                        size = gen.get('tagfile_bytes')
                        key = ('crash-generation-listed-with-empty-tag' if size == 0 else 'crash-generation-listed-without-tag-file'
                               if size is None else 'crash-generation-listed-with-unparsable-tag')
                        keys.append((key, f'{where} is listed but its tag cannot be read ({gen["error"]}; tag file bytes: {size})'))
                    elif want is None:
                        keys.append(('crash-listing-neither-before-nor-after', f'{where} listed, not expected by the model'))
                    elif len(gen['states']) != len(want['states']):
                        keys.append(('crash-generation-listed-with-wrong-state-count',
                                     f'{where} lists {len(gen["states"])} states, {len(want["states"])} were dumped'))
                    elif any(s.get('present') is False for s in gen['states']):
                        keys.append(('crash-generation-listed-with-missing-state',
                                     f'{where}: state file(s) {[i for i, s in enumerate(gen["states"]) if s.get("present") is False]} absent'))
                    elif gen['states'] != want['states']:
                        keys.append(('crash-generation-listed-with-different-state', f'{where}: states differ from what was dumped'))
                    elif gen != want:
                        keys.append(('crash-listing-neither-before-nor-after', f'{where}: {next(iter(diff(want, gen)), None)}'))
            for rname in before['projects'].get(pname, {}).get('releases', {}):
                if rname not in project.get('releases', {}):
                    keys.append(('crash-earlier-content-changed', f'release {pname}/{rname} no longer listed'))
        for pname in before['projects']:
            if pname not in seen.get('projects', {}):
                keys.append(('crash-earlier-content-changed', f'project {pname} no longer listed'))
        if not keys:
            first = next(iter(diff(after, seen)), None)
            keys.append(('crash-listing-neither-before-nor-after', f'listing differs from both; against "after": {first!r:.300}'))
        dedup = []
        for key in keys:
            if key[0] not in [k for k, _ in dedup]:
                dedup.append(key)
        return dedup

    @staticmethod
    def brief(op):
        if op['op'] == 'publish':
            return f"{op['project']}-{op['version']} ({op['kind']})"
        if op['op'] == 'prune':
            return f"{op['project']}/{op['release'] or 'latest'}/{op['generation']} (removed on disk)"
        states = f" states={[s['len'] for s in op['states']]}" if op['op'] == 'train' else ''
        return f"{op['project']}/{op['release'] or 'latest'}/{op['generation'] or 'latest'}{states}"

    @staticmethod
    def opshape(op):
        if op['op'] == 'publish':
            return ('publish', op['project'], op['kind'], op.get('relation'), op['extra'], op['big'])
        if op['op'] == 'train':
            return ('train', op['project'], op['release'] is None, op['generation'], [s['len'] for s in op['states']])
        return (op['op'], op['project'], op['release'] is None, op['generation'])


# ---------------------------------------------------------------- volatile registry (history part only)
def run_volatile(ctx, ops, label, scratch):
    from forml.provider.registry.filesystem import volatile

    from vlib import c05_view

    from forml.io import asset

    registry = volatile.Registry()
    model = Model()
    srcdir = tempfile.mkdtemp(prefix=f'c05-{label}-vsrc-', dir=scratch)
    root = str(registry._path)  # pylint: disable=protected-access
    for index, op in enumerate(ops):
        source = files = None
        if op['op'] == 'publish':
            source, files = build_package(srcdir, op)
        before_tree = c05_view.tree(root)
        before_model = model.clone()
        prefix = 'volatile-release-alias-spelling-' if is_alias(op, before_model) else 'volatile-'
        raw = ctx.counters.get('violations_raw', 0)
        try:
            result = prune(root, model, op) if op['op'] == 'prune' else perform(asset.Directory(registry), op, source)
        except Exception as err:  # pylint: disable=broad-except
            result = {'raised': f'{type(err).__name__}: {err}'[:300]}
        if op['op'] == 'prune':  # the volatile registry keeps generations in its temporary directory: same out-of-band removal
            gone = pruned_prefix(model, op)
            before_tree = {k: v for k, v in before_tree.items() if not (k + os.sep).startswith(gone)}
        ctx.count('evaluations')
        ctx.count('volatile_steps_checked')
        if index > 0:
            ctx.shape(('volatile', History.opshape(op), before_model.shape()))
        witness = {'history': ops[:index + 1], 'registry': 'volatile'}
        if 'raised' in result:
            ctx.violation(f"{prefix}{op['op']}-raises", f"volatile: {op['op']} {History.brief(op)} raised {result['raised']} (step {index})",
                          witness)
            if op['op'] == 'publish' and not model.accepts(op['project'], op['version']):
                continue
        expected = advance(model, op, files, result)
        if op['op'] == 'publish' and result.get('accepted') is not None and result['accepted'] != (expected == 'accept'):
            ctx.violation(prefix + ('publish-nonincreasing-accepted' if result['accepted'] else 'publish-increasing-rejected'),
                          f"volatile: publish {History.brief(op)} accepted={result['accepted']} with releases "
                          f"{before_model.releases(op['project'])} (step {index})", witness)
        if op['op'] == 'train' and 'raised' not in result and (result['generation'] != expected):
            ctx.violation(prefix + 'train-generation-number-not-max-plus-one',
                          f"volatile: train {History.brief(op)} committed generation {result['generation']}, expected {expected}", witness)
        if op['op'] == 'read' and 'raised' not in result:
            gens = model.data[op['project']][expected]['gens']
            number = op['generation'] or max(gens, default=None)
            want = {'release': expected, 'generation': number, 'trained': number is not None,
                    'states': gens[number]['blobs'] if number else [], 'lens': gens[number]['lens'] if number else []}
            if dict(result, release=model.resolve(op['project'], result['release'])) != want:
                ctx.violation(prefix + 'read-differs', f'volatile: read {History.brief(op)} returned {result}, expected {want}', witness)
        tree = c05_view.tree(root)
        for path, digest in before_tree.items():
            if tree.get(path) != digest:
                ctx.violation(prefix + 'history-earlier-content-changed', f'volatile: {path} changed by step {index}', witness)
                break
        view = json.loads(json.dumps(c05_view.view(registry, volatile=True)))
        want = model.view()
        differences = list(diff(want, view))
        if differences:
            path, exp, got = differences[0]
            ctx.violation(prefix + 'history-' + structural(path) + '-differs',
                          f"volatile: after {op['op']} {History.brief(op)} (step {index}) a new Directory sees {'/'.join(map(str, path))} = "
                          f'{got!r:.160}, model predicts {exp!r:.160}', witness)
        if ctx.counters.get('violations_raw', 0) > raw:
            break
    registry._storage.cleanup()  # pylint: disable=protected-access


# ---------------------------------------------------------------- entry points
CHUNK = 32  # crash points of one operation are dealt to the shards in chunks of this size (load balance only)


def estimated_chunks(op):
    """Upper estimate of the number of chunks an operation's crash points fall into (a worker whose chunk turns out empty
    has only wasted a dry run; points beyond the estimate are taken by the worker of chunk 0)."""
    if op['op'] == 'train':
        estimate = 30 + 12 * len(op['states'])
    elif op['kind'] == 'zipfile':
        estimate = 20
    else:
        estimate = 50 + 15 * (op['extra'] + 2)
    return -(-estimate // CHUNK)


PROCESS_READER_HISTORIES = 12  # thorough: random histories whose every read is repeated by a brand-new python process


def crash_histories(tier):
    """Number of random histories whose operations get their crash points enumerated (the directed ones always do)."""
    return 2 if tier == 'quick' else 12


def check_pinned_reader(ctx, scratch, between):
    """A reader opened on "the latest generation" that loads its states one by one while other processes commit new
    generations in between: every state it loads is of the generation it resolved first (never a mix of two runs)."""
    from forml.io import asset

    from vlib import c05_view, projgen

    ctx.count('evaluations')
    ctx.count('pinned_reader_checked')
    root = tempfile.mkdtemp(prefix='c05-pinned-', dir=scratch)
    srcdir = os.path.join(root, 'src')
    registry = os.path.join(root, 'registry')
    os.makedirs(registry)
    publish = {'op': 'publish', 'project': 'pr', 'version': '1.0', 'kind': 'zipfile', 'payload': 1, 'extra': 0, 'big': False}
    witness = {'pinned_reader': between}
    try:
        source, _ = build_package(srcdir, publish)
        perform(projgen.directory(registry), publish, source)

        def train(seed):
            c05_view.forget()
            return perform(projgen.directory(registry), {'op': 'train', 'project': 'pr', 'release': '1.0', 'generation': None,
                                                         'states': [{'seed': seed, 'len': 9}, {'seed': seed + 1, 'len': 11}]})

        first = train(100)
        c05_view.forget()
        handle = projgen.directory(registry).get('pr').get('1.0').get(None)
        state = asset.State(handle, NODES[:2])
        loaded = [c05_view.sha(state.load(NODES[0]))]
        for k in range(between):
            train(200 + 10 * k)
        loaded.append(c05_view.sha(state.load(NODES[1])))
        want = [c05_view.sha(blob({'seed': 100, 'len': 9})), c05_view.sha(blob({'seed': 101, 'len': 11}))]
        if loaded != want or int(handle.key) != first['generation']:
            ctx.violation('reader-handle-mixed-generations', f'a reader opened on the latest generation ({first["generation"]}) loaded its '
                          f'second state after {between} more commit(s): states {loaded} (expected {want}), handle now at generation '
                          f'{int(handle.key)}', witness)
    except Exception as err:  # pylint: disable=broad-except
        ctx.violation('pinned-reader-raises', f'{err!r}', witness)
    finally:
        shutil.rmtree(root, ignore_errors=True)


def other_filesystem(scratch, label):
    """A fresh directory on a file system other than the scratch one (None if this machine has none)."""
    for base in ('/dev/shm', '/run/shm', '/var/tmp'):
        try:
            if os.path.isdir(base) and os.access(base, os.W_OK) and os.stat(base).st_dev != os.stat(scratch).st_dev:
                return tempfile.mkdtemp(prefix=f'c05-stage-{label}-', dir=base)
        except OSError:
            continue
    return None


def check_transient_scan_errors(ctx, scratch):
    """A directory scan failing ONCE with an I/O error (EIO, ESTALE, EMFILE, EACCES) while a training or a publish runs: the
    operation either fails and a fresh reader sees the registry as it was, or it reports success and the reader sees exactly
    one new item on top - it never reports success having put the item somewhere else."""
    import errno
    import pathlib

    from vlib import c05_view, projgen

    base = os.path.join(scratch, 'scanfault')
    root = os.path.join(base, 'registry')
    publish = {'op': 'publish', 'project': 'pa', 'version': '1.0', 'kind': 'directory', 'payload': 1, 'extra': 1, 'big': False,
               'relation': 'first'}
    source, _ = build_package(os.path.join(base, 'src'), publish)
    perform(projgen.directory(root), publish, source)
    for number in range(3):
        perform(projgen.directory(root), {'op': 'train', 'project': 'pa', 'release': '1.0', 'generation': None,
                                          'states': [{'seed': 100 + number, 'len': 7}, {'seed': 200 + number, 'len': 64}]})
        c05_view.forget()
    higher = dict(publish, version='2.0', payload=2)
    higher_source, _ = build_package(os.path.join(base, 'src'), higher)
    operations = [
        ('train', {'op': 'train', 'project': 'pa', 'release': '1.0', 'generation': None, 'states': [{'seed': 7, 'len': 9}]}, None),
        ('train-explicit', {'op': 'train', 'project': 'pa', 'release': '1.0', 'generation': 2, 'states': [{'seed': 8, 'len': 9}]}, None),
        ('publish', higher, higher_source),
        ('publish-equal', dict(publish, payload=3), build_package(os.path.join(base, 'src'), dict(publish, payload=3))[0]),
    ]
    iterdir = pathlib.Path.iterdir

    def faulty(trigger, code, calls):
        def scan(self):
            if str(self).startswith(calls['root']) and not calls.get('off'):
                calls['n'] += 1
                if calls['n'] == trigger:
                    raise OSError(code, os.strerror(code), str(self))
            return iterdir(self)

        return scan

    for label, op, src in operations:
        # how many scans of the registry the operation makes (on a copy)
        copy = os.path.join(base, f'count-{label}')
        shutil.copytree(root, copy)
        calls = {'n': 0, 'root': copy}
        pathlib.Path.iterdir = faulty(0, 0, calls)
        try:
            c05_view.forget()
            perform(projgen.directory(copy), op, src, done=lambda c=calls: c.update(off=True))
        except Exception:  # pylint: disable=broad-except
            pass
        finally:
            pathlib.Path.iterdir = iterdir
        scans = calls['n']
        ctx.note_max('scans_per_operation', scans)
        def anonymous(view):  # state ids are random: compare what is where, not under which id
            import re

            text = re.sub(r'[0-9a-f]{8}-[0-9a-f]{4}-[0-9a-f]{4}-[0-9a-f]{4}-[0-9a-f]{12}', '#', json.dumps(view, sort_keys=True, default=str))
            return json.loads(re.sub(r'\d{4}-\d\d-\d\dT[0-9:.]+', 'T', text))  # (nor when it was trained)

        want_after = anonymous(c05_view.posix_view(copy))
        shutil.rmtree(copy, ignore_errors=True)
        before = anonymous(c05_view.posix_view(root))
        for trigger in range(1, scans + 1):
            for code in (errno.EIO, errno.ESTALE, errno.EMFILE, errno.EACCES)[:ctx.pick(2, 4)]:
                ctx.count('evaluations')
                ctx.count('scan_faults_injected')
                ctx.shape(('scan-fault', label, trigger, errno.errorcode[code]))
                copy = os.path.join(base, f'fault-{label}-{trigger}-{code}')
                shutil.copytree(root, copy)
                calls = {'n': 0, 'root': copy}
                pathlib.Path.iterdir = faulty(trigger, code, calls)
                outcome = 'ok'
                try:
                    c05_view.forget()
                    result = perform(projgen.directory(copy), op, src, done=lambda c=calls: c.update(off=True))
                    if result.get('accepted') is False:
                        outcome = result['error']
                except Exception as err:  # pylint: disable=broad-except
                    outcome = f'{type(err).__name__}: {err}'[:160]
                finally:
                    pathlib.Path.iterdir = iterdir
                after = anonymous(c05_view.posix_view(copy))
                shutil.rmtree(copy, ignore_errors=True)
                witness = {'scan_fault': label, 'trigger': trigger, 'errno': errno.errorcode[code]}
                if outcome == 'ok' and label.startswith('publish-equal'):
                    ctx.violation('scan-fault-equal-version-published', f'{label}: with scan #{trigger} failing once '
                                  f'({errno.errorcode[code]}) a release of an existing version was accepted', witness)
                elif outcome == 'ok' and after != want_after:
                    ctx.violation(f'scan-fault-{label.split("-")[0]}-reported-success-registry-differs', f'{label}: with scan #{trigger} failing '
                                  f'once ({errno.errorcode[code]}) the operation reported success but a fresh reader sees '
                                  f'{diff_views(after, want_after)[:3]}', witness)
                elif outcome != 'ok' and after != before:
                    ctx.violation(f'scan-fault-{label.split("-")[0]}-failed-registry-changed', f'{label}: with scan #{trigger} failing once '
                                  f'({errno.errorcode[code]}) the operation failed ({outcome}) and a fresh reader sees '
                                  f'{diff_views(after, before)[:3]}', witness)
                else:
                    ctx.count('scan_fault_failed_cleanly' if outcome != 'ok' else 'scan_fault_survived')
    shutil.rmtree(base, ignore_errors=True)


def diff_views(left, right, path=''):
    if isinstance(left, dict) and isinstance(right, dict):
        out = []
        for key in sorted(set(left) | set(right), key=str):
            out += diff_views(left.get(key, '<absent>'), right.get(key, '<absent>'), f'{path}/{key}')
        return out
    return [] if left == right else [f'{path}: {str(left)[:80]} != {str(right)[:80]}']


def run(ctx):
    scratch = tempfile.mkdtemp(prefix='c05-')
    if ctx.shard == 1 % ctx.nshards:
        check_transient_scan_errors(ctx, scratch)
    jobs = [('directed', i, ops, True) for i, ops in enumerate(DIRECTED)]
    for index in range(histories(ctx.tier)):
        rng = ctx.rng('history', index)
        length = rng.randint(6, ctx.pick(14, 25))
        jobs.append(('random', index, gen_history(rng, length), index < crash_histories(ctx.tier)))
    started = time.time()
    serial = 0  # crash jobs (chunks of the crash points of one publish / train) are dealt round-robin to the shards
    for position, (family, index, ops, crash) in enumerate(jobs):
        mine = {}
        sketch = Model()
        for i, op in enumerate(ops):
            accepted = op['op'] == 'publish' and sketch.accepts(op['project'], op['version'])
            if accepted:
                sketch.publish(op['project'], op['version'], op['kind'], 'vproj', {})
            if crash and op['op'] in ('publish', 'train'):
                nchunks = estimated_chunks(op) if accepted or op['op'] == 'train' else 1
                for chunk in range(nchunks):
                    if ctx.mine(serial):
                        mine.setdefault(i, (set(), nchunks))[0].add(chunk)
                    serial += 1
        owner = ctx.mine(position)
        if not owner and not mine:
            continue
        label = f'{family}{index}'
        process = not ctx.quick and (family == 'directed' or index < PROCESS_READER_HISTORIES)
        history = History(ctx, ops, label, scratch, process=process, crash=bool(mine), check=owner, crash_ops=mine)
        if position % 3 == 2:  # registry configured with its staging area on another file system
            history.staging = other_filesystem(scratch, label)
            ctx.count('histories_staging_on_other_filesystem' if history.staging else 'staging_other_filesystem_unavailable')
        history.run(writer='persistent' if index % 2 else 'fresh')
        shutil.rmtree(history.scratch, ignore_errors=True)
        if history.staging:
            shutil.rmtree(history.staging, ignore_errors=True)
        if owner:
            # the same history once more through kept generation objects (no crash points: the history part only)
            for parity in (0, 1):
                again = History(ctx, ops, f'{label}k{parity}', scratch, process=False, crash=False, check=True)
                again.run(writer=f'kept{parity}')
                shutil.rmtree(again.scratch, ignore_errors=True)
                ctx.count('histories_kept_handles')
            run_volatile(ctx, ops, label, scratch)
            ctx.count('histories_run')
            ctx.count('histories_crash_enumerated', int(crash))
            if family == 'random' and index < 3:
                ctx.sample({'history': [dict(o, states=[s['len'] for s in o['states']]) if o['op'] == 'train' else o for o in ops]})
    for between in (1, 2, 3):
        if ctx.mine(between):
            check_pinned_reader(ctx, scratch, between)
    ctx.note_max('shard_wall_s', round(time.time() - started, 1))
    shutil.rmtree(scratch, ignore_errors=True)


def replay(ctx, witness):
    scratch = tempfile.mkdtemp(prefix='c05-replay-')
    if 'pinned_reader' in witness:
        check_pinned_reader(ctx, scratch, witness['pinned_reader'])
        shutil.rmtree(scratch, ignore_errors=True)
        return
    ops = witness['history']
    history = None
    if witness.get('registry') == 'volatile':
        run_volatile(ctx, ops, 'replay', scratch)
    elif 'crash_point' in witness and witness['crash_point'] != 'dry':
        history = History(ctx, ops, 'replay', scratch, crash=True,
                          only_crash={'op_index': witness['op_index'], 'crash_point': witness['crash_point']})
        history.staging = other_filesystem(scratch, 'replay') if witness.get('staging') else None
        history.run()
    else:
        history = History(ctx, ops, 'replay', scratch, crash=False)
        history.staging = other_filesystem(scratch, 'replay') if witness.get('staging') else None
        history.run(writer=witness.get('writer', 'fresh'))
    if history is not None and history.staging:
        shutil.rmtree(history.staging, ignore_errors=True)
    shutil.rmtree(scratch, ignore_errors=True)
