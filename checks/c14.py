"""C14 - push-down hints offered to storage back-ends never lose required data.

The real parser hands every table occurrence a column set and a row filter through
``Visitor.generate_table(table, features, predicate)``.  A recording subclass of the real ``alchemy.Parser`` captures
them for generated statements; three monitors decide safety:
  (a) column usage: every column of the table used anywhere in the enclosing query (projection, filters, join
      conditions, grouping, ordering) - computed by a walk over the generator's AST - is in the offered set;
  (b) honouring back-end: every occurrence gets its own copy of the table content, filtered by the offered predicate
      (evaluated by the database itself on the parser's own SQL for it) and with all non-offered columns blanked; the
      reference evaluator over these per-occurrence contents must return the same bag as over the full contents;
  (c) the same comparison against the rows forml's own (hint-ignoring) SQL returns on the engine.
"""
import collections
import json

PROPERTY = 'C14'
LEVEL = 'exploration'
RULE = (
    'statements from vlib.dslgen biased to joins of 2-3 tables (all kinds, equality and inequality conditions), and/or/not '
    'across one or several tables, nested queries and references, x random table contents; distinct = distinct (statement '
    'signature, data set); non-trivial = a statement whose parse offered at least one row filter or whose source is a join'
)
ASSUMPTIONS = [
    'a hint-honouring back-end is modelled per table occurrence: rows failing the offered filter are dropped and '
    'non-offered columns are unavailable (NULL) for that occurrence only',
    'the offered predicate is evaluated by sqlite on the SQL the parser itself generated for it',
    'trusted: vlib/dsleval.py evaluator (cross-checked against forml\'s own SQL on every case)',
]
MANIFEST = {
    'text': 'Exploration: the per-table column sets and row filters that the real parser offers for push-down are recorded '
            'for generated statements and applied to per-occurrence copies of random table contents; a reference evaluator '
            'must return the same result with and without the hints, and a column-usage walk must be covered.',
    'design_ref': 'DESIGN.md section 5 / C14',
    'note': 'Trusted: relational evaluator, AST column-usage walk, sqlite for predicate evaluation.',
    'technique': 'runtime monitoring: recorded push-down hints enforced on shadow data, differential against '
                 'hint-free evaluation',
}
TIMEOUT = {'quick': 1500, 'thorough': 7200}


def shards(tier):
    return 8 if tier == 'quick' else 16


def floors(tier):
    scale = 1 if tier == 'quick' else 20
    return {'evaluations': 400 * scale, 'hints_recorded': 600 * scale, 'filters_offered': 100 * scale,
            'honouring_backend_compared': 300 * scale, 'column_usage_checked': 600 * scale, 'outer_join_cases': 40 * scale,
            'negation_or_disjunction_cases': 40 * scale}


def recording_parser():
    from forml.provider.feed.reader import alchemy

    class Recorder(alchemy.Parser):
        """Real parser; generate_table records the hints and keeps ignoring them."""

        def __init__(self, sources, features):
            super().__init__(sources, features)
            self.hints = []

        def generate_table(self, table, features, predicate):
            self.hints.append((table, list(features), predicate))
            return super().generate_table(table, features, predicate)

    return Recorder


def table_contexts(ast):
    """For every table occurrence in visit order: (table name, columns of it used in its enclosing query context).

    A query opens a context; the features of its clauses and the join conditions of its from-tree belong to it; a
    referenced sub-statement has its own.  Columns are attributed to a table by origin id == table name (a table can
    occur only once per context without a reference).
    """
    from vlib import dslgen

    out = []

    def used_in(features):
        cols = collections.defaultdict(set)
        for feature in features:
            for sub in dslgen.subfeatures(feature):
                if sub[0] == 'column' and isinstance(sub[1], str):
                    cols[sub[1]].add(sub[2])
                elif sub[0] == 'column' and sub[1][0] == 'table':
                    cols[sub[1][1]].add(sub[2])
        return cols

    def from_tree(source, usage):
        tag = source[0]
        if tag == 'table':
            out.append((source[1], usage.get(source[1], set())))
        elif tag == 'reference':
            inner = source[1]
            if inner[0] == 'table':
                out.append((inner[1], usage.get(source[2], set())))  # columns of a referenced table go through the alias
            else:
                statement(inner)
        elif tag == 'join':
            from_tree(source[1], usage)
            from_tree(source[2], usage)

    def conditions(source):
        if source[0] == 'join':
            yield from conditions(source[1])
            yield from conditions(source[2])
            if source[4] is not None:
                yield source[4]

    def statement(node):
        tag = node[0]
        if tag == 'set':
            statement(node[1])
            statement(node[2])
        elif tag == 'query':
            source = node[1]
            features = list(node[2]) + list(node[4]) + [f for f, _ in node[6]]
            for extra in (node[3], node[5]):
                if extra is not None:
                    features.append(extra)
            features.extend(conditions(source))
            usage = used_in(features)
            if not node[2]:  # select-all uses every column of every origin in the from-tree
                env = dslgen.Env(ast)
                for oid in env.scope(source):
                    usage[oid] |= set(env.columns(oid) or ())
            from_tree(source, usage)
        else:
            from_tree(node, {})

    statement(dslgen.norm(ast))
    return out


def check_statement(ctx, conn, sa, raw, data, datakey):
    from vlib import dsleval, dslgen

    ctx.count('evaluations')
    try:
        ast = dsleval.strip_rows(dsleval.simplify(raw))
    except dsleval.Unsupported:
        ctx.count('skipped_unsupported')
        return
    if dslgen.violations(ast) or dslgen.unspecified(ast) is not None or dsleval.inner_rows(ast):  # nested limits: C06
        ctx.count('skipped_not_comparable')
        return
    from checks import c06

    env = dslgen.Env(ast)
    if c06.supported(ast, env):
        ctx.count('skipped_engine_specific')
        return
    witness = {'ast': ast, 'data': data}
    sig = dslgen.signature(ast)
    feats = c06.features_of(ast)
    try:
        statement = dslgen.build(ast)
        parser = recording_parser()(dslgen.alchemy_sources(), {})
        with parser as visitor:
            statement.accept(visitor)
            selectable = visitor.fetch()
    except Exception as err:  # pylint: disable=broad-except
        ctx.count('parse_failed')  # C06's subject
        ctx.note_set('parse_failures', f'{type(err).__name__}: {str(err)[:100]}', cap=6)
        return
    contexts = table_contexts(ast)
    hints = parser.hints
    ctx.count('hints_recorded', len(hints))
    if len(hints) < len(contexts):
        # the parser generated fewer tables than the statement reads: an occurrence without a generation of its own is served
        # by the table generated earlier for the same name - judge it with those hints
        pending, latest, mapped = list(hints), {}, []
        for context in contexts:
            if pending and pending[0][0].name.upper() == context[0].upper():
                latest[context[0].upper()] = pending.pop(0)
            if context[0].upper() in latest:
                mapped.append(latest[context[0].upper()])
        if not pending and len(mapped) == len(contexts):
            hints = mapped
            ctx.count('table_generations_reused')
    if len(hints) != len(contexts) or [h[0].name.upper() for h in hints] != [c[0].upper() for c in contexts]:
        ctx.inconclusive(f'table occurrence order mismatch: parser {[h[0].name for h in hints]} vs walk {[c[0] for c in contexts]}')
        return
    if any(f.startswith('join-') and f not in ('join-inner', 'join-cross') for f in feats):
        ctx.count('outer_join_cases')
    if feats & {'not', 'or'}:
        ctx.count('negation_or_disjunction_cases')
    schema = {**dslgen.SCHEMA, **dslgen.TWIN}
    occurrences = []
    offered_filter = False
    for (table, features, predicate), (name, used) in zip(hints, contexts):
        offered = {str(f.name) for f in features}
        # (a) column usage
        if used is not None:
            ctx.count('column_usage_checked')
            missing = used - offered
            if missing:
                ctx.violation('column-missing-from-hint', f'table {name}: columns {sorted(missing)} are used by the statement but '
                              f'only {sorted(offered)} are offered :: {sig[:300]}', witness)
                return
        columns = [c for c, _ in schema[name]]
        rows = [tuple(r) for r in data[name]]
        if predicate is not None:
            offered_filter = True
            ctx.count('filters_offered')
            try:
                text = str(sa.select(sa.text('*')).select_from(table).where(predicate).compile(
                    conn.engine, compile_kwargs={'literal_binds': True}))
                kept = [tuple(r) for r in conn.execute(sa.text(text)).fetchall()]
            except Exception as err:  # pylint: disable=broad-except
                try:
                    conn.rollback()
                except Exception:  # pylint: disable=broad-except
                    pass
                ctx.violation('offered-filter-not-evaluable', f'table {name}: offered filter cannot be evaluated on the table alone: '
                              f'{type(err).__name__}: {str(err)[:200]}', witness)
                return
            rows = kept
        if used is not None:
            blank = [i for i, c in enumerate(columns) if c not in offered]
            rows = [tuple(None if i in blank else v for i, v in enumerate(r)) for r in rows]
        occurrences.append(rows)
    if offered_filter or any(f.startswith('join-') for f in feats):
        ctx.shape((sig, datakey))
    try:
        reference = dsleval.evaluate(ast, data)
        honoured = dsleval.Evaluator(ast, data, occurrences=occurrences).run()
    except dsleval.Unsupported:
        ctx.count('skipped_unsupported')
        return
    ctx.count('honouring_backend_compared')
    if dsleval.bag(reference) != dsleval.bag(honoured):
        lost = list((dsleval.bag(reference) - dsleval.bag(honoured)).elements())[:3]
        gained = list((dsleval.bag(honoured) - dsleval.bag(reference)).elements())[:3]
        ctx.violation(classify(ast, hints, contexts, feats), f'honouring the hints changes the result: lost {lost} gained {gained}; '
                      f'offered {[(c[0], str(h[2])) for h, c in zip(hints, contexts) if h[2] is not None][:4]} :: {sig[:400]}', witness)
        return
    # (c) cross-check the evaluator against forml's own SQL (hint-ignoring) on the engine
    try:
        theirs = [tuple(r) for r in conn.execute(selectable).fetchall()]
        if dsleval.bag(theirs) != dsleval.bag(reference):
            ctx.count('evaluator_vs_forml_sql_disagreements')
    except Exception:  # pylint: disable=broad-except
        try:
            conn.rollback()
        except Exception:  # pylint: disable=broad-except
            pass
        ctx.count('forml_sql_failed')
    if ctx.counters['honouring_backend_compared'] % 300 == 1:
        ctx.sample({'statement': sig[:300], 'hints': [(c[0], sorted(str(f.name) for f in h[1]), str(h[2]) if h[2] is not None else None)
                                                      for h, c in zip(hints, contexts)]})


def classify(ast, hints, contexts, feats):
    """Mechanism key from the structure of the failing statement."""
    from vlib import dslgen

    outer = sorted(f for f in feats if f in ('join-left', 'join-right', 'join-full'))
    if outer:
        # which clause constrains a table of a null-supplying side?
        return 'filter-on-null-supplied-table-below-' + '+'.join(outer)
    parts = [t for t in ('not', 'or') if t in feats]
    if parts:
        return 'unsafe-factor-under-' + '+'.join(parts)
    return 'unsafe-factor'


def run(ctx):
    import random

    import sqlalchemy as sa

    from vlib import dsleval, dslgen

    engine = sa.create_engine('sqlite://')
    conn = engine.connect()
    loaded = [None]

    def load(data, key):
        if loaded[0] == key:
            return
        schema = {**dslgen.SCHEMA, **dslgen.TWIN}
        for name in schema:
            conn.execute(sa.text(f'DROP TABLE IF EXISTS {name.lower()}'))
        for ddl in dsleval.create_sql(schema):
            conn.execute(sa.text(ddl))
        for name, fields in schema.items():
            if data.get(name):
                cols = ', '.join(f'"{c}"' for c, _ in fields)
                marks = ', '.join(f':p{i}' for i in range(len(fields)))
                conn.execute(sa.text(f'INSERT INTO {name.lower()} ({cols}) VALUES ({marks})'),
                             [{f'p{i}': v for i, v in enumerate(row)} for row in data[name]])
        conn.commit()
        loaded[0] = key

    rng = ctx.rng('statements', ctx.shard)
    datasets = [dslgen.DATA] + [dsleval.random_data(ctx.rng('data', k)) for k in range(ctx.pick(3, 8))]
    datasets = [{**d, 'A2': d.get('A2', d['A'])} for d in datasets]
    try:
        index = 0
        for ast in dslgen.enumerate_asts(2, random.Random(ctx.seed + 1), leaves=ctx.pick(1, 3)):
            index += 1
            if not ctx.mine(index) or ast[0] != 'query' or ast[1][0] == 'table' and ast[3] is None:
                continue
            k = index % len(datasets)
            load(datasets[k], k)
            check_statement(ctx, conn, sa, ast, datasets[k], k)
        for _ in range(ctx.pick(480, 16000) // ctx.nshards):
            try:
                ast = dslgen.random_ast(rng, depth=rng.choice([1, 2, 2, 3]))
            except dslgen.DslgenError:
                continue
            k = rng.randrange(len(datasets))
            load(datasets[k], k)
            check_statement(ctx, conn, sa, ast, datasets[k], k)
        for ast in directed():
            for k in range(min(3, len(datasets))):
                load(datasets[k], k)
                check_statement(ctx, conn, sa, ast, datasets[k], k)
    finally:
        conn.close()


def directed():
    from vlib import dslgen as g

    a, b = g.table('A'), g.table('B')
    eq = g.cmp('==', g.column('A', 'x'), g.column('B', 'x'))
    return [
        g.query(g.join(a, b, 'inner', eq), select=(g.column('A', 'y'), g.column('B', 'w')),
                where=g.or_(g.cmp('>', g.column('A', 'y'), g.lit(0)), g.cmp('>', g.column('B', 'w'), g.lit(10)))),
        g.query(g.join(a, b, 'inner', eq), select=(g.column('A', 'y'), g.column('B', 'w')),
                where=g.not_(g.cmp('>', g.column('A', 'z'), g.lit(0.5, 'float')))),
        g.query(g.join(a, b, 'left', g.and_(eq, g.cmp('>', g.column('A', 'y'), g.lit(0)))),
                select=(g.column('A', 'y'), g.column('B', 'w'))),
        g.query(g.join(a, b, 'left', eq), select=(g.column('A', 'x'), g.column('B', 'w')),
                where=g.isnull(g.column('B', 'w'))),
        g.query(g.join(a, b, 'full', g.and_(eq, g.cmp('>', g.column('B', 'w'), g.lit(10)))),
                select=(g.column('A', 'x'), g.column('B', 'w'))),
        g.query(g.join(a, b, 'inner', eq), select=(g.column('B', 'w'),), orderby=((g.column('A', 's'), 'asc'),)),
        # a grouped statement ordered by aggregates over columns used nowhere else
        g.query(a, select=(g.column('A', 'x'), g.alias(g.agg('count', g.column('A', 'y')), 'n')), groupby=(g.column('A', 'x'),),
                orderby=((g.agg('max', g.column('A', 'z')), 'desc'), (g.column('A', 'x'), 'asc'))),
        g.query(g.join(a, b, 'inner', eq), select=(g.column('A', 'x'), g.alias(g.agg('count', g.column('A', 'y')), 'n')),
                groupby=(g.column('A', 'x'),), orderby=((g.agg('sum', g.column('B', 'w')), 'asc'), (g.column('A', 'x'), 'asc'))),
        # the same table read twice with the same columns and different row filters (set operands, nested statement)
        ('set', g.query(a, select=(g.column('A', 'x'),), where=g.cmp('>', g.column('A', 'y'), g.lit(0))),
         g.query(a, select=(g.column('A', 'x'),), where=g.cmp('<=', g.column('A', 'y'), g.lit(0))), 'union'),
        ('set', g.query(b, select=(g.column('B', 'w'),), where=g.cmp('>', g.column('B', 'x'), g.lit(1))),
         g.query(b, select=(g.column('B', 'w'),), where=g.cmp('<', g.column('B', 'x'), g.lit(1))), 'union'),
        g.query(g.join(a, g.reference(g.query(a, select=(g.column('A', 'x'), g.column('A', 'y')),
                                              where=g.cmp('<=', g.column('A', 'y'), g.lit(0))), 'nq'),
                       'inner', g.cmp('==', g.column('A', 'x'), g.column('nq', 'x'))),
                select=(g.column('A', 'x'), g.column('nq', 'y')), where=g.cmp('>', g.column('A', 'y'), g.lit(0))),
    ] + nested_outer_joins() + referenced_joins() + negated_conjunctions()


def negated_conjunctions():
    """NOT over a conjunction / disjunction of which only some operands are about one table (the others compare across
    tables, or are about the other table): ``NOT (p_A AND q)`` = ``NOT p_A OR NOT q`` filters no table on its own."""
    from vlib import dslgen as g

    a, b, c = g.table('A'), g.table('B'), g.table('C')
    eq = g.cmp('==', g.column('A', 'x'), g.column('B', 'x'))
    single = {
        'A': [g.cmp('>', g.column('A', 'y'), g.lit(0)), g.isnull(g.column('A', 's'))],
        'B': [g.cmp('>', g.column('B', 'w'), g.lit(10)), g.isnull(g.column('B', 't'))],
    }
    across = [g.cmp('<', g.column('A', 'y'), g.column('B', 'w')), g.cmp('!=', g.column('A', 'x'), g.column('B', 'x'))]
    select = (g.column('A', 'x'), g.column('A', 'y'), g.column('B', 'w'))
    out = []
    for table, options in single.items():
        other = single['B' if table == 'A' else 'A'][0]
        for own in options:
            for second in across + [other]:
                for build in (g.and_, g.or_):
                    for pair in ((own, second), (second, own)):
                        negated = g.not_(build(*pair))
                        out.append(g.query(g.join(a, b, 'inner', eq), select=select, where=negated))
                        out.append(g.query(g.join(a, b, 'inner', negated), select=select))
                        out.append(g.query(g.join(a, b, 'left', negated), select=select))
                        out.append(g.query(g.join(a, b, 'inner', eq), select=select,
                                           where=g.and_(g.cmp('>', g.column('B', 'x'), g.lit(0)), negated)))
    third = g.cmp('<', g.column('A', 'x'), g.column('C', 'k'))
    for own in (g.cmp('>', g.column('C', 'v'), g.lit(0.5, 'float')), single['A'][0]):
        out.append(g.query(g.join(g.join(a, b, 'inner', eq), c, 'inner', g.cmp('==', g.column('B', 'x'), g.column('C', 'k'))),
                           select=select + (g.column('C', 'k'),), where=g.not_(g.and_(own, third))))
    return out


def referenced_joins():
    from checks import c06

    return c06.referenced_joins()


def nested_outer_joins():
    """Join conditions (and WHERE clauses) with a factor on every table of A <k1> (B <k2> C) / (B <k2> C) <k1> A: a table
    null-padded by the nested outer join must not be filtered below it."""
    from vlib import dslgen as g

    a, b, c = g.table('A'), g.table('B'), g.table('C')
    link = g.cmp('==', g.column('B', 'x'), g.column('C', 'k'))
    factors = {
        'A': [g.cmp('>', g.column('A', 'y'), g.lit(0)), g.isnull(g.column('A', 's'))],
        'B': [g.isnull(g.column('B', 't')), g.cmp('>', g.column('B', 'w'), g.lit(10))],
        'C': [g.isnull(g.column('C', 'b')), g.cmp('>', g.column('C', 'v'), g.lit(0.5, 'float'))],
    }
    select = (g.column('A', 'x'), g.column('B', 'w'), g.column('C', 'k'))
    out = []
    for k2 in ('left', 'right', 'full'):
        nested = g.join(b, c, k2, link)
        for k1 in ('inner', 'left', 'right', 'full'):
            for table, options in factors.items():
                for factor in options:
                    condition = g.and_(g.cmp('!=', g.column('A', 'x'), g.column('C', 'k')), factor)
                    out.append(g.query(g.join(a, nested, k1, condition), select=select))
                    out.append(g.query(g.join(nested, a, k1, condition), select=select))
            out.append(g.query(g.join(a, nested, k1, g.cmp('==', g.column('A', 'x'), g.column('B', 'x'))), select=select,
                               where=factors['B'][0]))
    return out


def replay(ctx, witness):
    import sqlalchemy as sa

    from vlib import dsleval, dslgen

    engine = sa.create_engine('sqlite://')
    conn = engine.connect()
    data = {k: [tuple(r) for r in v] for k, v in witness['data'].items()}
    schema = {**dslgen.SCHEMA, **dslgen.TWIN}
    for ddl in dsleval.create_sql(schema):
        conn.execute(sa.text(ddl))
    for name, fields in schema.items():
        if data.get(name):
            cols = ', '.join(f'"{c}"' for c, _ in fields)
            marks = ', '.join(f':p{i}' for i in range(len(fields)))
            conn.execute(sa.text(f'INSERT INTO {name.lower()} ({cols}) VALUES ({marks})'),
                         [{f'p{i}': v for i, v in enumerate(row)} for row in data[name]])
    conn.commit()
    try:
        check_statement(ctx, conn, sa, dslgen.norm(witness['ast']), data, 'replay')
    finally:
        conn.close()
