"""C15 - served entries reach the pipeline in the query's schema.

Monitors (oracle = plain python lists of lists, written from the property text):
  reader  : the real ``io.Feed.Reader.__call__`` (-> ``_match_entry`` / ``take_columns`` / ``_cast``) on a minimal
            concrete subclass, called directly and through the real ``RowDriver`` / ``TableDriver`` (+ label ``Slicer``)
            actors, with request entries whose columns are every ordering of {query columns, 0-2 extra columns} (all
            orderings while the entry has <= 5 columns, seeded samples above): the result must have exactly the
            query's columns in the query's order, every value of the declared kind and equal to the python cast of the
            value the client sent.
  missing : every arrangement lacking one (or two) required columns - shorter, same length (replaced by an extra
            column) and longer - must raise (any exception counts as a refusal; the type is only noted).
  dupes   : an entry schema with a duplicated column name must be refused somewhere (schema construction or reader).
  slicer  : the real ``Slicer`` (built by ``Slicer.from_columns`` and with explicit random index selections, scalar and
            vector labels) against list slicing.
  tabular : ``Dense`` (from_rows / from_columns) and ``Frame`` (default and shuffled index / integer column labels):
            ``to_rows`` / ``to_columns`` (len, iteration, item and slice access) and ``take_rows`` / ``take_columns``
            for ALL index lists up to length 4 (repeats, empty) plus seeded longer ones, and chained selections.

Oracle relaxations (the property does not say more):
  * values are compared with ``==`` after unwrapping numpy scalars; the *type* of a cell is checked on the column
    view only (a pandas row of an int and a float column is legitimately widened to float);
  * ``Float`` accepts any real number (forml: ``Float.__type__ = numbers.Real`` so ``7`` is left alone), ``Date``
    accepts ``datetime.date`` subclasses;
  * a table with zero rows may or may not remember its column count (and vice versa) - a plain ``[]`` does not either;
  * only loss-less casts are generated (``'5'``->5, ``3.0``->3, ``5``->``'5'``, ISO date strings, 0/1->bool).

Findings (one directed case each, every run; classifiers are narrow):
  * ``cast-skipped-entry-not-in-query-order`` (fixed in /repo by 528f1d8, reported again on regression) -
    ``Reader._cast`` paired the query field with the field at the same
    position of the *unpermuted* entry schema; keyed only when the value arrived uncast, a cast was needed, the column
    was moved and the positionally paired entry kind matches the query kind (any other uncast value gets
    ``value-not-cast-to-declared-kind``).
  * ``frame-row-view-rounds-big-int-next-to-float-column`` - ``Frame.Rows`` item = ``iloc`` row, widened to float64 by
    pandas; keyed only when the column view is exact and every differing cell is an int beyond 2**53 returned as
    ``float(int)``.
"""
import datetime
import itertools
import numbers

PROPERTY = 'C15'
LEVEL = 'exploration'
RULE = (
    'query schemas of 1-5 columns over 6 kinds (some aliased) x entry arrangements = every ordering of (query columns '
    'minus 0-2 missing) + 0-2 extra columns while the entry has <= 5 columns, seeded samples of longer ones, plus '
    'duplicate names x per-column entry kind (same or one that needs a cast) x tabular implementation (Dense, Frame, '
    'Frame with shuffled index) x route (direct call, RowDriver, TableDriver, TableDriver+Slicer) x random rows; '
    'tabular part: matrices up to 4x4 (thorough 6x6) x 4 constructions x all index lists of length <= 4 on both axes '
    'plus random longer lists and chains. distinct = distinct (query kinds, arrangement, entry kinds, implementation, '
    'route) resp. (shape, construction, axis, index list); non-trivial = arrangement differs from the query order or '
    'a cast is needed or a column is missing / duplicated, resp. index list is not the identity'
)
ASSUMPTIONS = [
    'the harness Reader subclass only supplies the abstract parser/read members (never reached with an entry); '
    '__call__, _match_entry, _cast and the drivers are the real forml code',
    'entry data conform to the entry schema (as the decoders infer the schema from the data)',
    'casts are judged by python semantics on loss-less conversions only',
]
MANIFEST = {
    'text': 'Exploration: the real Reader entry path, RowDriver/TableDriver/Slicer actors and both Tabular '
            'implementations are run on enumerated column arrangements (all orderings up to 5 entry columns, every '
            'missing column, duplicate names, kinds needing casts) and on all index lists up to length 4, and compared '
            'with plain list-of-lists semantics. Holds on the inputs observed - not a proof.',
    'design_ref': 'DESIGN.md section 5 / C15',
    'note': 'Trusted: the list-of-lists oracle and the cast table in checks/c15.py (~60 lines).',
    'technique': 'runtime monitoring: generated-input differential oracle on the live reader / tabular classes',
}
KINDS = ['int', 'float', 'str', 'date', 'bool', 'ts']
#: query kind -> entry kinds a client may send (first = no cast needed)
FEEDS = {
    'int': ['int', 'str', 'float', 'bool'],
    'float': ['float', 'str', 'int'],
    'str': ['str', 'int', 'float'],
    'date': ['date', 'str'],
    'bool': ['bool', 'int'],
    'ts': ['ts', 'str', 'date'],
}
QNAMES = ['a', 'b', 'c', 'd', 'e']
XNAMES = ['x', 'y']
IMPLS = ['dense', 'frame', 'frame-idx']
ROUTES = ['direct', 'row', 'table', 'slicer']
KNOWN_CAST_KEY = 'cast-skipped-entry-not-in-query-order'
KNOWN_WIDEN_KEY = 'frame-row-view-rounds-big-int-next-to-float-column'


def shards(tier):
    return 8 if tier == 'quick' else 16


def floors(tier):
    """About 70 % of what the unchanged tree reaches (the enumerated part is deterministic, the rest seeded)."""
    if tier == 'quick':
        return {'reader_checked': 2400, 'perm_checked': 550, 'superset_checked': 1800, 'cast_cells_checked': 12000,
                'missing_checked': 2500, 'dupes_checked': 250, 'driver_checked': 3500, 'slicer_checked': 1200,
                'take_checked': 6000, 'view_checked': 9000, 'view_items_checked': 1400, 'negative_index_lists': 500,
                'out_of_range_checked': 250}
    return {'reader_checked': 70000, 'perm_checked': 6000, 'superset_checked': 62000, 'cast_cells_checked': 450000,
            'missing_checked': 21000, 'dupes_checked': 2200, 'driver_checked': 65000, 'slicer_checked': 29000,
            'take_checked': 75000, 'view_checked': 90000, 'view_items_checked': 18000, 'negative_index_lists': 20000,
            'out_of_range_checked': 1000}


# ---------------------------------------------------------------- value coding (witnesses are JSON)
def enc(value):
    if isinstance(value, datetime.datetime):
        return {'t': value.isoformat(sep=' ')}
    if isinstance(value, datetime.date):
        return {'d': value.isoformat()}
    return value


def dec(value):
    if isinstance(value, dict):
        if 't' in value:
            return datetime.datetime.fromisoformat(value['t'])
        return datetime.date.fromisoformat(value['d'])
    return value


# ---------------------------------------------------------------- oracle
PYTYPE = {
    'int': numbers.Integral,
    'float': numbers.Real,
    'str': str,
    'date': datetime.date,
    'bool': bool,
    'ts': datetime.datetime,
}


def convert(raw, kind):
    """The python cast of a client value to the declared kind (loss-less inputs only)."""
    if kind == 'int':
        return int(raw)
    if kind == 'float':
        return float(raw) if isinstance(raw, str) else raw
    if kind == 'str':
        return raw if isinstance(raw, str) else str(raw)
    if kind == 'date':
        return raw if isinstance(raw, datetime.date) else datetime.date.fromisoformat(raw)
    if kind == 'bool':
        return bool(raw)
    if isinstance(raw, datetime.datetime):
        return raw
    if isinstance(raw, datetime.date):
        return datetime.datetime.combine(raw, datetime.time())
    return datetime.datetime.fromisoformat(raw)


def kind_matches(qkind, ekind):
    """forml's ``expected.kind.match(actual.kind)`` for the kinds used here (Timestamp is a Date)."""
    return qkind == ekind or (qkind == 'date' and ekind == 'ts')


def unwrap(value):
    item = getattr(value, 'item', None)
    if item is not None and type(value).__module__ == 'numpy':
        return item()
    return value


def category(value):
    if isinstance(value, bool):
        return 'bool'
    if isinstance(value, numbers.Real):
        return 'num'
    if isinstance(value, str):
        return 'str'
    if isinstance(value, datetime.date):
        return 'date'
    return type(value).__name__


def cell_equal(observed, expected):
    observed = unwrap(observed)
    if category(observed) != category(expected):
        return False
    try:
        return bool(observed == expected)
    except Exception:  # pylint: disable=broad-except
        return False


def lists(view):
    """A row/column view (or a plain sequence of sequences) as a list of lists."""
    return [[unwrap(v) for v in item] for item in view]


def matrix_equal(observed, expected):
    return len(observed) == len(expected) and all(
        len(o) == len(e) and all(cell_equal(x, y) for x, y in zip(o, e)) for o, e in zip(observed, expected)
    )


def transpose(rows, width):
    return [[row[j] for row in rows] for j in range(width)]


# ---------------------------------------------------------------- case generation (reader part)
def gen_raw(rng, qkind, ekind, colid):
    """A value the client sends in a column declared ``ekind`` that casts loss-lessly to ``qkind``; values carry the
    column identity so that a misrouted column cannot go unnoticed."""
    base = (colid + 1) * 1000 + rng.randint(0, 999)
    if qkind == 'int' and ekind == 'bool':  # JSON true / false sent for a field declared Integer
        return rng.random() < 0.5
    if qkind == 'int':
        number = base * rng.choice([1, -1])
        return number if ekind == 'int' else str(number) if ekind == 'str' else float(number)
    if qkind == 'float':
        if ekind == 'int':
            return base
        number = base + rng.choice([0.0, 0.25, 0.5, 0.75])
        return number if ekind == 'float' else repr(number)
    if qkind == 'str':
        if ekind == 'str':
            return rng.choice([f'{QNAMES[colid]}{base}', str(base), f'{base} {QNAMES[colid]}'])
        if ekind == 'float' and rng.random() < 0.4:
            # whole numbers from a tiny pool, sent as JSON integers or floats: equal values of different types in one column
            whole = (colid + 1) * 1000 + rng.randint(0, 2)
            return rng.choice([whole, float(whole)])
        return base if ekind == 'int' else base + rng.choice([0.25, 0.5])
    if qkind == 'bool':
        flag = rng.random() < 0.5
        return flag if ekind == 'bool' else int(flag)
    day = datetime.date(2001 + colid, rng.randint(1, 12), rng.randint(1, 28))
    if qkind == 'date':
        return day if ekind == 'date' else day.isoformat()
    stamp = datetime.datetime(day.year, day.month, day.day, rng.randint(0, 23), rng.randint(0, 59), rng.randint(0, 59))
    if ekind == 'date':
        return day
    return stamp if ekind == 'ts' else stamp.isoformat(sep=' ')


def gen_extra(rng, kind, slot):
    base = 90000 + slot * 1000 + rng.randint(0, 999)
    if kind == 'int':
        return base
    if kind == 'float':
        return base + 0.5
    if kind == 'str':
        return f'x{base}'
    if kind == 'bool':
        return rng.random() < 0.5
    day = datetime.date(1990 + slot, rng.randint(1, 12), rng.randint(1, 28))
    return day if kind == 'date' else datetime.datetime(day.year, day.month, day.day, 1, 2, 3)


def arrangements(nquery, rng, sample):
    """Yield (tokens, exhaustive?) - tokens are query column indices or 'x'/'y' extras in entry order."""
    for missing in range(0, min(2, nquery) + 1):
        for dropped in itertools.combinations(range(nquery), missing):
            kept = [i for i in range(nquery) if i not in dropped]
            for extras in range(0, 3):
                tokens = kept + XNAMES[:extras]
                if not tokens:
                    continue
                if len(tokens) <= 5:
                    for order in itertools.permutations(tokens):
                        yield list(order)
                else:
                    for _ in range(sample):
                        order = list(tokens)
                        rng.shuffle(order)
                        yield order


def build_case(rng, nquery, tokens):
    qkinds = [rng.choice(KINDS) for _ in range(nquery)]
    aliased = [rng.random() < 0.2 for _ in range(nquery)]
    query = [[QNAMES[i], qkinds[i], f'q_{QNAMES[i]}' if aliased[i] else None] for i in range(nquery)]
    if rng.random() < 0.25:
        # an output named like the positional key of an un-named schema field (``_1`` is what an un-aliased expression at
        # position 1 is called - and what the second field of any entry schema answers to as an attribute)
        victim = rng.randrange(nquery)
        query[victim][2] = f'_{rng.choice([victim, (victim + 1) % max(2, nquery), 0, 1])}'
    cast_bias = rng.choice([0.0, 0.5, 0.5, 1.0])
    entry = []
    makers = []
    for token in tokens:
        if isinstance(token, int):
            qkind = qkinds[token]
            ekind = rng.choice(FEEDS[qkind][1:]) if rng.random() < cast_bias else qkind
            entry.append([query[token][2] or query[token][0], ekind])
            makers.append(lambda q=qkind, e=ekind, t=token: gen_raw(rng, q, e, t))
        else:
            ekind = rng.choice(KINDS)
            entry.append([token, ekind])
            makers.append(lambda e=ekind, s=XNAMES.index(token): gen_extra(rng, e, s))
    rows = [[enc(make()) for make in makers] for _ in range(rng.randint(1, 4))]
    route = rng.choice(ROUTES)
    case = {'kind': 'reader', 'q': query, 'entry': entry, 'rows': rows, 'impl': rng.choice(IMPLS), 'route': route}
    if case['impl'] != 'dense':
        # a client's data frame holds a Float-declared column as floats: what it sends for a whole number IS a float
        floats = [j for j, (_, ekind) in enumerate(entry) if ekind == 'float']
        case['rows'] = [[float(v) if j in floats and isinstance(v, int) and not isinstance(v, bool) else v for j, v in enumerate(row)]
                        for row in rows]
    if route == 'slicer':
        if nquery < 2:
            case['route'] = 'table'
        else:
            width = rng.randint(1, nquery - 1)
            case['labels'] = ['scalar', 1] if width == 1 and rng.random() < 0.6 else ['vector', width]
    return case


# ---------------------------------------------------------------- forml side
class Lib:
    """Lazily imported forml handles + the minimal concrete reader."""

    def __init__(self):
        import numpy
        import pandas

        import forml
        from forml import io
        from forml.io import dsl, layout
        from forml.io._input import extract

        self.numpy, self.pandas, self.forml, self.io, self.dsl, self.layout, self.extract = (
            numpy, pandas, forml, io, dsl, layout, extract)

        class Reader(io.Feed.Reader):
            """Only the abstract members are supplied; they must never be reached when an entry is given."""

            calls = 0

            @classmethod
            def parser(cls, sources, features):
                Reader.calls += 1
                raise AssertionError('parser reached although an entry was provided')

            @classmethod
            def read(cls, statement, **kwargs):
                Reader.calls += 1
                raise AssertionError('read reached although an entry was provided')

        self.Reader = Reader
        self.reader = Reader({}, {})
        self.kinds = {'int': dsl.Integer(), 'float': dsl.Float(), 'str': dsl.String(), 'date': dsl.Date(),
                      'bool': dsl.Boolean(), 'ts': dsl.Timestamp()}

    def schema(self, columns):
        return self.dsl.Schema.from_fields(*(self.dsl.Field(self.kinds[k], name=n) for n, k in columns))

    def tabular(self, impl, rows, names):
        if impl == 'dense':
            return self.layout.Dense.from_rows(rows)
        if impl == 'dense-cols':
            return self.layout.Dense.from_columns(transpose(rows, len(rows[0]) if rows else 0))
        frame = self.pandas.DataFrame({i: [row[i] for row in rows] for i in range(len(names))})
        frame.columns = list(names)
        if impl == 'frame-idx':
            frame.index = [(len(rows) - i) * 2 + 5 for i in range(len(rows))]  # unique, descending, not 0..n-1
        return self.layout.Frame(frame)


def statement_of(lib, case):
    """(statement, number of feature columns | None, label spec) for the query of a case - real DSL objects."""
    dsl = lib.dsl
    table = dsl.Table(lib.dsl.Schema.from_fields(
        *(dsl.Field(lib.kinds[k], name=n) for n, k, _ in case['q']), dsl.Field(dsl.Integer(), name='unused'), title='T'))
    features = [table[n].alias(a) if a else table[n] for n, _, a in case['q']]
    if case['route'] != 'slicer':
        return table.select(*features), None
    mode, width = case['labels']
    split = len(features) - width
    labels = features[split] if mode == 'scalar' else features[split:]
    columns, slicer = lib.extract.Slicer.from_columns(features[:split], labels)
    return table.select(*columns), slicer


def classify_cell(case, qindex, observed, expected, raw, srcpos):
    """Mechanism key for a wrong cell of an accepted entry."""
    qkind = case['q'][qindex][1]
    ekinds = [k for _, k in case['entry']]
    del expected
    if cell_equal(observed, raw):  # the client's value arrived uncast
        positional = ekinds[qindex] if qindex < len(ekinds) else None
        needed = not kind_matches(qkind, ekinds[srcpos])
        if needed and srcpos != qindex and positional is not None and kind_matches(qkind, positional):
            # _cast paired the query field with the field at the same *position* of the (unpermuted) entry schema
            return KNOWN_CAST_KEY
        return 'value-not-cast-to-declared-kind'
    return 'value-differs-from-cast-of-sent-value'


def check_reader(ctx, lib, case):
    ctx.count('evaluations')
    qnames = [a or n for n, _, a in case['q']]
    qkinds = [k for _, k, _ in case['q']]
    enames = [n for n, _ in case['entry']]
    ekinds = [k for _, k in case['entry']]
    rows = [[dec(v) for v in row] for row in case['rows']]
    missing = [n for n in qnames if n not in enames]
    identity = enames == qnames
    needs_cast = any(
        n in enames and not kind_matches(k, ekinds[enames.index(n)]) for n, k in zip(qnames, qkinds))
    signature = ('reader', qkinds, [qnames.index(n) if n in qnames else n for n in enames], ekinds, case['impl'],
                 case['route'], case.get('labels'))
    if not identity or needs_cast:
        ctx.shape(signature)
    statement, slicer = statement_of(lib, case)
    try:
        entry = lib.layout.Entry(lib.schema(case['entry']), lib.tabular(case['impl'], rows, enames))
    except lib.dsl.GrammarError:
        if len(set(enames)) == len(enames):
            raise
        ctx.count('dupes_checked')
        ctx.count('dupes_refused_by_schema')
        return
    prepared = lib.extract.Statement.prepare(statement, None)
    calls = lib.Reader.calls
    try:
        if case['route'] == 'direct':
            table = lib.reader(statement, entry)
            out_rows, out_cols = lists(table.to_rows()), lists(table.to_columns())
        elif case['route'] == 'row':
            ctx.count('driver_checked')
            out_rows = lists(lib.extract.RowDriver.builder(lib.reader, prepared)().apply(entry))
            out_cols = None
        else:
            ctx.count('driver_checked')
            table = lib.extract.TableDriver.builder(lib.reader, prepared)().apply(entry)
            out_rows, out_cols = lists(table.to_rows()), lists(table.to_columns())
            if slicer is not None:
                left, right = slicer().apply(table)
                left = lists(left)
                right = [unwrap(v) for v in right] if case['labels'][0] == 'scalar' else lists(right)
    except Exception as err:  # pylint: disable=broad-except
        if lib.Reader.calls != calls:
            ctx.violation('entry-ignored-storage-queried', f'reader went to the storage although an entry was given: {err!r}',
                          case)
            return
        if missing or len(set(enames)) != len(enames):
            ctx.count('missing_checked' if missing else 'dupes_checked')
            ctx.count('refused')
            ctx.note_set('refusal_types', type(err).__name__)
            return
        ctx.count('reader_checked')
        key = 'complete-entry-refused' if isinstance(err, lib.forml.MissingError) else f'reader-raises-{type(err).__name__}'
        ctx.violation(key, f'entry {case["entry"]} for query {case["q"]} raised {err!r}', case)
        return
    if len(set(enames)) != len(enames):
        ctx.count('dupes_checked')
        ctx.violation('duplicate-names-not-refused', f'entry columns {enames} accepted for query {qnames}', case)
        return
    if missing:
        ctx.count('missing_checked')
        shape = 'shorter' if len(enames) < len(qnames) else 'same-length' if len(enames) == len(qnames) else 'longer'
        ctx.violation(f'missing-column-not-refused-{shape}-entry',
                      f'entry columns {enames} lack {missing} of query {qnames} but produced {out_rows}', case)
        return
    ctx.count('reader_checked')
    ctx.count('perm_checked' if len(enames) == len(qnames) and not identity else
              'superset_checked' if len(enames) > len(qnames) else 'identity_checked')
    source = [enames.index(n) for n in qnames]
    raw = [[row[s] for s in source] for row in rows]
    expected = [[convert(v, k) for v, k in zip(row, qkinds)] for row in raw]
    width = len(qnames)
    if len(out_rows) != len(rows):
        ctx.violation('row-count-differs', f'{len(rows)} rows sent, {len(out_rows)} rows returned', case)
        return
    if any(len(r) != width for r in out_rows) or (out_cols is not None and len(out_cols) != width):
        ctx.violation('width-differs-from-query', f'query has {width} columns, returned rows {out_rows}', case)
        return
    views = [('rows', out_rows)]
    if out_cols is not None:
        views.append(('columns', transpose(out_cols, len(rows))))
    for vname, view in views:
        for i, j in itertools.product(range(len(rows)), range(width)):
            ctx.count('cast_cells_checked' if not kind_matches(qkinds[j], ekinds[source[j]]) else 'plain_cells_checked')
            observed, want = unwrap(view[i][j]), expected[i][j]
            typed = isinstance(observed, PYTYPE[qkinds[j]]) or vname == 'rows' and category(observed) == category(want)
            if typed and cell_equal(observed, want):
                continue
            misrouted = next((c for c in range(width) if c != j and cell_equal(observed, expected[i][c])
                              and category(observed) != 'bool'), None)
            if misrouted is not None:
                key = 'column-misrouted'
            else:
                key = classify_cell(case, j, observed, want, raw[i][j], source[j])
            ctx.violation(key, f'query {case["q"]} entry {case["entry"]} ({case["impl"]}, {case["route"]}): {vname}[{i}][{j}] '
                               f'is {observed!r} ({type(observed).__name__}), expected {want!r} as {qkinds[j]}', case)
            return
    if slicer is not None:
        ctx.count('slicer_checked')
        mode, lwidth = case['labels']
        split = width - lwidth
        want_left = [row[:split] for row in expected]
        want_right = [row[split] for row in expected] if mode == 'scalar' else [row[split:] for row in expected]
        good = matrix_equal(left, want_left) and (
            matrix_equal(right, want_right) if mode == 'vector'
            else len(right) == len(want_right) and all(cell_equal(o, e) for o, e in zip(right, want_right)))
        if not good:
            ctx.violation(f'slicer-{mode}-labels-differ', f'Slicer on {expected} split {split}: {left} / {right}', case)
    if len(ctx.samples) < 3 and not identity and needs_cast:
        ctx.sample({'query': case['q'], 'entry': case['entry'], 'rows': case['rows'], 'impl': case['impl'],
                    'route': case['route'], 'pipeline_rows': [[enc(v) for v in r] for r in out_rows]})


def check_dupes(ctx, lib, rng, nquery):
    """Entries naming a column twice (same or different data) - must be refused somewhere."""
    tokens = list(range(nquery)) + XNAMES[:rng.randint(0, 1)]
    rng.shuffle(tokens)
    case = build_case(rng, nquery, tokens)
    names = [n for n, _ in case['entry']]
    victim = rng.randrange(len(names))
    clone = [names[victim], case['entry'][victim][1]]
    spot = rng.randint(0, len(names))
    case['entry'].insert(spot, clone)
    for row in case['rows']:
        row.insert(spot, row[victim])
    case['route'] = 'direct'
    case.pop('labels', None)
    check_reader(ctx, lib, case)


# ---------------------------------------------------------------- slicer with explicit selections
def check_slicer(ctx, lib, case):
    """case: {'kind': 'slicer', 'rows', 'impl', 'features': [idx], 'labels': idx | [idx]}"""
    ctx.count('evaluations')
    ctx.count('slicer_checked')
    rows = [[dec(v) for v in row] for row in case['rows']]
    names = [f'c{i}' for i in range(len(rows[0]))]
    ctx.shape(('slicer', len(rows), len(names), case['impl'], case['features'], case['labels']))
    table = lib.tabular(case['impl'], rows, names)
    scalar = isinstance(case['labels'], int)
    try:
        left, right = lib.extract.Slicer.builder(case['features'], case['labels'])().apply(table)
        left = lists(left)
        right = [unwrap(v) for v in right] if scalar else lists(right)
    except Exception as err:  # pylint: disable=broad-except
        ctx.violation(f'slicer-raises-{type(err).__name__}', f'Slicer({case["features"]}, {case["labels"]}) raised {err!r}', case)
        return
    want_left = [[row[i] for i in case['features']] for row in rows]
    if scalar:
        good = len(right) == len(rows) and all(cell_equal(o, row[case['labels']]) for o, row in zip(right, rows))
    else:
        good = matrix_equal(right, [[row[i] for i in case['labels']] for row in rows])
    if not matrix_equal(left, want_left):
        ctx.violation('slicer-features-differ', f'Slicer features {case["features"]} of {rows}: {left}', case)
    elif not good:
        ctx.violation(f'slicer-{"scalar" if scalar else "vector"}-labels-differ',
                      f'Slicer labels {case["labels"]} of {rows}: {right}', case)


# ---------------------------------------------------------------- tabular part
CONSTRUCTIONS = ['dense', 'dense-cols', 'frame', 'frame-idx']


def gen_matrix(rng, nrows, ncols):
    makers = []
    for j in range(ncols):
        kind = rng.choice(['int', 'int', 'float', 'str', 'bool', 'date'])
        makers.append(lambda k=kind, s=j: gen_extra(rng, k, s % 9))
    return [[enc(make()) for make in makers] for _ in range(nrows)]


def view_problem(ctx, view, expected, full):
    """Compare one row/column view with the expected list of lists; returns a mechanism suffix or None.
    ``full`` adds item and slice access to len + iteration (Frame views cost one ``iloc`` per item)."""
    ctx.count('view_checked')
    if not expected or not expected[0]:
        # a degenerate table: the emptied axis may or may not remember the extent of the other one
        observed = lists(view)
        if observed == expected or (not expected and observed == [[] for _ in range(len(observed))]) or (
                expected and not expected[0] and observed == []):
            return None
        return 'degenerate'
    if len(view) != len(expected):
        return 'len'
    if not matrix_equal(lists(view), expected):
        return 'iteration'
    if not full:
        return None
    ctx.count('view_items_checked')
    for i, want in enumerate(expected):
        if not matrix_equal([[unwrap(v) for v in view[i]]], [want]):
            return 'item'
    count = len(expected)
    for start, stop in ((0, count), (1, count), (0, count - 1), (1, 2)):
        if not matrix_equal(lists(view[start:stop]), expected[start:stop]):
            return 'slice'
    return None


def apply_ops(table, ops, forms=None):
    """``forms``: per operation None (a list), 'tuple' or a (start, stop, step) triple - the same positions handed over as
    another kind of sequence (the Slicer passes ranges, the reader a tuple)."""
    for slot, (axis, indices) in enumerate(ops):
        form = forms[slot] if forms and slot < len(forms) else None
        if form == 'tuple':
            indices = tuple(indices)
        elif form is not None:
            indices = range(*form)
        table = table.take_rows(indices) if axis == 'rows' else table.take_columns(indices)
    return table


def expect_ops(rows, width, ops):
    for axis, indices in ops:
        if axis == 'rows':
            rows = [rows[i] for i in indices]
        else:
            rows = [[row[i] for i in indices] for row in rows]
            width = len(indices)
    return rows, width


def probe_tabular(ctx, lib, impl, rows, names, ops, full, forms=None):
    """None if the table after ``ops`` agrees with the list semantics, else (problem, description)."""
    want_rows, width = expect_ops(rows, len(rows[0]), ops)
    try:
        table = apply_ops(lib.tabular(impl, rows, names), ops, forms)
        for where, view, want in (('to_rows', table.to_rows, want_rows),
                                  ('to_columns', table.to_columns, transpose(want_rows, width))):
            problem = view_problem(ctx, view(), want, full)
            if problem is not None:
                return f'{where}-{problem}-differs', f'{where} differs from the expected rows {want_rows}'
    except Exception as err:  # pylint: disable=broad-except
        return f'raises-{type(err).__name__}', f'raised {err!r}'
    return None


def widened_only(lib, case, rows, names, ops):
    """The only disagreement of the row view: integers beyond 2**53 in an all-numeric frame come back as the nearest
    float (pandas widens an int64 + float64 row to float64) while the column view is exact."""
    want_rows, width = expect_ops(rows, len(rows[0]), ops)
    table = apply_ops(lib.tabular(case['impl'], rows, names), ops)
    seen = lists(table.to_rows())
    if len(seen) != len(want_rows) or not matrix_equal(lists(table.to_columns()), transpose(want_rows, width)):
        return False
    hit = False
    for got, want in zip(seen, want_rows):
        if len(got) != len(want) or not any(isinstance(v, float) for v in want):
            return False
        for observed, expected in zip(got, want):
            if cell_equal(observed, expected):
                continue
            if (isinstance(expected, int) and not isinstance(expected, bool) and abs(expected) > 2 ** 53
                    and isinstance(observed, float) and observed == float(expected)):
                hit = True
                continue
            return False
    return hit


def check_tabular(ctx, lib, case):
    """case: {'kind': 'tabular', 'rows', 'impl', 'ops': [[axis, [idx...]], ...]} - ops may be empty (plain views)."""
    ctx.count('evaluations')
    ctx.count('take_checked', len(case['ops']))
    rows = [[dec(v) for v in row] for row in case['rows']]
    nrows, ncols = len(rows), len(rows[0])
    # integer column labels that disagree with the positions for the shuffled frame
    names = [f'c{i}' for i in range(ncols)] if case['impl'] != 'frame-idx' else [(i + 1) % ncols for i in range(ncols)]
    ops = [(axis, list(indices)) for axis, indices in case['ops']]
    forms = [tuple(f) if isinstance(f, list) else f for f in case.get('forms') or []]
    for (axis, indices), form in zip(ops, forms):
        assert form in (None, 'tuple') or list(range(*form)) == indices, (form, indices)
    if any(f is not None for f in forms):
        ctx.count('non_list_selectors')
    trivial = all(indices == list(range(nrows if axis == 'rows' else ncols)) for axis, indices in ops)
    if not trivial:
        ctx.shape(('tabular', nrows, ncols, case['impl'], ops, tuple(forms)))
    full = sum(len(i) for _, i in ops) <= 2 or case.get('full', False)
    if probe_tabular(ctx, lib, case['impl'], rows, names, ops, full, forms) is None:
        return
    # mechanism = the first operation of the chain after which the table disagrees (structural, not the whole chain)
    for size in range(len(ops) + 1):
        found = probe_tabular(ctx, lib, case['impl'], rows, names, ops[:size], True, forms)
        if found is not None:
            break
    if case['impl'].startswith('frame') and found[0].startswith('to_rows') and widened_only(lib, case, rows, names, ops[:size]):
        ctx.violation(KNOWN_WIDEN_KEY, f'{case["impl"]} of {rows} after {ops[:size]}: the row view returns integers beyond '
                                       f'2**53 as rounded floats (column view is exact)', case)
        return
    operation = 'views' if size == 0 else f'take_{ops[size - 1][0]}'
    flavour = ''
    if size:
        indices = ops[size - 1][1]
        before_rows, before_width = expect_ops(rows, ncols, ops[:size - 1])
        flavour = ('-empty-selection' if not indices else '-of-emptied-table' if not before_rows or not before_width
                   else '')
        if size <= len(forms) and forms[size - 1] is not None:
            flavour += '-by-tuple' if forms[size - 1] == 'tuple' else '-by-range'
    ctx.violation(f'tabular-{case["impl"].split("-")[0]}-{operation}{flavour}-{found[0]}',
                  f'{case["impl"]} of {rows} after {ops[:size]}: {found[1]}', case)


def index_lists(extent, longest):
    for size in range(longest + 1):
        yield from (list(c) for c in itertools.product(range(extent), repeat=size))


def signed_index_lists(extent, longest):
    """Index lists with at least one negative position (counted from the end, as for any python / numpy matrix)."""
    for size in range(1, longest + 1):
        for combo in itertools.product(range(-extent, extent), repeat=size):
            if min(combo) < 0:
                yield list(combo)


def check_out_of_range(ctx, lib, case):
    """A position outside the axis is an error in plain matrix semantics - never another row / column."""
    ctx.count('evaluations')
    ctx.count('out_of_range_checked')
    rows = [[dec(v) for v in row] for row in case['rows']]
    ncols = len(rows[0])
    names = [f'c{i}' for i in range(ncols)] if case['impl'] != 'frame-idx' else [(i + 1) % ncols for i in range(ncols)]
    axis, indices = case['ops'][0]
    forms = [tuple(f) if isinstance(f, list) else f for f in case.get('forms') or []]
    ctx.shape(('out-of-range', len(rows), ncols, case['impl'], axis, tuple(indices), tuple(forms)))
    try:
        table = apply_ops(lib.tabular(case['impl'], rows, names), [(axis, list(indices))], forms)
        seen = lists(table.to_rows())
    except Exception:  # pylint: disable=broad-except
        return
    ctx.violation(f'tabular-{case["impl"].split("-")[0]}-take_{axis}-out-of-range-accepted' + ('-by-range' if forms and forms[0] not in (None, 'tuple') else ''),
                  f'{case["impl"]} of {rows}: take_{axis}({indices}) with a position outside the axis returned {seen}', case)


# ---------------------------------------------------------------- workload
DIRECTED = {
    'kind': 'reader', 'q': [['a', 'int', None], ['b', 'int', None]], 'entry': [['b', 'str'], ['a', 'int']],
    'rows': [['5', 7]], 'impl': 'dense', 'route': 'direct',
}


DIRECTED_WIDEN = {'kind': 'tabular', 'rows': [[2 ** 62 + 1, 0.5]], 'impl': 'frame', 'ops': []}


def run(ctx):
    lib = Lib()
    rng = ctx.rng('gen', ctx.shard)
    if ctx.shard == 0:
        check_reader(ctx, lib, dict(DIRECTED))  # the suspected _cast defect (DESIGN section 6), every run
        check_reader(ctx, lib, dict(DIRECTED, entry=[['x', 'int'], ['a', 'int'], ['b', 'str']], rows=[[0, 7, '5']]))
        check_tabular(ctx, lib, dict(DIRECTED_WIDEN))  # 64-bit identifier next to a float column, every run
    # -------- reader: enumerated arrangements, several kind / data draws each
    index = 0
    for nquery in range(1, 6):
        for tokens in arrangements(nquery, ctx.rng('arr', nquery), ctx.pick(60, 400)):
            index += 1
            if not ctx.mine(index):
                continue
            complete = all(i in tokens for i in range(nquery))
            # several kind / data / implementation / route draws per arrangement
            for _ in range(ctx.pick(5, 60) if complete else ctx.pick(1, 6)):
                case = build_case(rng, nquery, tokens)
                check_reader(ctx, lib, case)
                if complete and len(case['entry']) > 1 and rng.random() < 0.5:
                    # the very same fields (names, kinds, values) in another column order through the same long-lived reader
                    order = rng.sample(range(len(case['entry'])), len(case['entry']))
                    again = dict(case, entry=[case['entry'][i] for i in order], rows=[[row[i] for i in order] for row in case['rows']])
                    ctx.count('same_fields_reordered')
                    check_reader(ctx, lib, again)
    ctx.note_max('arrangements_enumerated', index)
    for _ in range(ctx.pick(40, 200)):
        check_dupes(ctx, lib, rng, rng.randint(1, 5))
    # -------- slicer with arbitrary selections
    for _ in range(ctx.pick(150, 1500)):
        nrows, ncols = rng.randint(1, 4), rng.randint(1, 5)
        labels = rng.randrange(ncols) if rng.random() < 0.5 else [rng.randrange(ncols) for _ in range(rng.randint(1, 3))]
        check_slicer(ctx, lib, {
            'kind': 'slicer', 'rows': gen_matrix(rng, nrows, ncols), 'impl': rng.choice(CONSTRUCTIONS),
            'features': [rng.randrange(ncols) for _ in range(rng.randint(1, 4))], 'labels': labels})
    # -------- tabular: all index lists up to length 4 on both axes, for every extent 1-4 x construction; thorough
    # crosses every extent with every extent of the other axis, quick with one (rotating) extent of the other axis
    index = 0
    for extent, axis, (slot, impl) in itertools.product(range(1, 5), ('rows', 'columns'), enumerate(CONSTRUCTIONS)):
        others = range(1, 5) if not ctx.quick else [(extent + slot + (axis == 'rows')) % 4 + 1]
        for other in others:
            nrows, ncols = (extent, other) if axis == 'rows' else (other, extent)
            rows = gen_matrix(ctx.rng('matrix', nrows, ncols, impl), nrows, ncols)
            index += 1
            if ctx.mine(index):
                check_tabular(ctx, lib, {'kind': 'tabular', 'rows': rows, 'impl': impl, 'ops': []})
            for indices in index_lists(extent, 4):
                index += 1
                if ctx.mine(index):
                    check_tabular(ctx, lib, {'kind': 'tabular', 'rows': rows, 'impl': impl, 'ops': [[axis, indices]]})
            for indices in signed_index_lists(extent, ctx.pick(2, 3)):
                index += 1
                if ctx.mine(index):
                    ctx.count('negative_index_lists')
                    check_tabular(ctx, lib, {'kind': 'tabular', 'rows': rows, 'impl': impl, 'ops': [[axis, indices]]})
            # the same positions handed over as a range (forward, backward, strided, counted from the end) or a tuple
            for start, stop, step in itertools.product(range(-extent, extent), range(-extent - 1, extent + 1), (1, -1, 2, -2)):
                triple = (start, stop, step)
                inside = list(range(*triple))
                if not all(-extent <= i < extent for i in inside):
                    continue
                index += 1
                if ctx.mine(index):
                    check_tabular(ctx, lib, {'kind': 'tabular', 'rows': rows, 'impl': impl, 'ops': [[axis, inside]], 'forms': [list(triple)]})
            for indices in index_lists(extent, 2):
                index += 1
                if ctx.mine(index):
                    check_tabular(ctx, lib, {'kind': 'tabular', 'rows': rows, 'impl': impl, 'ops': [[axis, indices]], 'forms': ['tuple']})
            for triple in ((0, extent + 1, 1), (extent, extent + 1, 1), (extent - 1, -extent - 2, -1), (-extent - 1, 0, 1)):
                index += 1
                if ctx.mine(index):
                    check_out_of_range(ctx, lib, {'kind': 'out-of-range', 'rows': rows, 'impl': impl,
                                                  'ops': [[axis, list(range(*triple))]], 'forms': [list(triple)]})
            for outside in (extent, extent + 3, -extent - 1, -extent - 4):
                for position in range(3):
                    index += 1
                    if ctx.mine(index):
                        indices = [i % extent for i in range(position)] + [outside] + [0] * (2 - position)
                        check_out_of_range(ctx, lib, {'kind': 'out-of-range', 'rows': rows, 'impl': impl, 'ops': [[axis, indices]]})
    for _ in range(ctx.pick(300, 3000)):
        nrows, ncols = rng.randint(1, ctx.pick(4, 6)), rng.randint(1, ctx.pick(4, 6))
        ops = []
        rcount, ccount = nrows, ncols
        for _ in range(rng.randint(1, 3)):
            axis = rng.choice(['rows', 'columns'])
            extent = rcount if axis == 'rows' else ccount
            if not extent:
                break
            indices = [rng.randrange(extent) for _ in range(rng.choice([0, 1, 2, 3, 5, 8]))]
            if rng.random() < 0.3:  # the same positions counted from the end
                indices = [i - extent if rng.random() < 0.5 else i for i in indices]
            ops.append([axis, indices])
            if axis == 'rows':
                rcount = len(indices)
            else:
                ccount = len(indices)
        check_tabular(ctx, lib, {'kind': 'tabular', 'rows': gen_matrix(rng, nrows, ncols),
                                 'impl': rng.choice(CONSTRUCTIONS), 'ops': ops, 'full': rng.random() < 0.25})
    ctx.sample({'tabular': {'rows': gen_matrix(rng, 2, 3), 'impl': 'frame-idx', 'ops': [['columns', [2, 2, 0]], ['rows', []]]}})


def replay(ctx, witness):
    lib = Lib()
    if witness['kind'] == 'out-of-range':
        check_out_of_range(ctx, lib, witness)
    elif witness['kind'] == 'reader':
        check_reader(ctx, lib, witness)
    elif witness['kind'] == 'slicer':
        check_slicer(ctx, lib, witness)
    else:
        check_tabular(ctx, lib, witness)
