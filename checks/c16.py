"""C16 - concurrent serving never crosses, loses or duplicates responses.

A real ``runtime._service.Engine`` (dispatch wrapper, dealer, prediction executors with spawned/forked worker pools,
pyfunc runners) serves generated projects: 1-3 applications bound by ``application.Explicit`` to distinct generations
with distinct states.  Requests are issued as concurrent ``asyncio`` calls in seeded arrival orders with unique request
ids; model actors sleep a seeded per-request delay so completion order differs from submission order; LINE-level
yield/delay injection (sys.monitoring) perturbs ``Executor.apply/run``, ``Dealer.__call__`` and
``Wrapper._get_descriptor/_dispatch``.  Failing requests (unsupported content type, unsupported accept type, unknown
application, missing feature) are injected at seeded positions; a flush batch follows.

Oracle (client-boundary history; call recorded before ``Engine.apply``, return after): every response must carry
the caller's own request id, the provenance string computed from *its* payload by the states of the generation *its*
application selected, and that instance; a failing request must fail with its own platform error and nothing else may
fail.  Loss is decided in logical steps: a request still pending after a later-submitted flush batch was fully answered.
"""
import asyncio
import collections
import io as stdio
import json
import os
import shutil
import sys
import tempfile
import threading
import time

PROPERTY = 'C16'
LEVEL = 'exploration'
RULE = (
    'engine configurations (1-3 applications x distinct generations, pool sizes 1-4) x concurrent batches of 1-64 '
    'requests in seeded arrival orders with seeded per-request worker delays, yield injection in the dispatch/executor '
    'threads and failing requests at seeded positions; distinct = distinct (configuration, batch size, failure pattern, '
    'observed completion permutation); non-trivial = batches of >=2 concurrent requests'
)
ASSUMPTIONS = [
    'the OS scheduler plus injected yields/delays produce the interleavings; they are sampled, not enumerated',
    'requests use application/json (row dicts) in and text/csv out - the codec pair that works with pandas 3 here',
    'the REST transport itself is not exercised (the engine is driven directly)',
]
MANIFEST = {
    'text': 'Exploration: a real serving engine with forked worker pools answers seeded concurrent request batches with '
            'injected delays, thread yields and failing requests; a client-boundary history with unique request ids and '
            'state-revealing payloads is checked for crossed, lost, duplicated or mis-routed responses.',
    'design_ref': 'DESIGN.md section 5 / C16',
    'note': 'Trusted: string-provenance actors, history checker; interleavings reached depend on the scheduler.',
    'technique': 'runtime monitoring: client-boundary history checking with unique ids under delay/yield/fault injection',
}
TIMEOUT = {'quick': 1500, 'thorough': 7200}
BATCH_WATCHDOG = 150


def shards(tier):
    return 2 if tier == 'quick' else 12


def floors(tier):
    scale = 1 if tier == 'quick' else 12
    return {'evaluations': 120 * scale, 'responses_checked': 100 * scale, 'failing_requests_injected': 10 * scale,
            'failing_alone_confirmed': 10 * scale, 'batches': 6 * scale, 'out_of_order_batches': 1, 'cold_start_requests': 3, 'cold_dispatch_checked': 100,
            'yield_injections': 50}


class Yielder:
    """sys.monitoring LINE hook: seeded sleep(0)/sub-ms sleeps inside the named functions; counts interleaving switches."""

    TOOL = 3
    HOT = ('_get_descriptor',)

    def __init__(self, rng, functions):
        self.rng = rng
        self.codes = [f.__code__ for f in functions]
        self.lock = threading.Lock()
        self.count = 0
        self.last = None
        self.switches = 0
        self.signature = 0

    def __enter__(self):
        mon = sys.monitoring
        mon.use_tool_id(self.TOOL, 'verif-c16')
        mon.register_callback(self.TOOL, mon.events.LINE, self._line)
        for code in self.codes:
            mon.set_local_events(self.TOOL, code, mon.events.LINE)
        return self

    def __exit__(self, *_):
        mon = sys.monitoring
        for code in self.codes:
            mon.set_local_events(self.TOOL, code, 0)
        mon.register_callback(self.TOOL, mon.events.LINE, None)
        mon.free_tool_id(self.TOOL)

    def _line(self, code, line):
        with self.lock:
            self.count += 1
            who = (threading.get_ident(), code.co_name)
            if who != self.last:
                self.switches += 1
                self.signature = hash((self.signature, code.co_name, threading.current_thread().name[:8])) & 0xFFFFFFFF
                self.last = who
            roll = self.rng.random()
        if code.co_name in self.HOT:  # check-then-act sequences on shared caches: widen every window
            if roll < 0.6:
                time.sleep(0.001)
        elif roll < 0.15:
            time.sleep(0)
        elif roll < 0.2:
            time.sleep(0.0005)


def build_world(workdir, config, salt):
    """Registry + inventory built by a separate process (vlib.serving); returns the expectation table."""
    import subprocess

    from vlib import core

    job = os.path.join(workdir, 'world.json')
    with open(job, 'w', encoding='utf-8') as fd:
        json.dump({'workdir': workdir, 'config': config, 'salt': salt}, fd)
    env = dict(os.environ, PYTHONPATH=os.pathsep.join([core.REPO, core.VERIF]))
    proc = subprocess.run([sys.executable, '-m', 'vlib.serving', job], env=env, cwd=workdir, capture_output=True, text=True,
                          timeout=900, check=False)
    if proc.returncode != 0:
        raise core.Inconclusive(f'world builder failed: {proc.stderr[-600:]}')
    apps = {}
    for p, (project, actors, generations) in enumerate(config['projects']):
        nonces = [f'{project}g{g + 1}n{salt}' for g in range(generations)]
        for app, generation in config['apps'][p]:
            apps[app] = {'project': project, 'generation': generation, 'actors': actors, 'nonce': nonces[generation - 1]}
    return os.path.join(workdir, 'registry'), os.path.join(workdir, 'inventory'), apps


def make_request(layout, rid, tag, kind):
    """kind: ok | bad-content-type | bad-accept | missing-feature."""
    row = {'rid': rid, 'tag': tag}
    if kind == 'missing-feature':
        row = {'rid': rid}
    encoding = layout.Encoding('application/x-verif') if kind == 'bad-content-type' else layout.Encoding('application/json')
    accept = [layout.Encoding('image/png')] if kind == 'bad-accept' else [layout.Encoding('text/csv')]
    return layout.Request(json.dumps([row]).encode(), encoding, {}, accept)


def quiescence(samples=16, pause=0.5):
    """Is anything of this process tree still working on something?  A logical observation, not a deadline: every thread
    of this process (but the calling one) and of every descendant (manager, pool and worker processes) is sampled from
    /proc - its scheduler state and its CPU clock.  -> (quiescent, description): quiescent when in every sample every
    thread sleeps and the CPU clocks of the whole tree advanced by no more than what idle polling loops cost."""
    me = os.getpid()
    mine = threading.get_native_id()

    def snapshot():
        parents = {}
        for entry in os.listdir('/proc'):
            if entry.isdigit():
                try:
                    with open(f'/proc/{entry}/stat', encoding='ascii', errors='replace') as fd:
                        fields = fd.read().rsplit(')', 1)[1].split()
                    parents[int(entry)] = int(fields[1])
                except (OSError, IndexError, ValueError):
                    continue
        tree = {me}
        grown = True
        while grown:
            grown = False
            for pid, ppid in parents.items():
                if ppid in tree and pid not in tree:
                    tree.add(pid)
                    grown = True
        states, ticks = [], 0
        for pid in tree:
            try:
                tasks = os.listdir(f'/proc/{pid}/task')
            except OSError:
                continue
            for tid in tasks:
                if pid == me and int(tid) == mine:
                    continue
                try:
                    with open(f'/proc/{pid}/task/{tid}/stat', encoding='ascii', errors='replace') as fd:
                        fields = fd.read().rsplit(')', 1)[1].split()
                except (OSError, IndexError):
                    continue
                states.append(fields[0])
                ticks += int(fields[11]) + int(fields[12])
        return len(tree), states, ticks

    busy = 0
    nproc, _, first = snapshot()
    last = first
    for _ in range(samples):
        time.sleep(pause)
        nproc, states, last = snapshot()
        busy += sum(1 for state in states if state not in 'SIZTt')
    spent = last - first
    # idle polling (queue.get(timeout=1) in workers, result polling in executors) costs about one 10 ms tick per second for the whole tree; work on a request costs orders of magnitude more
    quiet = busy == 0 and spent <= samples * pause * 5
    return quiet, f'{nproc} processes, {busy} running-thread sightings in {samples} samples, {spent} CPU ticks in {samples * pause:.0f}s'


async def run_batch(ctx, engine, layout, apps, batch, history):
    """Issue the batch concurrently; history[rid] = dict(call, ret, outcome)."""
    order = []

    async def one(spec):
        rid, app, tag, kind = spec
        history[rid] = {'spec': spec, 'call': time.monotonic(), 'ret': None, 'outcome': None}
        try:
            response = await engine.apply(app, make_request(layout, rid, tag, 'ok' if kind == 'unknown-app' else kind))
            history[rid]['outcome'] = ('ok', response.payload.data.decode(), str(response.instance), response.payload.encoding.kind)
        except BaseException as err:  # pylint: disable=broad-except
            if isinstance(err, asyncio.CancelledError):
                raise
            history[rid]['outcome'] = ('err', type(err).__name__, str(err)[:200])
        history[rid]['ret'] = time.monotonic()
        order.append(rid)

    tasks = [asyncio.ensure_future(one(spec)) for spec in batch]
    done, pending = await asyncio.wait(tasks, timeout=BATCH_WATCHDOG)
    return order, pending


def judge(ctx, apps, history, batch, order, config_sig, cold=False):
    """Check every completed request of the batch against the oracle."""
    import forml

    platform_errors = {'bad-content-type': 'Unsupported', 'bad-accept': 'Unsupported', 'unknown-app': 'MissingError',
                       'missing-feature': 'MissingError'}
    from vlib import serving

    all_expected = {}
    for rid, app, tag, kind in batch:
        if kind == 'ok':
            info = apps[app]
            all_expected[rid] = serving.expected_tag(info['actors'], info['nonce'], tag)
    for rid, app, tag, kind in batch:
        record = history[rid]
        if record['outcome'] is None:
            continue
        ctx.count('evaluations')
        witness = {'config': config_sig, 'request': [rid, app, tag, kind], 'outcome': record['outcome'],
                   'batch': [list(b) for b in batch][:80]}
        if kind == 'ok':
            ctx.count('responses_checked')
            if record['outcome'][0] != 'ok':
                neighbours = [k for _, _, _, k in batch if k != 'ok']
                key = 'healthy-request-failed-next-to-failing-one' if neighbours else 'healthy-request-failed'
                if cold and record['outcome'][1] in ('MissingError', 'KeyError') and app in str(record['outcome'][2]):
                    key = 'cold-start-descriptor-lookup-race'
                ctx.violation(key, f'request {rid} to {app} failed with {record["outcome"][1:]} (failing neighbours: '
                              f'{sorted(set(neighbours))})', witness)
                continue
            _, body, instance, _ = record['outcome']
            rows = [line.split(',', 1) for line in body.strip().splitlines()[1:]]
            info = apps[app]
            want_instance = f'{info["project"]}-1-{info["generation"]}'
            if len(rows) != 1:
                ctx.violation('response-row-count', f'request {rid}: {len(rows)} rows in response', witness)
                continue
            got_rid, got_tag = rows[0][0], rows[0][1].strip('"')
            if int(got_rid) != rid or got_tag != all_expected[rid]:
                crossed = [r for r, e in all_expected.items() if r != rid and (str(r) == got_rid or e == got_tag)]
                if crossed:
                    key = 'response-crossed-with-other-request'
                elif int(got_rid) == rid and tag in got_tag:
                    key = 'response-from-wrong-model-state'
                else:
                    key = 'response-corrupted'
                ctx.violation(key, f'request {rid} via {app}: got ({got_rid}, {got_tag}) expected ({rid}, {all_expected[rid]})',
                              witness)
                continue
            if want_instance not in instance:
                ctx.violation('response-instance-mismatch', f'request {rid} via {app}: instance {instance} expected {want_instance}',
                              witness)
        else:
            ctx.count('failing_requests_injected')
            if record['outcome'][0] == 'ok':
                ctx.violation('failing-request-answered', f'{kind} request {rid} was answered: {record["outcome"][1][:80]}', witness)
                continue
            name = record['outcome'][1]
            klass = getattr(forml, name, None) or getattr(__import__('forml.io.layout', fromlist=['x']).Encoding, name, None)
            if platform_errors[kind] != name and not (klass and issubclass(klass, forml.AnyError)):
                ctx.violation('failing-request-wrong-error', f'{kind} request {rid} failed with {name}: {record["outcome"][2]}', witness)
                continue
            ctx.count('failing_alone_confirmed')


def cold_dispatch_rounds(ctx, rng, functions, inventory, registry, apps, layout, config_sig):
    """Concurrent first `Wrapper.extract` calls on fresh wrappers under yield injection."""
    from forml.provider.inventory import posix as invposix
    from forml.provider.registry.filesystem import posix as regposix
    from forml.runtime import _perf
    from forml.runtime._service import dispatch

    appnames = sorted(apps)
    rounds = ctx.pick(25, 60)
    with Yielder(rng, functions):
        for number in range(rounds):
            wrapper = dispatch.Wrapper(invposix.Inventory(inventory), regposix.Registry(registry), 4)
            loop = asyncio.new_event_loop()
            try:
                calls = [(app, 7000 + 100 * number + i) for i, app in enumerate(appnames * rng.randint(2, 4))]
                rng.shuffle(calls)

                async def one(app, rid):
                    try:
                        query = await wrapper.extract(app, make_request(layout, rid, f'c{rid}', 'ok'), _perf.Stats())
                        return app, rid, ('ok', str(query.instance), [list(r) for r in query.decoded.entry.data.to_rows()])
                    except Exception as err:  # pylint: disable=broad-except
                        return app, rid, ('err', type(err).__name__, str(err)[:160])

                async def batch():
                    return await asyncio.gather(*(one(app, rid) for app, rid in calls))

                results = loop.run_until_complete(batch())
                ctx.shape(('cold-dispatch', len(appnames), tuple(app for app, _ in calls)))
            finally:
                loop.close()
                wrapper.shutdown()
            for app, rid, outcome in results:
                ctx.count('evaluations')
                ctx.count('cold_dispatch_checked')
                info = apps[app]
                witness = {'config': config_sig, 'request': [rid, app, f'c{rid}', 'ok'], 'outcome': outcome, 'cold_round': number}
                if outcome[0] != 'ok':
                    key = 'healthy-request-failed'
                    if outcome[1] in ('MissingError', 'KeyError') and app in outcome[2]:
                        key = 'cold-start-descriptor-lookup-race'
                    elif outcome[1] == 'InvalidError' and 'Component setup incomplete' in outcome[2]:
                        key = 'cold-start-descriptor-loaded-concurrently'
                    ctx.violation(key, f'cold dispatch of request {rid} to {app} failed with {outcome[1:]}', witness)
                elif f'{info["project"]}-1-{info["generation"]}' not in outcome[1] or outcome[2] != [[rid, f'c{rid}']]:
                    ctx.violation('cold-dispatch-misrouted', f'cold dispatch of request {rid} to {app} -> {outcome[1:]}', witness)


def serve_config(ctx, config, index):
    from forml import io as fio
    from forml.io import layout
    from forml.provider.inventory import posix as invposix
    from forml.provider.registry.filesystem import posix as regposix
    from forml.runtime._service import Engine, dispatch, prediction
    from vlib import serving

    rng = ctx.rng('config', index)
    salt = f's{ctx.seed}c{index}'
    workdir = tempfile.mkdtemp(prefix='c16-')
    config_sig = {'projects': [(p, a, g) for p, a, g in config['projects']], 'apps': config['apps'], 'pool': config['pool'],
                  'delay_ms': config['delay_ms']}
    try:
        registry, inventory, apps = build_world(workdir, config, salt)
        appnames = sorted(apps)
        functions = [prediction.Executor.apply, prediction.Executor.run, dispatch.Dealer.__call__,
                     dispatch.Wrapper._get_descriptor, dispatch.Wrapper._dispatch]  # pylint: disable=protected-access
        # cold dispatch rounds: fresh wrappers (no executors involved) receive concurrent first requests - the cheap way
        # to sample many interleavings of the lazy descriptor / instance lookups
        cold_dispatch_rounds(ctx, rng, functions, inventory, registry, apps, layout, config_sig)
        engine = Engine(invposix.Inventory(inventory), regposix.Registry(registry), fio.Importer(serving.Feed()),
                        processes=config['pool'])
        history = {}
        rid = 1000 * (index + 1)
        try:
            with Yielder(rng, functions) as yielder:
                loop = asyncio.new_event_loop()
                try:
                    # cold start: the very first requests arrive concurrently (descriptors are looked up and executors
                    # spawned lazily on first use - the interleaving most likely to go wrong)
                    batch = []
                    for app in appnames * 4:
                        rid += 1
                        batch.append((rid, app, f'w{rid}', 'ok'))
                    ctx.count('batches')
                    ctx.count('cold_start_requests', len(batch))
                    order, pending = loop.run_until_complete(run_batch(ctx, engine, layout, apps, batch, history))
                    if pending:
                        flush = []
                        for app in appnames:
                            rid += 1
                            flush.append((rid, app, f'f{rid}', 'ok'))
                        _, stuck = loop.run_until_complete(run_batch(ctx, engine, layout, apps, flush, history))
                        lost = [b for b in batch if history[b[0]]['outcome'] is None]
                        if not stuck and lost:
                            ctx.violation('request-lost', f'{len(lost)} cold-start requests unanswered although a later flush batch was '
                                          f'served: {lost[:3]}', {'config': config_sig, 'lost': lost[:10]})
                        else:
                            quiet, seen = quiescence()
                            if quiet:  # nothing in the whole process tree is working on the requests any more: they are lost
                                ctx.violation('request-lost-engine-idle', f'{len(lost)} cold-start requests and a later flush batch '
                                              f'unanswered while every thread of the engine and its pools sleeps ({seen}): {lost[:3]}',
                                              {'config': config_sig, 'lost': lost[:10]})
                            else:
                                ctx.inconclusive(f'cold-start batch not answered within {BATCH_WATCHDOG}s and the flush batch hung too ({seen})')
                        for task in list(pending) + list(stuck):
                            task.cancel()
                        return
                    judge(ctx, apps, history, batch, order, config_sig, cold=True)
                    for size in config['batches']:
                        batch = []
                        for _ in range(size):
                            rid += 1
                            kind = 'ok'
                            roll = rng.random()
                            if roll < config['fail_rate']:
                                kind = rng.choice(['bad-content-type', 'bad-accept', 'unknown-app', 'missing-feature'])
                            app = 'nosuchapp' if kind == 'unknown-app' else rng.choice(appnames)
                            batch.append((rid, app, f'q{rid}', kind))
                        rng.shuffle(batch)
                        ctx.count('batches')
                        order, pending = loop.run_until_complete(run_batch(ctx, engine, layout, apps, batch, history))
                        if pending:
                            # bounded progress: later-submitted flush requests answered while these are still pending => lost
                            flush = []
                            for app in appnames:
                                rid += 1
                                flush.append((rid, app, f'f{rid}', 'ok'))
                            _, stuck = loop.run_until_complete(run_batch(ctx, engine, layout, apps, flush, history))
                            lost = [b for b in batch if history[b[0]]['outcome'] is None]
                            if not stuck and lost:
                                ctx.violation('request-lost', f'{len(lost)} requests unanswered although a later flush batch was '
                                              f'served: {lost[:3]}', {'config': config_sig, 'lost': lost[:10],
                                                                      'batch': [list(b) for b in batch][:80]})
                            else:
                                quiet, seen = quiescence()
                                if quiet:
                                    ctx.violation('request-lost-engine-idle', f'{len(lost)} requests and a later flush batch unanswered '
                                                  f'while every thread of the engine and its pools sleeps ({seen}): {lost[:3]}',
                                                  {'config': config_sig, 'lost': lost[:10], 'batch': [list(b) for b in batch][:80]})
                                else:
                                    ctx.inconclusive(f'batch of {size} not answered within {BATCH_WATCHDOG}s and the flush batch hung too ({seen})')
                            for task in pending:
                                task.cancel()
                            return
                        judge(ctx, apps, history, batch, order, config_sig)
                        submitted = [b[0] for b in batch if b[3] == 'ok']
                        completed = [r for r in order if r in set(submitted)]
                        if size >= 2 and completed != submitted:
                            ctx.count('out_of_order_batches')
                        kinds = collections.Counter(k for _, _, _, k in batch)
                        perm = tuple(submitted.index(r) for r in completed)
                        ctx.shape((config_sig['pool'], len(appnames), size, tuple(sorted(kinds.items())), perm if size >= 2 else ()))
                        ctx.note_max('largest_batch', size)
                    # flush batch: everything after faults still works
                    batch = []
                    for app in appnames:
                        rid += 1
                        batch.append((rid, app, f'z{rid}', 'ok'))
                    order, pending = loop.run_until_complete(run_batch(ctx, engine, layout, apps, batch, history))
                    if pending:
                        ctx.violation('engine-dead-after-faults', 'flush batch after the workload was not answered',
                                      {'config': config_sig})
                        return
                    judge(ctx, apps, history, batch, order, config_sig)
                finally:
                    loop.close()
                ctx.count('yield_injections', yielder.count)
                ctx.count('thread_switches_seen', yielder.switches)
                ctx.note_set('interleaving_signatures', yielder.signature)
        finally:
            engine.shutdown()
        ctx.sample({'config': config_sig, 'requests': len(history),
                    'example': next((h['outcome'] for h in history.values() if h['outcome'] and h['outcome'][0] == 'ok'), None)})
    finally:
        shutil.rmtree(workdir, ignore_errors=True)


def configs(ctx):
    rng = ctx.rng('configs')
    out = []
    total = ctx.pick(2, 24)
    for i in range(total):
        nproj = 1 if i % 3 == 0 else 2
        projects, apps = [], []
        for p in range(nproj):
            generations = rng.randint(2, 3)
            actors = ['m1', 'm2'][:rng.randint(1, 2)]
            if (i + p) % 2 == 0:  # a fan-out into branches of unequal depth behind the stateful chain
                actors = actors + ['fork:f']
            projects.append((f'p{i}x{p}', actors, generations))
            chosen = rng.sample(range(1, generations + 1), min(generations, rng.randint(1, 2)))
            apps.append([(f'app{i}x{p}g{g}', g) for g in chosen])
        if ctx.quick:
            batches = [1, 2, 8, 24, 40] if i == 0 else [3, 16, 33]
        else:
            batches = [1, 2, 5, 16, 33, 64, 7, 48]
        out.append({'projects': projects, 'apps': apps, 'pool': [2, 1, 3, 4][i % 4], 'delay_ms': rng.choice([1, 2, 4]),
                    'batches': batches, 'fail_rate': 0.18})
    return out


def run(ctx):
    for index, config in enumerate(configs(ctx)):
        if ctx.mine(index):
            serve_config(ctx, config, index)


def replay(ctx, witness):
    """Re-run the whole configuration of the witness (interleavings are not replayable exactly)."""
    cfg = witness['config']
    config = {'projects': [tuple(p) for p in cfg['projects']], 'apps': [[tuple(a) for a in group] for group in cfg['apps']],
              'pool': cfg['pool'], 'delay_ms': cfg['delay_ms'], 'batches': [8, 24, 40], 'fail_rate': 0.18}
    serve_config(ctx, config, 0)
