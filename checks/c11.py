"""C11 - graph construction keeps the topology invariants under any call sequence.

Oracle: an abstract graph model (vlib/c11_model.py: set of links, placeholders transparent) advanced by the call
sequence.  After EVERY call the real graph is read back over all nodes created in the case (constructor wrapper;
``node.output``, ``Worker.input/trained/derived/group``, placeholder registrations) and

* compared with the model state,
* checked against the invariant list of the property on the read-back alone,
* a call whose resulting link set would break an invariant must raise ``flow.TopologyError`` and leave an identical
  (ordered) snapshot; composite calls (``Worker.train``, ``Trunk.extend``, ``Composition``) must not keep a prefix of
  their links when a later link is the one that breaks an invariant,
* tracing a segment must raise when a cycle lies between head and tail (auto-traced tail: anywhere reachable),
* ``flow.Composition`` must refuse a mode segment that starts at a placeholder which still has subscribers.

Deliberately NOT demanded (the property text is silent or forml's behaviour is defensible):
* legal ("open") calls may be refused with TopologyError as long as nothing changed (stateless training, 'Ambiguous
  tail' on diamonds, disconnected tails, simple head/tail rules ...) - only the placeholder-vs-direct differential
  requires legal wiring to succeed;
* a composite call refused for a reason outside the invariant list (e.g. the re-trace after ``extend`` fails) may keep
  the links it already made;
* a placeholder that is the *tail* of a composed segment (or a lone placeholder segment) is ignored by
  ``Segment.accept`` by design ("potential tail Future node is ignored") and is not counted as "still containing
  placeholders" (counted in ``composition_trailing_placeholder_accepted``);
* ``Segment(placeholder, tail)`` where ``tail`` publishes into that placeholder: forml treats the placeholder as equal
  to its publisher (Node.__eq__), i.e. the segment is the single node ``tail`` and the cycle lies beyond it;
* cycles on sink branches / beyond an explicit tail; placeholder-only cycles of length >= 2, Train/Label ports of
  placeholders, out-of-range port numbers and placeholders with szin != szout are never generated (forml only ever
  creates 1x1 placeholders and addresses them through Apply ports).

Mechanism keys are structural: ``accepted-<invariant>-<route>`` (a forbidden link was made; route = direct / via-future /
future-self / publish / train), ``crashed-...`` (forbidden call raised something else than TopologyError),
``partial-<call>`` (composite call kept a prefix), ``failed-call-left-future-residue`` / ``failed-call-partial-collapse``
(refused call through a placeholder changed placeholder bookkeeping / upstream outputs), ``failed-<call>-changed-<fields>``,
``state-mismatch-<call>-<fields>``, ``invariant-<names>``, ``cycle-not-rejected-<autotrace|explicit-tail>``,
``composition-accepted-placeholder-head``, ``finalizer-unregisters-live-subscription``, ``future-wiring-<refused|differs>``,
``order-dependent-result``, ``registry-aliased-worker-to-future`` (any registry symptom while a Future is a key of
``Subscription._PORTS`` and equal - Node.__eq__ - to a worker), ``ambient-<invariant>``.

Finalizer schedules: every sequence runs under one of {prompt, gc.disable(), gc.collect() after every call, 'hold' =
the caller keeps the raised exceptions (tracebacks keep the rejected Subscription alive) and drops them at a later
point of the sequence}.
"""
import json

PROPERTY = 'C11'
LEVEL = 'exploration'
RULE = (
    'call sequences over <=5 workers (+<=3 forks), <=3 placeholders and the nodes made by copy/Trunk: {create worker/'
    'future/fork, subscribe, publish Apply/Train/Label, Worker.train, Segment(head[,tail]), extend, copy, '
    'Segment.subscribe, Trunk, Trunk.extend, Composition}; (a) seeded random sequences of 8-16 calls mixing legal and '
    'illegal calls with retries of refused calls, x4 finalizer schedules; (b) families = fixed 9-call prefix + a set of '
    '3-5 wiring calls run in ALL orders (6+ calls: sampled orders); (c) legal wirings rebuilt through 1-3 chained '
    'placeholders with the elementary connections made in every order (<=5) or sampled orders; distinct = distinct exact '
    'call sequence; non-trivial = at least one accepted wiring call and (a refused call or a placeholder involved); '
    'thorough additionally runs tests/flow, tests/pipeline/{ensemble,payload,wrap/test_operator}, tests/evaluation, '
    'tests/testing, tests/io/_input of the repository with the invariant monitor attached to every port call (ambient)'
)
ASSUMPTIONS = [
    'the abstract model (vlib/c11_model.py) encodes the invariant list of the property text; placeholders are transparent',
    'all node objects of a case stay alive during the case (the registry Subscription._PORTS is finalizer driven); the '
    'registry is cleared between independent cases',
    'placeholders are 1x1 or 2x2 and addressed through Apply ports only; no placeholder-only cycles; ports within range',
    'single-threaded construction, so checking at call exit is sound',
]
MANIFEST = {
    'text': 'Exploration: thousands of generated construction-call sequences (all orders of small call sets, random long '
            'sequences with illegal calls and retries, four finalizer schedules) are executed on the real graph API; after '
            'every call the graph read back from the node objects is compared with an abstract link model and with the '
            'invariant list; refused calls must leave an identical snapshot; placeholder wiring is compared with direct '
            'wiring in every connection order. Holds on the sequences observed - no proof over all sequences.',
    'design_ref': 'DESIGN.md section 5 / C11',
    'note': 'Trusted: vlib/c11_model.py (~200 lines) and the read-back in vlib/c11_driver.py. Legal calls being refused '
            'is only checked through the placeholder-vs-direct differential.',
    'technique': 'runtime monitoring: model-based testing - invariant-at-a-hook after every construction call with an '
                 'executable abstract graph model, schedule (call order / finalizer) enumeration',
}
TIMEOUT = {'quick': 600, 'thorough': 3000}

W = ['worker', False, 1, 1]
S = ['worker', True, 1, 1]
F = ['future', 1]
DIRECTED = [
    # one per mechanism recorded in known_findings (prints its KNOWN-FINDING line on every run) + plain sanity cases
    ('prompt', [W, W, W, F, ['sub', 3, 0, 0, 0], ['sub', 3, 0, 1, 0], ['sub', 2, 0, 3, 0]]),
    ('prompt', [W, W, W, F, ['sub', 2, 0, 3, 0], ['sub', 3, 0, 0, 0], ['sub', 3, 0, 1, 0]]),
    ('prompt', [['worker', False, 1, 2], S, S, ['train', 1, 0, 0, 0, 1], ['train', 2, 0, 0, 1, 0]]),
    ('prompt', [W, F, ['sub', 1, 0, 0, 0], ['sub', 0, 0, 1, 0]]),
    ('prompt', [W, W, W, F, ['sub', 1, 0, 3, 0], ['sub', 2, 0, 3, 0], ['sub', 3, 0, 2, 0]]),
    ('prompt', [F, ['sub', 0, 0, 0, 0]]),
    ('prompt', [F, ['pub', 0, 0, 0, ['A', 0]], S, ['worker', False, 1, 2], ['train', 1, 2, 0, 2, 1], W, ['sub', 3, 0, 0, 0]]),
    ('prompt', [W, F, ['sub', 0, 0, 1, 0], ['sub', 1, 0, 1, 0]]),
    ('prompt', [['worker', False, 1, 2], S, ['fork', 1], ['pub', 0, 0, 1, ['T']], ['pub', 0, 0, 2, ['T']]]),
    ('prompt', [W, ['worker', False, 2, 1], W, W, ['sub', 1, 0, 0, 0], ['sub', 3, 0, 1, 0], ['sub', 2, 0, 1, 0],
                ['sub', 1, 1, 2, 0], ['segment', 0, 3]]),
    ('hold', [['worker', False, 1, 2], S, W, W, W, ['train', 1, 0, 0, 0, 1], ['pub', 1, 0, 2, ['A', 0]],
              ['pub', 3, 0, 2, ['A', 0]], ['release'], ['pub', 4, 0, 2, ['A', 0]]]),
    ('prompt', [W, W, S, ['trunk', ['n', 0], None, None], ['trunk_extend', 0, ['n', 1], ['n', 1], None]]),
    ('prompt', [W, W, W, ['trunk', ['n', 0], ['n', 1], None], ['trunk', ['n', 2], ['n', 2], None], ['compose', [0, 1]]]),
    ('prompt', [W, ['trunk', None, None, None], ['trunk_extend', 0, ['n', 0], None, None], ['compose', [1]]]),
    ('prompt', [W, W, ['sub', 1, 0, 0, 0], ['sub', 0, 0, 1, 0], ['segment', 0, None]]),
    ('prompt', [W, W, ['sub', 1, 0, 0, 0], ['sub', 1, 0, 0, 0], ['segment', 0, None], ['copy', 0], ['extend', 0, None, None]]),
]


def shards(tier):
    return 8 if tier == 'quick' else 16


def floors(tier):
    scale = 1 if tier == 'quick' else 40
    return {
        'evaluations': 3000 * scale, 'calls_checked': 30000 * scale, 'forbidden_refused': 1500 * scale,
        'wiring_calls_accepted': 8000 * scale, 'placeholder_calls_accepted': 1500 * scale, 'permutation_cases': 1000 * scale,
        'futdiff_orders_checked': 400 * scale, 'schedule_gc-off': 150 * scale, 'schedule_gc-each': 150 * scale,
        'schedule_hold': 150 * scale, 'releases_checked': 50 * scale, 'copies_checked': 100 * scale,
        'segments_traced': 1000 * scale, 'compositions_refused_placeholder': 5, 'cycles_rejected': 50 * scale,
        'retries': 300 * scale,
        **({} if tier == 'quick' else {'ambient_calls_checked': 1000, 'ambient_tests': 200}),
    }


def canon(obj):
    if isinstance(obj, (set, frozenset)):
        return '{' + ','.join(sorted(canon(o) for o in obj)) + '}'
    if isinstance(obj, (list, tuple)):
        return '[' + ','.join(canon(o) for o in obj) + ']'
    return repr(obj)


def finish(ctx, case, witness, sample=False):
    """Account a finished case."""
    ctx.count('evaluations')
    stats = case.stats
    ctx.count('calls_checked', len(case.calls))
    ctx.count('forbidden_refused', stats['forbidden_refused'])
    ctx.count('open_refused', stats['open_refused'])
    ctx.count('wiring_calls_accepted', stats['wired'])
    ctx.count('placeholder_calls_accepted', stats['futures_used'])
    ctx.count('copies_checked', stats.get('copies_checked', 0))
    ctx.count('skipped_unspecified', stats['skipped'])
    ctx.count('retries', getattr(case, 'retries', 0))
    ctx.count('schedule_' + case.schedule)
    ctx.count('releases_checked', sum(1 for c in case.calls if c[0] == 'release'))
    ctx.count('segments_traced', sum(1 for c in case.calls if c[0] in ('segment', 'extend', 'copy', 'trunk')))
    for message in case.messages:
        ctx.note_set('refusal_messages', message)
        if message.startswith('Cyclic'):
            ctx.count('cycles_rejected')
        if message.startswith('Future nodes in segment'):
            ctx.count('compositions_refused_placeholder')
    if stats['wired'] and (stats['topo'] or stats['futures_used']):
        ctx.shape(case.calls)
    if case.failed:
        key, what = case.failed
        ctx.violation(key, what, witness)
    elif sample:
        ctx.sample({'schedule': case.schedule, 'calls': case.calls, 'refused': stats['topo']})


def run_sequence(ctx, schedule, calls, sample=False):
    from vlib import c11_driver

    case = c11_driver.Case(schedule)
    try:
        for call in calls:
            if not case.step(call):
                break
        finish(ctx, case, {'mode': 'seq', 'schedule': schedule, 'calls': case.calls}, sample)
    finally:
        case.close()
    return case


def run_futdiff(ctx, spec, order=None, rng=None):
    """Direct wiring vs the same connections through chained placeholders made in every order."""
    from vlib import c11_driver, c11_gen

    def worker_view(case):
        snap = case.real.unordered(case.real.snapshot())
        return [(e[1], e[2], e[3]) for e in snap if e[0] == 'W']

    direct = c11_driver.Case('prompt')
    try:
        for call in spec['creation']:
            direct.step(call)
        for src, oi, dst, port in spec['links']:
            direct.step(['pub', src, oi, dst, port])
        if direct.failed or direct.stats['topo']:
            ctx.count('futdiff_direct_refused')
            return
        wanted = worker_view(direct)
    finally:
        direct.close()
    ctx.count('futdiff_specs')
    candidates = [order] if order is not None else c11_gen.orders(spec['ops'], ctx.pick(12, 40), rng)
    for perm in candidates:
        perm = [list(c) for c in perm]
        case = c11_driver.Case('prompt')
        try:
            for call in spec['creation'] + [['future', w] for w in spec.get('widths', [1] * spec['futures'])]:
                case.step(call)
            witness = {'mode': 'futdiff', 'spec': spec, 'order': perm}
            ctx.count('evaluations')
            ctx.count('futdiff_orders_checked')
            ctx.shape(('futdiff', spec['creation'], perm))
            for call in perm:
                topo = case.stats['topo']
                if not case.step(call):
                    ctx.violation(case.failed[0], case.failed[1], witness)
                    break
                if case.stats['topo'] > topo:
                    ctx.violation('future-wiring-refused', f'{call} refused while the direct wiring {spec["links"]} is legal', witness)
                    break
            else:
                if worker_view(case) != wanted:
                    ctx.violation('future-wiring-differs', f'placeholder wiring in order {perm} gives other worker edges than '
                                                           f'direct wiring {spec["links"]}', witness)
            ctx.count('calls_checked', len(case.calls))
        finally:
            case.close()


AMBIENT = [
    ['tests/flow', 'tests/pipeline/ensemble', 'tests/evaluation', 'tests/pipeline/payload'],
    ['tests/pipeline/wrap/test_operator.py', 'tests/testing', 'tests/io/_input'],
]


def run_ambient(ctx, targets):
    """DESIGN 3.5: the repository's own tests as ambient workload with the invariant monitor attached (pytest plugin)."""
    import os
    import subprocess
    import tempfile

    from vlib import core

    out = os.path.join(tempfile.gettempdir(), f'c11-ambient-{ctx.shard}.json')
    env = dict(os.environ, C11_AMBIENT_OUT=out, PYTHONPATH=os.pathsep.join([core.REPO, core.VERIF]))
    cmd = [core.PYTHON, '-m', 'pytest', '-q', '-p', 'no:cacheprovider', '-p', 'vlib.c11_ambient']
    cmd += [t if os.path.isabs(t) else os.path.join('/repo', t) for t in targets]
    subprocess.run(cmd, env=env, cwd=tempfile.gettempdir(), capture_output=True, text=True, timeout=1500, check=False)
    if not os.path.exists(out):
        raise core.Inconclusive(f'ambient workload produced no report for {targets}')
    with open(out, encoding='utf-8') as fd:
        report = json.load(fd)
    ctx.count('ambient_tests', report['tests'])
    ctx.count('ambient_calls_checked', report['checks'])
    ctx.note_max('ambient_max_live_nodes', report['maxnodes'])
    for item in report['violations']:
        ctx.violation('ambient-' + item['invariant'], f'{item["invariant"]} broken while running {item["test"]}',
                      {'mode': 'ambient', 'test': item['test']})


def run(ctx):
    import gc

    from vlib import c11_driver, c11_gen

    c11_driver.install()
    gc.collect()
    gc.freeze()
    if ctx.shard == 0:
        for schedule, calls in DIRECTED:
            run_sequence(ctx, schedule, calls, sample=True)
    ambient = not ctx.quick and ctx.nshards > len(AMBIENT) and ctx.shard < len(AMBIENT)
    if ambient:
        run_ambient(ctx, AMBIENT[ctx.shard])
    # ---- (a) random sequences (in the thorough tier the shards running the ambient workload skip this part)
    rng = ctx.rng('random', ctx.shard)
    total = 0 if ambient else ctx.pick(3200, 160000) // (ctx.nshards if ctx.quick else ctx.nshards - len(AMBIENT))
    for k in range(total):
        schedule = ('prompt', 'gc-off', 'prompt', 'gc-each', 'hold')[k % 5]
        case = c11_gen.random_case(rng, schedule, rng.choice([8, 12, 12, 16]), avoid=rng.random() < 0.5)
        try:
            finish(ctx, case, {'mode': 'seq', 'schedule': schedule, 'calls': case.calls}, sample=k % 400 == 7)
        finally:
            case.close()
        if k % 64 == 0:
            gc.collect()
    # ---- (b) all orders of small call sets
    frng = ctx.rng('families')
    families = ctx.pick(40, 1600)
    for index in range(families):
        prefix, calls = c11_gen.family(frng, frng.choice([3, 4, 4, 5, 5, 6]))
        if not ctx.mine(index):
            continue
        prng = ctx.rng('orders', index)
        outcomes = set()
        for perm in c11_gen.orders(calls, ctx.pick(60, 200), prng):
            case = run_sequence(ctx, 'prompt', prefix + [list(c) for c in perm])
            ctx.count('permutation_cases')
            if case.failed is None and not case.stats['topo']:
                outcomes.add(canon(case.model.state()))
        ctx.count('permutation_families')
        if len(outcomes) > 1:
            ctx.violation('order-dependent-result', 'the same fully accepted call set gave different graphs in different orders',
                          {'mode': 'seq', 'schedule': 'prompt', 'calls': prefix + calls})
    # ---- (c) placeholder wiring vs direct wiring
    wrng = ctx.rng('wiring', ctx.shard)
    for _ in range(ctx.pick(160, 6400) // ctx.nshards):
        spec = c11_gen.wiring(wrng)
        if spec['futures']:
            run_futdiff(ctx, spec, rng=wrng)


def replay(ctx, witness):
    from vlib import c11_driver

    c11_driver.install()
    if witness.get('mode') == 'ambient':
        run_ambient(ctx, [witness['test'].split('::')[0]])
        ctx.count('evaluations')
    elif witness.get('mode') == 'futdiff':
        run_futdiff(ctx, witness['spec'], order=witness['order'])
    else:
        run_sequence(ctx, witness['schedule'], witness['calls'])
