"""C02 - every runner executes a compiled workflow with identical results.

For each generated table the reference is the independent dependency-ordered interpreter (vlib.symbolic.Interpreter).
Each backend - dask {synchronous, threads, processes} and the pyfunc Expression (apply-mode, single-sink tables) - runs
a table compiled from the *same spec* over its own fresh posix registry.  Observed per backend: the value every actor
produced (logged by the symbolic actors themselves through O_APPEND files, so threads and worker processes are visible)
and the states of the generation the run committed.  Verdict rules (no stricter than the property):
  * a backend raising / hanging on a table the interpreter runs                       -> violation
  * set of produced values != reference set                                           -> violation
  * a *sink* or *trainer* value produced more often than by the reference (duplicated output) -> violation
    (fewer is accepted: dask merges equal pure tasks - two forks of one group fed by the same port - and the delivered
    values are identical; counted as equal_tasks_merged_by_backend)
  * committed generation states (decoded terms, in order) != reference                -> violation
A backend timeout is re-run alone in a subprocess and only counts if it hangs again (otherwise inconclusive).
"""
import collections
import json
import os
import shutil
import subprocess
import sys
import tempfile
import threading
import time

PROPERTY = 'C02'
LEVEL = 'exploration'
RULE = (
    'tables compiled from seeded random segment specs (vlib.graphgen: fan-out at the source, unequal branch depths, '
    'results shared by >=3 consumers, one port feeding two inputs of a node, repeated builders/forks, multi-output '
    'getters, state loaders; train-mode with dump/commit for dask) x backends {dask synchronous, threads, processes; '
    'pyfunc on apply-mode single-sink tables}; distinct = distinct (spec, backend) executed; non-trivial = >=3 workers '
    'or a trained node'
)
ASSUMPTIONS = [
    'reference = vlib.symbolic.Interpreter (validated against the direct graph evaluator by C01)',
    'each backend runs its own compilation of the same segment spec over its own registry directory (asset.State is '
    'mutated by a commit, so one State cannot be shared by several runs)',
    'symbolic actors drop a None input: pyfunc hands the (absent) entry to the head task',
]
MANIFEST = {
    'text': 'Exploration: generated symbol tables are executed by the real dask runner under its three local schedulers '
            'and by the real pyfunc Expression; every actor result and the committed registry states are compared with an '
            'independent interpreter of the same table. Crashes and repeated hangs are violations.',
    'design_ref': 'DESIGN.md section 5 / C02',
    'note': 'Trusted: table interpreter, symbolic actors, the log-file observation channel; the distributed scheduler and '
            'spark/graphviz runners are out of reach here.',
    'technique': 'runtime monitoring: differential execution of one workload on all runner backends vs reference '
                 'interpreter, observation through actor-side event logs',
}
TIMEOUT = {'quick': 1500, 'thorough': 7200}
BACKEND_TIMEOUT = 90


def shards(tier):
    return 6 if tier == 'quick' else 16


def floors(tier):
    scale = 1 if tier == 'quick' else 20
    return {'evaluations': 600 * scale, 'tables': 300 * scale, 'backend_runs_synchronous': 100 * scale, 'backend_runs_threads': 100 * scale,
            'backend_runs_pyfunc': 60 * scale, 'backend_runs_processes': 6 * scale, 'train_mode_cases': 20 * scale,
            'registry_states_compared': 20 * scale, 'shared_source_cases': 10, 'repeated_calls_compared': 60 * scale}


# ------------------------------------------------------------------------------------------------ one execution
def execute(spec, backend, workdir):
    """Build + compile the spec over a fresh registry and run it on the backend.

    Returns dict(log=[(name, kind, dg)...], states=[dg...]|None, error=str|None)."""
    import datetime
    import pickle

    from forml import flow
    from forml.flow._graph import port
    from forml.io import asset
    from vlib import graphgen, projgen, symbolic

    port.Subscription._PORTS.clear()  # pylint: disable=protected-access
    projgen.clear_caches()
    os.makedirs(workdir, exist_ok=True)
    log = os.path.join(workdir, 'actors.log')
    built = graphgen.build(spec, log=log, opaque=bool(spec.get('opaque')))
    assets = None
    release = None
    if spec['assets']:
        import uuid

        adir = projgen.directory(os.path.join(workdir, 'registry'))
        release = projgen.publish(adir, projgen.write_package(workdir, 'p', '1'))
        listed = []
        for g in spec['assets']['listed']:
            if isinstance(g, str):
                built.gids.setdefault(g, uuid.uuid4())
            listed.append(built.gids[g])
        if spec['assets']['prev']:
            # (every third persisted state is the empty one - a falsy state that is not None)
            sids = [release.dump(b'' if i % 3 == 1 else pickle.dumps(symbolic.Term('prev', i))) for i in range(len(listed))]
            release.put(asset.Tag(training=asset.Tag.Training(timestamp=datetime.datetime(2020, 1, 1), ordinal=1), states=sids))
            projgen.clear_caches()
        generation = release.get(None)
        assets = asset.State(generation, listed, generation.tag.training.trigger())
    symbols = flow.compile(built.segment, assets)
    error = None
    try:
        if backend == 'interp':
            symbolic.Interpreter(symbols).run()
        elif backend == 'pyfunc':
            from forml.provider.runner import pyfunc

            pyfunc.Runner.run(symbols)
        else:
            import dask

            from forml.provider.runner import dask as daskrunner

            with dask.config.set(scheduler=backend):
                daskrunner.Runner.run(symbols)
    except Exception as err:  # pylint: disable=broad-except
        import traceback

        error = f'{type(err).__name__}: {err} @ {traceback.extract_tb(err.__traceback__)[-1].name}'
    records = []
    if os.path.exists(log):
        with open(log, encoding='utf-8') as fd:
            records = [tuple(json.loads(line)[k] for k in ('n', 'k', 'dg')) for line in fd if line.strip()]
    states = None
    if release is not None:
        projgen.clear_caches()
        fresh = projgen.directory(os.path.join(workdir, 'registry')).get('p').get('1')
        gens = list(fresh.list())
        want = 2 if spec['assets']['prev'] else 1
        if gens and int(gens[-1]) == want and any(t['group'] in spec['assets']['listed'] for t in spec['trainers']):
            generation = fresh.get(gens[-1])
            states = [symbolic.unstate(generation.get(i)).dg for i in range(len(generation.tag.states))]
        else:
            states = ['<no new generation>', len(gens)]
    return {'log': records, 'states': states, 'error': error}


def execute_guarded(spec, backend, workdir, timeout=BACKEND_TIMEOUT):
    """Run execute in a daemon thread so that a deadlocked backend does not take the shard with it."""
    box = {}

    def target():
        try:
            box['result'] = execute(spec, backend, workdir)
        except Exception as err:  # pylint: disable=broad-except
            import traceback

            box['result'] = {'log': [], 'states': None, 'error': f'harness/compile: {type(err).__name__}: {err} '
                             f'@ {traceback.extract_tb(err.__traceback__)[-1].name}'}

    thread = threading.Thread(target=target, daemon=True)
    thread.start()
    thread.join(timeout)
    if thread.is_alive():
        return None
    return box['result']


def rerun_alone(spec, backend, timeout=3 * BACKEND_TIMEOUT):
    """Re-run one (spec, backend) in its own process: 'hang' | 'ok' | 'error'."""
    scratch = tempfile.mkdtemp(prefix='c02-alone-')
    try:
        with open(os.path.join(scratch, 'spec.json'), 'w', encoding='utf-8') as fd:
            json.dump({'spec': spec, 'backend': backend}, fd)
        try:
            proc = subprocess.run([sys.executable, '-m', 'checks.c02', os.path.join(scratch, 'spec.json')],
                                  capture_output=True, text=True, timeout=timeout, check=False)
        except subprocess.TimeoutExpired:
            return 'hang'
        return 'ok' if proc.returncode == 0 else 'error'
    finally:
        shutil.rmtree(scratch, ignore_errors=True)


# ------------------------------------------------------------------------------------------------ comparison
def features(spec):
    """Structural features used for mechanism keys and coverage accounting."""
    fan = collections.Counter((e[0], e[1]) for e in spec['edges'])
    nodefan = collections.Counter(e[0] for e in spec['edges'])
    return {
        'source_fanout': nodefan.get(0, 0),
        'max_port_fanout': max(fan.values(), default=0),
        'multi_output': any(m['szout'] > 1 for m in spec['nodes']),
        'same_port_twice': any(c > 1 for c in collections.Counter((e[0], e[1], e[2]) for e in spec['edges']).values()),
        'forks': len(spec['nodes']) - len({m['group'] for m in spec['nodes']}),
        'train': bool(spec['trainers']),
        'assets': bool(spec['assets']),
    }


def classify_error(backend, error, spec):
    feats = features(spec)
    if backend == 'pyfunc':
        if 'IndexError' in error and '__init__' in error:
            return 'pyfunc-build-indexerror' + ('-source-shared' if feats['source_fanout'] > 1 else '')
        if 'IndexError' in error:
            return 'pyfunc-call-pop-empty'
        if 'AssertionError' in error:
            return 'pyfunc-assertion'
        return 'pyfunc-raises'
    return f'{backend}-raises'


def compare(ctx, spec, backend, reference, observed, leafdgs):
    witness = {'spec': spec, 'backend': backend}
    if reference['error']:
        return  # not a table the reference runs: nothing to compare
    if observed['error']:
        ctx.violation(classify_error(backend, observed['error'], spec),
                      f'{backend} failed on a table the interpreter runs: {observed["error"]}', witness)
        return
    ref = collections.Counter(reference['log'])
    obs = collections.Counter(observed['log'])
    if set(ref) != set(obs):
        missing = sorted(set(ref) - set(obs))[:3]
        extra = sorted(set(obs) - set(ref))[:3]
        ctx.violation(f'{backend}-values-differ', f'{backend}: values missing {missing} unexpected {extra}', witness)
        return
    for key, count in ref.items():
        if (key[2] in leafdgs or key[1] == 'train') and obs[key] > count:
            ctx.violation(f'{backend}-sink-or-trainer-duplicated',
                          f'{backend}: {key} produced {obs[key]}x, reference {count}x', witness)
            return
        if obs[key] < count:
            # dask (pure=True) merges tasks with equal function and equal inputs (e.g. two forks of one group fed by the
            # same port): the delivered values are the same, which is all the property asks for.
            ctx.count('equal_tasks_merged_by_backend')
    if reference['states'] != observed['states']:
        ctx.violation(f'{backend}-persisted-states-differ',
                      f'{backend}: committed states {observed["states"]} reference {reference["states"]}', witness)
        return
    if reference['states'] is not None:
        ctx.count('registry_states_compared')


def check_case(ctx, spec, backends, workroot):
    from vlib import graphgen
    from forml.flow._graph import port

    ctx.count('tables')
    feats = features(spec)
    if feats['source_fanout'] > 1:
        ctx.count('shared_source_cases')
    if feats['max_port_fanout'] >= 3:
        ctx.count('port_shared_by_3plus')
    if feats['train'] and feats['assets']:
        ctx.count('train_mode_cases')
    case = os.path.join(workroot, f'case{ctx.counters["tables"]}')
    reference = execute_guarded(spec, 'interp', os.path.join(case, 'interp'))
    if reference is None or reference['error']:
        ctx.count('reference_failed')  # C01's business
        shutil.rmtree(case, ignore_errors=True)
        return
    # which values are sinks (leaf nodes): from the direct evaluator on a throw-away build
    port.Subscription._PORTS.clear()  # pylint: disable=protected-access
    built = graphgen.build(spec, opaque=bool(spec.get("opaque")))
    expected = graphgen.evaluate(built, spec, None)
    leafdgs = set()
    for node in expected['nodes']:
        if not node.trained and not any(any(True for _ in p) for p in node.output):
            leafdgs.add(expected['values'][id(node)].dg)
    del built, expected
    for backend in backends:
        ctx.count(f'backend_runs_{backend}')
        ctx.count('evaluations')  # one evaluation = one table executed on one backend
        if graphgen.nontrivial(spec):
            ctx.shape((graphgen.signature(spec), backend))
        observed = execute_guarded(spec, backend, os.path.join(case, backend))
        if observed is None:
            verdict = rerun_alone(spec, backend)
            if verdict == 'hang':
                ctx.violation(f'{backend}-deadlock', f'{backend} hung twice (> {BACKEND_TIMEOUT}s, then alone > '
                              f'{3 * BACKEND_TIMEOUT}s) on a table the interpreter runs', {'spec': spec, 'backend': backend})
            else:
                ctx.inconclusive(f'{backend} timed out once but finished alone ({verdict})')
            raise StopShard()
        compare(ctx, spec, backend, reference, observed, leafdgs)
    if 'pyfunc' in backends and not spec['assets']:
        check_repeated_calls(ctx, spec, case)
    if ctx.counters['tables'] % 60 == 1:
        ctx.sample({'spec': spec, 'backends': backends, 'reference_values': len(reference['log'])})
    shutil.rmtree(case, ignore_errors=True)


def check_repeated_calls(ctx, spec, workdir):
    """Serving use of the single-function runner: ONE Expression is built and called repeatedly with different entries.
    Every call must deliver what the interpreter delivers for that entry (and what a freshly built expression delivers)."""
    from forml import flow
    from forml.flow._graph import port
    from forml.provider.runner import pyfunc
    from vlib import graphgen, symbolic

    port.Subscription._PORTS.clear()  # pylint: disable=protected-access
    built = graphgen.build(spec, opaque=bool(spec.get("opaque")))
    try:
        symbols = flow.compile(built.segment, None)
        reused = pyfunc.Expression(symbols)
    except Exception:  # pylint: disable=broad-except
        return  # build failures are reported by the single-run comparison
    ctx.count('repeated_call_cases')
    for k in range(1, 4):
        entry = symbolic.Term('entry', k)
        interp = symbolic.Interpreter(symbols, entry=entry).run()
        used = {id(a) for s in interp.symbols for a in s.arguments}
        tails = [interp.results[id(s.instruction)] for s in interp.symbols if id(s.instruction) not in used]
        try:
            observed = reused(entry)
        except Exception as err:  # pylint: disable=broad-except
            ctx.violation('pyfunc-repeated-call-raises', f'call #{k} of one Expression raised {type(err).__name__}: {err}',
                          {'spec': spec, 'backend': 'pyfunc-repeated'})
            return
        ctx.count('evaluations')
        ctx.count('repeated_calls_compared')
        if len(tails) != 1 or symbolic.strip_out(observed) != symbolic.strip_out(tails[0]):
            stale = any(t.op == 'entry' and t.args[0] != k for t in symbolic.strip_out(observed).walk())
            key = 'pyfunc-repeated-call-mixes-requests' if stale else 'pyfunc-repeated-call-differs'
            ctx.violation(key, f'call #{k} with entry({k}) delivered {symbolic.strip_out(observed).show(6)} expected '
                          f'{symbolic.strip_out(tails[0]).show(6) if tails else None}', {'spec': spec, 'backend': 'pyfunc-repeated'})
            return


class StopShard(Exception):
    """A backend thread is stuck: the shard must stop after recording."""


def run(ctx):
    from vlib import graphgen

    rng = ctx.rng('specs', ctx.shard)
    workroot = tempfile.mkdtemp(prefix='c02-')
    total = ctx.pick(300, 7200) // ctx.nshards
    procs_every = ctx.pick(25, 12)
    try:
        for k in range(total):
            base = graphgen.generate(rng, maxnodes=rng.choice([3, 5, 8, 12]), bias=[None, 'forks', 'train'][k % 3])
            kind = k % 5
            if kind in (0, 1, 2):
                spec = graphgen.single_sink(base, rng)  # apply-mode single sink: every backend incl. pyfunc
                backends = ['synchronous', 'threads', 'pyfunc']
            else:
                spec = base  # general (possibly train-mode) table: dask only
                backends = ['synchronous', 'threads']
            if k % procs_every == 0:
                backends.append('processes')
            leads = [i for i, m in enumerate(spec['nodes']) if m['group'] == i and m['stateful']]
            pairs = [(a, b) for a in leads for b in leads if a < b and max(1, spec['nodes'][a]['szout']) == max(1, spec['nodes'][b]['szout'])]
            if pairs and k % 3 == 0:
                # two stateful groups created from one builder object: each keeps its own (persisted) state
                first, second = rng.choice(pairs)
                spec['shared_builder'] = {str(second): first}
                ctx.count('shared_builder_cases')
            if k % 2:  # actor names delivered through values that all builders render alike
                spec['opaque'] = True
                ctx.count('opaque_parameter_cases')
            check_case(ctx, spec, backends, workroot)
        # directed known-shape cases: source shared by 2 consumers, diamond of unequal depth
        for spec in DIRECTED:
            check_case(ctx, json.loads(json.dumps(spec)), ['synchronous', 'threads', 'pyfunc'], workroot)
            check_case(ctx, dict(json.loads(json.dumps(spec)), opaque=True), ['synchronous', 'threads', 'pyfunc'], workroot)
    except StopShard:
        pass
    finally:
        shutil.rmtree(workroot, ignore_errors=True)


def _n(szin, szout, group, stateful=False):
    return {'szin': szin, 'szout': szout, 'group': group, 'stateful': stateful}


DIRECTED = [
    # source consumed twice by one collector
    {'nodes': [_n(0, 1, 0), _n(2, 1, 1)], 'edges': [[0, 0, 1, 0], [0, 0, 1, 1]], 'trainers': [], 'tail': 1, 'assets': None},
    # source -> a ; source -> b ; (a, b) -> c
    {'nodes': [_n(0, 1, 0), _n(1, 1, 1), _n(1, 1, 2), _n(2, 1, 3)],
     'edges': [[0, 0, 1, 0], [0, 0, 2, 0], [1, 0, 3, 0], [2, 0, 3, 1]], 'trainers': [], 'tail': 3, 'assets': None},
    # s -> a ; a -> b ; (b, a) -> c   (shared interior result, shallow branch listed second)
    {'nodes': [_n(0, 1, 0), _n(1, 1, 1), _n(1, 1, 2), _n(2, 1, 3)],
     'edges': [[0, 0, 1, 0], [1, 0, 2, 0], [2, 0, 3, 0], [1, 0, 3, 1]], 'trainers': [], 'tail': 3, 'assets': None},
    # s -> a ; a -> b ; (a, b) -> c   (shallow branch listed first)
    {'nodes': [_n(0, 1, 0), _n(1, 1, 1), _n(1, 1, 2), _n(2, 1, 3)],
     'edges': [[0, 0, 1, 0], [1, 0, 2, 0], [1, 0, 3, 0], [2, 0, 3, 1]], 'trainers': [], 'tail': 3, 'assets': None},
]


def replay(ctx, witness):
    workroot = tempfile.mkdtemp(prefix='c02-')
    try:
        if witness['backend'] == 'pyfunc-repeated':
            check_repeated_calls(ctx, witness['spec'], workroot)
            return
        check_case(ctx, witness['spec'], [witness['backend']], workroot)
    except StopShard:
        pass
    finally:
        shutil.rmtree(workroot, ignore_errors=True)


if __name__ == '__main__':  # single (spec, backend) re-run used by the deadlock triage
    sys.path.insert(0, os.path.dirname(os.path.dirname(os.path.abspath(__file__))))
    from vlib import core as _core

    _core.quiet_stderr()
    with open(sys.argv[1], encoding='utf-8') as _fd:
        _job = json.load(_fd)
    _scratch = tempfile.mkdtemp(prefix='c02-one-')
    try:
        _result = execute(_job['spec'], _job['backend'], _scratch)
    finally:
        shutil.rmtree(_scratch, ignore_errors=True)
    sys.exit(1 if _result['error'] else 0)
