"""C04 - persisted states are bound to the actors that produced them in every mode.

Generated pipelines (vlib.exprgen, >=2 stateful actors, branches, train-only stateful actors, label operators, a stateful
first operator, ensembles) are packaged as real .4ml directory packages into a temporary posix registry.  Every
lifecycle action of a history runs in a *fresh process* (python -m vlib.lifecycle) through the real runtime drivers:
dask ``Runner.train / apply / eval_perftrack`` and ``pyfunc.Runner.call`` with the symbolic feed and sink.  A
per-process nonce makes every run's data unique, so the term reaching the sink names, for every actor on the path, the
exact state (actor, training run, generation) it was applied with.  Every action runs under its own value of a
hyper-parameter taken from the deployment environment (``VERIF_EPOCH``) and the stateful actors use a whole-model snapshot
state codec (the encoded state carries the configuration it was trained under), so every application in an observed term
also names the hyper-parameters the actor ran with: they must be the current action's, never the ones in the loaded state.

Oracle: history model ``S[g][actor] = fit(actor, S[g-1][actor], data(run g))`` (persistent actors only carry over)
and the denotation [[pipeline]] evaluated with S[g]: apply / serve / perftrack outputs, train outputs, and the
multiset of states persisted in each generation.
"""
import collections
import json
import os
import shutil
import subprocess
import sys
import tempfile
import concurrent.futures

PROPERTY = 'C04'
LEVEL = 'exploration'
RULE = (
    'pipelines from the expression generator filtered to >=2 stateful persistent actors (plus directed shapes: stateful '
    'first operator, stateless first operator, train-only stateful actor, label operator, MapReduce branches, FullStack) '
    'x histories of 5-8 lifecycle actions {train, train again (incremental), apply latest / explicit older generation, '
    'serving call, perftrack latest / older generation} each in a fresh process, x GC schedules {default, disabled, eager}; '
    'distinct = distinct (pipeline signature, action kind, generation position, GC schedule) executed; non-trivial = all'
)
ASSUMPTIONS = [
    'actors are uninterpreted; a state term names actor, training data (run nonce) and the previous state',
    'only actors on the apply path are persistent (their previous state is loaded on re-training); train-only stateful '
    'actors start from scratch in every training',
    'the symbolic feed goes through the real Feed.load / extract drivers; SQL semantics are out of scope here (C06)',
]
MANIFEST = {
    'text': 'Exploration: train / retrain / apply / serve / perftrack histories over generated multi-actor pipelines, every '
            'action in a fresh interpreter through the real runners and a real posix registry; provenance terms at the sink '
            'identify which state every actor received and are compared with a history model.',
    'design_ref': 'DESIGN.md section 5 / C04',
    'note': 'Trusted: denotation + history model, symbolic feed/sink; dask synchronous scheduler (others are compared in C02).',
    'technique': 'runtime monitoring: cross-process lifecycle histories with unique-valued provenance terms vs history '
                 'model',
}
TIMEOUT = {'quick': 1500, 'thorough': 7200}
ACTION_TIMEOUT = 600


def shards(tier):
    return 12 if tier == 'quick' else 16


def floors(tier):
    scale = 1 if tier == 'quick' else 10
    return {'evaluations': 40 * scale, 'actions_train': 12 * scale, 'actions_apply': 10 * scale,
            'actions_serve': 6 * scale, 'actions_perftrack': 6 * scale, 'retrain_checked': 5 * scale, 'raced_actions': 2 * scale,
            'older_generation_checked': 4 * scale, 'states_compared': 30 * scale, 'hyper_parameters_checked': 60 * scale,
            'commit_window_readers': 6 * scale, 'twin_registry_actions': 2 * scale}


def _w(i, style, a=None, t=None, l=None):
    def actor(spec, suffix):
        return None if spec is None else {'name': f'{suffix}{i}', 'stateful': spec}

    node = {'op': 'wrap', 'id': i, 'style': style, 'apply': actor(a, 'a'), 'train': None, 'label': actor(l, 'l')}
    if t == 'same':
        node['train'] = dict(node['apply'])
    elif t is not None:
        node['train'] = actor(t, 't')
    return node


def _chain(*ops):
    expr = ops[0]
    for op in ops[1:]:
        expr = {'op': 'chain', 'left': expr, 'right': op}
    return expr


def directed():
    """Shapes the property names explicitly."""
    S, s = True, False
    return [
        ('stateful-first', _chain(_w(1, 'mapper', S, 'same'), _w(2, 'mapper', S, 'same'), _w(3, 'apply', S))),
        ('stateless-first', _chain(_w(1, 'mapper', s, 'same'), _w(2, 'mapper', S, 'same'), _w(3, 'mapper', S, 'same'))),
        ('train-only-and-label', _chain(_w(1, 'mapper', s, 'same'), _w(2, 'label', None, None, S), _w(3, 'train', None, S),
                                        _w(4, 'mapper', S, 'same'), _w(5, 'apply+train', S, S))),
        ('mapreduce-branches', _chain(_w(1, 'mapper', s, 'same'),
                                      {'op': 'mapreduce', 'id': 2, 'mappers': [{'name': 'm2a', 'stateful': S},
                                                                               {'name': 'm2b', 'stateful': S},
                                                                               {'name': 'm2c', 'stateful': s}]},
                                      _w(3, 'mapper', S, 'same'))),
        ('fullstack', _chain(_w(1, 'mapper', s, 'same'),
                             {'op': 'fullstack', 'id': 2, 'n': 2, 'bases': [_w(21, 'mapper', S, 'same'), _w(22, 'mapper', S, 'same')]},
                             _w(3, 'mapper', S, 'same'))),
        # a label operator in front of the first stateful operator (its trainer takes the raw features but transformed labels)
        ('label-first', _chain(_w(1, 'label', None, None, s), _w(2, 'mapper', S, 'same'), _w(3, 'mapper', S, 'same'))),
        # one builder object shared by several persisted groups (hand-written operator expanded twice / per fold)
        ('shared-builder-groups', _chain(dict(_w(1, 'mapper', S, 'same'), handmade=True), {'op': 'twice', 'id': 2},
                                         {'op': 'fullstack', 'id': 3, 'n': 2, 'bases': [dict(_w(31, 'mapper', S, 'same'), handmade=True)]},
                                         _w(4, 'mapper', S, 'same'))),
        # the apply path ends in a multi-input worker followed by a nested group without any apply-mode actor
        ('ensemble-then-train-only-group', {'op': 'chain', 'left': _chain(
            _w(1, 'mapper', s, 'same'),
            {'op': 'fullstack', 'id': 2, 'n': 2, 'bases': [_w(21, 'mapper', S, 'same'), _w(22, 'mapper', S, 'same')]}),
            'right': _chain(_w(3, 'label', None, None, S), _w(4, 'train', None, S))}),
    ]


HISTORIES = [
    ['train', 'apply', 'serve~race', 'perftrack', 'train', 'apply~race', 'apply@1', 'perftrack', 'apply^twin', 'serve^twin@1'],
    ['train', 'train~window', 'serve', 'apply@1', 'perftrack@1', 'train', 'apply', 'serve'],
    ['train', 'perftrack', 'apply', 'train', 'train@1', 'apply', 'serve', 'apply@2'],
    ['train*10', 'apply', 'train', 'serve', 'apply@9', 'perftrack'],  # more than nine generations
]


def spawn(job, workdir, repo):
    jobfile = job['out'] + '.job'
    with open(jobfile, 'w', encoding='utf-8') as fd:
        json.dump(job, fd)
    env = dict(os.environ)
    env['PYTHONPATH'] = os.pathsep.join([repo, os.path.dirname(os.path.dirname(os.path.abspath(__file__)))])
    env['FORML_HOME'] = os.path.join(workdir, 'home')
    env['PYTHONHASHSEED'] = str(job.get('hashseed', 0))
    if job.get('epoch'):
        env['VERIF_EPOCH'] = job['epoch']  # the hyper-parameters "of the current code" (deployment configuration)
    try:
        proc = subprocess.run([sys.executable, '-m', 'vlib.lifecycle', jobfile], env=env, cwd=workdir, capture_output=True,
                              text=True, timeout=ACTION_TIMEOUT, check=False)
    except subprocess.TimeoutExpired:
        return {'timeout': True}
    if not os.path.exists(job['out']):
        return {'crash': proc.stderr[-1500:]}
    with open(job['out'], encoding='utf-8') as fd:
        return json.load(fd)


def run_history(ctx, label, expr, history, schedule, index):
    """Execute one history and compare every action with the model."""
    from vlib import core, exprgen, lifecycle, projgen, symbolic
    from vlib.symbolic import Term

    sig = exprgen.signature(expr)
    workdir = tempfile.mkdtemp(prefix='c04-')
    witness = {'label': label, 'expr': expr, 'history': history, 'gc': schedule}
    persistent = exprgen.persistent_names(expr)
    try:
        registry = os.path.join(workdir, 'registry')
        projgen.publish(projgen.directory(registry), lifecycle.write_project(workdir, 'p', '1', expr))
        model: dict[int, list] = {}  # generation -> fit terms of that training (expansion order)
        persisted_before: dict[int, list] = {}
        for step, action in enumerate(history):
            kind, _, explicit = action.partition('@')
            kind, _, race = kind.partition('~')
            kind, _, times = kind.partition('*')
            times = int(times) if times else 1
            kind, _, twin = kind.partition('^')
            generation = int(explicit) if explicit else None
            if kind != 'train' and not model:
                continue
            target = generation or (max(model) if model else None)
            if target not in model and (kind != 'train' or explicit):
                continue  # (re-training from an explicit generation needs that generation)
            nonce = f'{kind[0]}{index}x{step}'
            job = {'registry': registry, 'project': 'p', 'release': '1', 'generation': generation, 'action': kind,
                   'nonce': nonce, 'out': os.path.join(workdir, f'{step}.json'), 'gc': schedule,
                   'scheduler': scheduler_for(ctx, index, step),
                   'hashseed': core.subseed(ctx.seed, index, step) % 1000, 'entries': [[1000 * index + step]],
                   'epoch': f'e{step}'}
            if times > 1:
                job['repeat'] = times
            epoch = job['epoch']
            racer = None
            if race == 'window' and model:
                # readers of the latest generation run inside this training's commit, after each of its renames
                reader = {'registry': registry, 'project': 'p', 'release': '1', 'generation': None, 'action': 'apply',
                          'nonce': f'w{index}x{step}', 'out': os.path.join(workdir, f'{step}w.json'), 'gc': 'default'}
                with open(reader['out'] + '.job', 'w', encoding='utf-8') as fd:
                    json.dump(reader, fd)
                job['window'] = reader['out'] + '.job'
            elif race and model:
                # another process trains and commits right after this action's first state read
                racer = {'registry': registry, 'project': 'p', 'release': '1', 'generation': None, 'action': 'train',
                         'nonce': f'R{index}x{step}', 'out': os.path.join(workdir, f'{step}r.json'), 'gc': 'default'}
                with open(racer['out'] + '.job', 'w', encoding='utf-8') as fd:
                    json.dump(racer, fd)
                job['race'] = racer['out'] + '.job'
                ctx.count('raced_actions')
            if twin and model and kind != 'train':
                # two registries in one process: a twin registry holds the same project / release / generation number with
                # OTHER states (trained there on other data); the action's process reads that generation through the twin
                # first and must still bind the states of its own registry
                twinreg = os.path.join(workdir, f'twin{step}')
                shutil.copytree(registry, twinreg)
                for stale in range(target, max(model) + 1):
                    shutil.rmtree(os.path.join(twinreg, 'p', '1', str(stale)))
                other = {'registry': twinreg, 'project': 'p', 'release': '1', 'generation': None, 'action': 'train',
                         'nonce': f'T{index}x{step}', 'out': os.path.join(workdir, f'{step}t.json'), 'gc': 'default',
                         'epoch': f'T{step}'}
                trained = spawn(other, workdir, core.REPO)
                if trained.get('error') or 'crash' in trained or trained.get('timeout') or \
                        max((g['key'] for g in trained.get('generations', ())), default=0) != target:
                    ctx.inconclusive(f'twin registry could not be trained to generation {target}: {str(trained)[:300]}')
                    return
                job['prime'] = twinreg
                ctx.count('twin_registry_actions')
            ctx.count('evaluations')
            ctx.count(f'actions_{kind}')
            ctx.shape((sig, kind, 'explicit' if explicit else 'latest', len(model), schedule, bool(racer), job['scheduler']))
            ctx.note_set('schedulers', job['scheduler'])
            result = spawn(job, workdir, core.REPO)
            if result.get('timeout'):
                ctx.inconclusive(f'{kind} timed out after {ACTION_TIMEOUT}s ({label})')
                return
            if 'crash' in result:
                ctx.inconclusive(f'lifecycle process died: {result["crash"][-400:]}')
                return
            step_witness = dict(witness, step=step, action=action)
            x, y, xa = lifecycle.source_terms(nonce)
            head_bound = _head_trainers(expr, model[target], persistent) if kind == 'perftrack' else False
            if result['error']:
                key = f'{kind}-raises'
                if kind == 'perftrack' and head_bound:
                    key = 'perftrack-head-trainer-unbound'
                ctx.violation(key, f'{kind} of generation {target} failed: {result["error"]} [{sig}]', step_witness)
                if kind == 'train':
                    return
                continue
            gens, epochs = {}, {}
            for g in result['generations']:
                decoded = [lifecycle.decode(s) if s else None for s in g['states']]
                snapshots = [d for d in decoded if isinstance(d, tuple)]
                epochs[g['key']] = {d[1] for d in snapshots}
                gens[g['key']] = [d[2] if isinstance(d, tuple) else d for d in decoded]
            if kind == 'train' and times > 1:
                # a long history in one go (the same data every time): generation after generation resumes from the one before
                ctx.count('long_histories')
                for _ in range(times):
                    last = max(model) if model else 0
                    prev = {}
                    for f in (model[last] if last else ()):
                        if f.op == 'fit' and f.args[0] in persistent:
                            prev.setdefault(f.args[0], []).append(f)
                    memo = {}
                    fits = [symbolic.stamp(f, epoch, memo) for f in exprgen.denote(expr, x, y, xa, prev=prev).fits]
                    new = last + 1
                    want = collections.Counter(f for f in fits if f.op == 'fit' and f.args[0] in persistent)
                    got = collections.Counter(gens.get(new, ['<no such generation>']))
                    ctx.count('states_compared', sum(want.values()))
                    if want != got:
                        ctx.violation('long-history-state-binding', f'generation {new} of {times} trainings in a row (generations listed: '
                                      f'{sorted(gens)}): missing {[t.show(4) for t in (want - got)][:2]} unexpected '
                                      f'{[t.show(4) if hasattr(t, "show") else t for t in (got - want)][:2]} [{sig}]', step_witness)
                        return
                    persisted_before[new] = gens[new]
                    model[new] = fits
                if sorted(gens) != list(range(1, max(model) + 1)):
                    ctx.violation('train-generation-numbering', f'generations {sorted(gens)} after {max(model)} trainings', step_witness)
                    return
                continue
            if kind == 'train':
                last = max(model) if model else 0
                prev = {}
                if last:
                    # incremental training resumes from the generation the action refers to (the latest unless an older one is
                    # named explicitly) and commits on top of the release
                    if explicit:
                        ctx.count('retrain_from_older_generation_checked')
                    for f in model[generation or last]:
                        if f.op == 'fit' and f.args[0] in persistent:
                            prev.setdefault(f.args[0], []).append(f)
                    ctx.count('retrain_checked')
                den = exprgen.denote(expr, x, y, xa, prev=prev)
                memo: dict = {}
                fits = [symbolic.stamp(f, epoch, memo) for f in den.fits]
                new = last + 1
                if sorted(gens) != list(range(1, new + 1)):
                    ctx.violation('train-generation-numbering', f'generations {sorted(gens)} after training #{new}', step_witness)
                    return
                want = collections.Counter(f for f in fits if f.op == 'fit' and f.args[0] in persistent)
                got = collections.Counter(gens[new])
                ctx.count('states_compared', sum(want.values()))
                if want != got:
                    miss = [t.show(4) for t in (want - got)][:2]
                    extra = [t.show(4) if t else None for t in (got - want)][:2]
                    key = 'retrain-previous-state-binding' if last else 'train-persisted-states'
                    if explicit:
                        key = 'retrain-from-older-generation-state-binding'
                    if collections.Counter(symbolic.unstamp(t) for t in want) == collections.Counter(
                            symbolic.unstamp(t) for t in got if t is not None):
                        key = 'train-stale-hyper-parameters'
                    ctx.violation(key, f'generation {new} states: missing {miss} unexpected {extra} [{sig}]', step_witness)
                    return
                for g, states in persisted_before.items():
                    if gens.get(g) != states:
                        ctx.violation('older-generation-changed', f'generation {g} changed by training #{new}', step_witness)
                        return
                if epochs.get(new, set()) - {epoch}:
                    ctx.violation('train-stale-hyper-parameters', f'generation {new} trained under hyper-parameters {epoch} '
                                  f'persisted snapshots configured {sorted(epochs[new])} [{sig}]', step_witness)
                    return
                ctx.count('hyper_parameters_checked', len(want))
                persisted_before[new] = gens[new]
                model[new] = fits
                for window in result.get('windows', ()):
                    # what a reader saw between two renames of the commit: the previous generation or the complete new one
                    ctx.count('commit_window_readers')
                    if not os.path.exists(window['out']):
                        ctx.inconclusive(f'window reader produced nothing (rc {window["rc"]})')
                        return
                    with open(window['out'], encoding='utf-8') as fd:
                        seen = json.load(fd)
                    _, _, wxa = lifecycle.source_terms(window['nonce'])
                    options = [symbolic.stamp(exprgen.apply_with(expr, model[g], wxa), epoch) for g in (last, new)]
                    got = [lifecycle.decode(b) for b in seen['sink']]
                    if seen['error'] or got not in ([options[0]], [options[1]]):
                        ctx.violation('apply-inside-commit-window-not-a-whole-generation',
                                      f'an apply of the latest generation run after the commit of generation {new} renamed '
                                      f'{window["renamed"]}: {seen["error"] or [o.show(5) for o in got]}; expected all states of '
                                      f'generation {last} or of generation {new} [{sig}]', dict(step_witness, window=window['renamed']))
                        return
                observed = [lifecycle.decode(b) for b in result['sink']]
                wanted = symbolic.stamp(den.x, epoch, memo)
                if observed != [wanted]:
                    key = 'train-output'
                    if [symbolic.unstamp(o) for o in observed] == [symbolic.unstamp(wanted)]:
                        key = 'train-stale-hyper-parameters'
                    ctx.violation(key, f'train-mode sink got {[o.show(5) for o in observed]} expected {wanted.show(5)}',
                                  step_witness)
                    return
                continue
            if explicit:
                ctx.count('older_generation_checked')
            alternatives = [target]
            if racer:
                # the racing training (from the latest generation) committed target+1 while this action was loading states
                rx, ry, rxa = lifecycle.source_terms(racer['nonce'])
                last = max(model)
                prev = {}
                for f in model[last]:
                    if f.op == 'fit' and f.args[0] in persistent:
                        prev.setdefault(f.args[0], []).append(f)
                memo = {}
                model[last + 1] = [symbolic.stamp(f, epoch, memo) for f in exprgen.denote(expr, rx, ry, rxa, prev=prev).fits]
                if not explicit:
                    alternatives.append(last + 1)  # either generation is fine - but all states from the same one
            def expect(generation):
                if kind == 'apply':
                    return symbolic.stamp(exprgen.apply_with(expr, model[generation], xa), epoch)
                if kind == 'serve':
                    return symbolic.stamp(exprgen.apply_with(expr, model[generation], lifecycle.entry_term(job['entries'][0])),
                                          epoch)
                return symbolic.stamp(Term('metric', y, exprgen.apply_with(expr, model[generation], x)), epoch)
            observed = [lifecycle.decode(b) for b in (result['served'] if kind == 'serve' else result['sink'])]
            expected = expect(target)
            if racer and observed != [expected] and len(alternatives) > 1 and observed == [expect(alternatives[1])]:
                expected = expect(alternatives[1])
            if racer:
                persisted_before[max(model)] = gens.get(max(model))
            ctx.count('hyper_parameters_checked', len(persistent))
            if observed != [expected]:
                key = f'{kind}-state-binding'
                if racer:
                    key = f'{kind}-states-from-mixed-generations-under-concurrent-training'
                if kind == 'perftrack' and head_bound:
                    key = 'perftrack-head-trainer-unbound'
                elif observed and symbolic.unstamp(observed[0]) == symbolic.unstamp(expected):
                    key = f'{kind}-stale-hyper-parameters'  # right states, but not the current code's hyper-parameters
                elif observed and _strip_states(observed[0]) != _strip_states(expected):
                    key = f'{kind}-output'
                ctx.violation(key, f'{action} (generation {target}, {schedule} gc): got {[o.show(6) for o in observed]} expected '
                              f'{expected.show(6)} [{sig}]', step_witness)
            elif ctx.counters['evaluations'] % 25 == 3:
                ctx.sample({'pipeline': sig, 'action': action, 'generation': target, 'gc': schedule, 'sink': expected.show(4)})
    finally:
        shutil.rmtree(workdir, ignore_errors=True)


def scheduler_for(ctx, index, step):
    """dask scheduler of one batch action: mostly synchronous (fast); threads / processes are mixed in so that the
    lifecycle drivers are also exercised on the other local schedulers (backends are compared as such by C02)."""
    if ctx.quick:
        return 'threads' if (index + step) % 5 == 0 else 'synchronous'
    return ['synchronous', 'threads', 'synchronous', 'processes'][(index + step) % 4]


def _strip_states(term):
    """Structure of the data path only (states replaced) - to tell a wrong output from a wrong state."""
    from vlib.symbolic import Term

    if term.op == 'app':
        return Term('app', term.args[0], *(_strip_states(a) for a in term.args[2:]))
    return Term(term.op, *(_strip_states(a) if isinstance(a, Term) else a for a in term.args))


def _head_trainers(expr, fits, persistent) -> bool:
    """Known-finding mechanism: some persistent actor was trained directly on the pipeline's raw input features, i.e.
    its trainer hangs off the (discarded) train-trunk head of the perftrack composition."""
    for f in fits:
        if f.op == 'fit' and f.args[0] in persistent:
            features, labels = f.args[2], f.args[3]
            raw = [t.op == 'out' and t.args[1].op == 'app' and t.args[1].args[0].split('#')[0] == 'split' for t in (features, labels)]
            if all(raw):  # features AND labels straight from the trunk heads (a label operator in front keeps the trainer alive)
                return True
    return False


def cases(ctx):
    from vlib import exprgen

    out = []
    for position, (label, expr) in enumerate(directed()):
        out.append((label, expr, HISTORIES[position % len(HISTORIES)], ['default', 'disabled', 'eager'][position % 3]))
    rng = ctx.rng('pipelines')
    wanted = ctx.pick(6, 120)
    attempts = 0
    while len(out) < len(directed()) + wanted and attempts < 5000:
        attempts += 1
        gen = exprgen.Gen(rng, ops=('wrap', 'wrap', 'mapreduce', 'fullstack', 'twice', 'dump'), maxfolds=2)
        expr = gen.expr(rng.choice([2, 3, 3, 4]), depth=1)
        if len(exprgen.persistent_names(expr)) < 2:
            continue
        from checks import c03

        if c03.total_weight(expr) > 25:
            continue
        out.append((f'random{len(out)}', expr, HISTORIES[rng.randrange(len(HISTORIES))], rng.choice(['default', 'disabled', 'eager'])))
    return out


def run(ctx):
    todo = [(i, c) for i, c in enumerate(cases(ctx)) if ctx.mine(i)]
    with concurrent.futures.ThreadPoolExecutor(max_workers=1) as pool:
        list(pool.map(lambda item: run_history(ctx, item[1][0], item[1][1], item[1][2], item[1][3], item[0]), todo))


def replay(ctx, witness):
    run_history(ctx, witness['label'], witness['expr'], witness['history'], witness['gc'], 0)
