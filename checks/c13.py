"""C13 - actor state and hyper-parameter contract holds for every actor flavour.

Test actors (vlib/c13_actors.py, used both as an importable module and exec-ed into an anonymous namespace) answer
``apply`` with ``(tag, params in effect, training history, input)``; every training step records the ``alpha`` that
was in effect.  The oracle below predicts that tuple from the scenario alone (builder operations, training steps,
transfer mode) - it never looks at the actors' code - and is additionally cross-checked against the live twin.

Monitors per scenario:
  stateful  : cls.is_stateful() == "has a training implementation" (flavour table + directed extras)
  chain     : builder/update/reset chains end in the args/kwargs the documented semantics predict; instance params
  transfer  : twin trained (directly or through Functor(builder, SetState(Train())) state chaining, with per-step
              parameter overrides); its exported state given to an actor rebuilt from builder B by raw set_state,
              user.SetState, Functor.preset_state() or preset_state().preset_params(): output == model(params(B),
              history, x) and == twin output when the parameters coincide
  empty     : b'' / None state leaves a fresh actor exactly like a never-touched one
  continue  : training continued after the transfer keeps agreeing with the model (incremental sequences 0-4 + 0-2)
  pickle    : builders, functors, trained actors through pickle / cloudpickle (same process) and cloudpickle into a
              fresh interpreter with another hash seed
  falsy     : the five *Fold* flavours learn a value that may be 0, 0.0, '', [], {}, False, (): a trained actor must
              transfer / continue / pickle as trained (only an empty exported STATE, b'' or None, means untrained);
              continuation nests the next labels on the restored value, so a silent restart from None is visible.
              280 directed cases (flavour x value x transfer x train mode) plus the random stream

Oracle relaxations (forml behaviour defensible under the property text):
  * stdlib pickle is only demanded where pickle's own precondition holds (class resolvable by its qualified name);
    ``X = wrap.Actor.type(Origin, ...)`` carries the origin's name and is exercised with cloudpickle only.
  * NativeOpen (``**params`` + default state): parameters present in the state but not supplied by the builder may
    survive - the property only ranks *builder-supplied* keys above the state.
  * NativeSloppy (user set_state overwriting params) is only driven through SetState/Functor paths, where forml itself
    restores the parameters.
  * get_params() is compared on builder-supplied keys only (function actors do not report signature defaults); the
    apply output still shows every parameter in effect.
  * a stateless actor exporting a non-empty state is only counted; its consequences show in the transfer monitor.

Findings (each has a directed case in ``directed``).  The first three were repaired in /repo by ``fix:`` commits
(9549869, e488368, 13187c9; status "fixed" in known_findings.json), so their keys suppress nothing any more: a regression is
reported as an ordinary VIOLATION, and the per-shard flavour-skip logic below only keeps such a run readable.  Only the
last one is still a known finding:
  class-bare-empty-mapping               bare ``@wrap.Actor.type``: Mapping stays {} -> is_stateful/get_state/set_state
                                         raise KeyError('train'); the flavour WrapBare is skipped while this is so
  fn-stateless-varkw-signature-order     ``@wrap.Actor.apply`` on ``(x, /, *, opt, **kwargs)``: keyword parameters kept in a
                                         set -> builder() raises ValueError in about every second interpreter; FnStatelessKw
                                         is skipped in the shards where it cannot be instantiated
  class-actor-stdlib-pickle-local-setter stdlib pickle of a wrapped-class actor instance: reducer uses a local lambda
  class-actor-unpickle-drops-ctor-args   wrapped-class actor with a mandatory ctor argument is rebuilt as ``actor()``
"""
import copy
import os
import subprocess
import sys

PROPERTY = 'C13'
LEVEL = 'exploration'
RULE = (
    'seeded random scenarios: flavour (22 test actors: native default/custom/sloppy/open/inherited/stateless, '
    '@wrap.Actor.apply x2, train/apply pairs x3, wrap.Actor.type with name / callable / bare / assigned mappings, with and '
    'without training method, with mandatory ctor arg; 5 "fold" actors - function pair, native default/custom state, class '
    'with name/callable mapping - whose learned value is 0, 0.0, \'\', [], {}, False or ()) x namespace (importable / anonymous) x builder chain A (1-4 '
    'builder/update/reset ops, positional and keyword, falsy values) x chain B (0-2 ops) x 0-4 training steps (direct or '
    'state-chained functors, per-step alpha overrides) x transfer (raw, SetState, functor, functor+params) x pickle plan '
    '(builder / functor / actor by pickle / cloudpickle / other process) x 0-2 continued steps. distinct = distinct '
    'structural signature (all of the above without the literal values); non-trivial = stateful flavour with >=1 step, '
    'or B differing from A, or a pickle round trip'
)
ASSUMPTIONS = [
    'test actors in vlib/c13_actors.py are honest explicit functions of (params, history, input)',
    'stdlib pickle only where the class is resolvable by qualified name; cross-process transfer by cloudpickle',
    'values are small ints / strings / None / floats / tuples (no bools, so == implies same value)',
]
MANIFEST = {
    'text': 'Exploration: thousands of generated scenarios drive the real flow.Actor / Spec / wrap.Actor.* / user.SetState / '
            'Functor code with test actors whose output spells out the parameters and training history in effect; every '
            'output is compared with a model computed from the scenario and with the live trained twin, across pickle and '
            'cloudpickle round trips, also into a fresh interpreter. Holds on the scenarios run - no proof.',
    'design_ref': 'DESIGN.md section 5 / C13',
    'note': 'Trusted: the flavour table and ~80-line parameter/history model in checks/c13.py; test actors in '
            'vlib/c13_actors.py.',
    'technique': 'runtime monitoring: model-based differential testing of actor state/param handling with self-describing actors',
}
TIMEOUT = {'quick': 600, 'thorough': 3000}

K_BARE = 'class-bare-empty-mapping'
K_VARKW = 'fn-stateless-varkw-signature-order'
K_STDPICKLE = 'class-actor-stdlib-pickle-local-setter'
K_CTORARGS = 'class-actor-unpickle-drops-ctor-args'


def _fl(kind, tag, stateful, pos, names, defaults, required=(), opened=False, multi=True, untrained='empty',
        lenient=False, byname=True, sloppy=False, fold=False):
    return {'kind': kind, 'tag': tag, 'stateful': stateful, 'pos': list(pos), 'names': list(names), 'defaults': defaults,
            'required': list(required), 'open': opened, 'multi': multi, 'untrained': untrained, 'lenient': lenient,
            'byname': byname, 'sloppy': sloppy, 'fold': fold}


AB = {'alpha': 1, 'beta': 'b'}
FLAVOURS = {
    'NativeDefault': _fl('native-default', 'nd', True, ['alpha', 'beta'], ['alpha', 'beta', 'gamma'],
                         {'beta': 'b', 'gamma': None}, ['alpha']),
    'NativeInherited': _fl('native-default', 'ni', True, ['alpha', 'beta'], ['alpha', 'beta', 'gamma', 'delta'],
                           {'alpha': 0, 'beta': 'b', 'gamma': None, 'delta': 7}),
    'NativeCustom': _fl('native-custom', 'nc', True, ['alpha', 'beta'], ['alpha', 'beta'], {'alpha': 0, 'beta': 'b'}),
    'NativeSloppy': _fl('native-sloppy', 'ns', True, ['alpha', 'beta'], ['alpha', 'beta'], {'alpha': 0, 'beta': 'b'},
                        sloppy=True),
    'NativeOpen': _fl('native-open', 'no', True, [], ['alpha', 'beta'], {}, opened=True, lenient=True),
    'NativeStateless': _fl('native-stateless', 'nl', False, ['alpha'], ['alpha', 'beta'], {'alpha': 1, 'beta': 'x'}),
    'FnStateless': _fl('fn-stateless', 'fl', False, [], ['alpha', 'beta'], {'beta': 'b'}, ['alpha']),
    'FnStatelessKw': _fl('fn-stateless', 'fk', False, [], ['alpha'], {'alpha': 1}, opened=True, multi=False),
    'FnStateful': _fl('fn-stateful', 'fs', True, [], ['alpha', 'beta'], {'beta': 'b'}, ['alpha'], multi=False,
                      untrained='raises'),
    'FnStatefulPos': _fl('fn-stateful', 'fp', True, [], ['alpha', 'beta'], {'alpha': 3, 'beta': None}, multi=False,
                         untrained='raises'),
    'FnStatefulKw': _fl('fn-stateful', 'fw', True, [], ['alpha'], {}, ['alpha'], opened=True, multi=False,
                        untrained='raises'),
    'WrapNamed': _fl('class-named', 'wn', True, ['alpha', 'beta'], ['alpha', 'beta'], AB),
    'WrapRequired': _fl('class-named', 'wr', True, ['alpha', 'beta'], ['alpha', 'beta'], {'beta': 'b'}, ['alpha']),
    'WrapCallable': _fl('class-callable', 'wc', True, ['alpha', 'beta'], ['alpha', 'beta'], AB, byname=False),
    'WrapPartial': _fl('class-callable', 'wp', True, ['alpha', 'beta'], ['alpha', 'beta'], AB, byname=False),
    'WrapCallableObject': _fl('class-callable', 'wo', True, ['alpha', 'beta'], ['alpha', 'beta'], AB, byname=False),
    'WrapAssigned': _fl('class-callable', 'wa', True, ['alpha', 'beta'], ['alpha', 'beta'], AB, byname=False),
    'WrapBare': _fl('class-bare', 'wb', True, ['alpha', 'beta'], ['alpha', 'beta'], AB),
    'WrapStateless': _fl('class-stateless', 'wl', False, ['alpha', 'beta'], ['alpha', 'beta'], AB),
    # learned value may be falsy (0, 0.0, '', [], {}, False, ()): shown as ('S', value), see fold()
    'FnFold': _fl('fn-stateful-fold', 'ff', True, [], ['alpha', 'beta'], AB, multi=False, untrained='raises', fold=True),
    'NativeFoldDefault': _fl('native-default-fold', 'fd', True, ['alpha', 'beta'], ['alpha', 'beta'], {'alpha': 0, 'beta': 'b'}, fold=True),
    'NativeFoldCustom': _fl('native-custom-fold', 'fc', True, ['alpha', 'beta'], ['alpha', 'beta'], {'alpha': 0, 'beta': 'b'}, fold=True),
    'WrapFoldNamed': _fl('class-named-fold', 'wf', True, ['alpha', 'beta'], ['alpha', 'beta'], AB, fold=True),
    'WrapFoldCallable': _fl('class-callable-fold', 'wg', True, ['alpha', 'beta'], ['alpha', 'beta'], AB, byname=False, fold=True),
}
# labels of the fold flavours, by name so that a JSON witness keeps [] / () / 0 / 0.0 / False apart
FOLD_LABELS = {'int0': 0, 'float0': 0.0, 'str': '', 'list': [], 'dict': {}, 'false': False, 'tuple': (),
               'int5': 5, 'strw': 'w', 'list1': [1], 'dict1': {'k': 1}}
FALSY = ['int0', 'float0', 'str', 'list', 'dict', 'false', 'tuple']
STATEFUL_EXTRA = {'StatefulByMixin': True, 'StatelessChild': False, 'StatefulChild': True, 'WrapMissingTrain': False,
                  'WrapCallableTrain': True}
VALUES = [0, 1, -2, 7, '', 'a', 'zz', None, 0.5, [1, 2], []]
FEATURES = [0, 3, -1, 'f', 'gg', '', [1, 'u'], [], None, 2.5]
EXTRA_NAMES = ['zeta', 'eta']
TRANSFERS = ['raw', 'setstate', 'functor', 'functor-params']
SPACES = ['static', 'dynamic']


def shards(tier):
    return 4 if tier == 'quick' else 16


def floors(tier):
    scale = 1 if tier == 'quick' else 25
    return {
        'evaluations': 1800 * scale, 'stateful_checked': 1800 * scale, 'chain_ops_checked': 4000 * scale,
        'transfer_checked': 1500 * scale, 'twin_equal_checked': 300 * scale, 'precedence_checked': 600 * scale,
        'empty_state_checked': 1500 * scale, 'continue_checked': 500 * scale, 'pickle_builder_checked': 500 * scale,
        'pickle_actor_checked': 500 * scale, 'pickle_functor_checked': 200 * scale, 'xproc_checked': 40 * (1 if tier == 'quick' else 8),
        'apply_compared': 8000 * scale, 'directed_stateful_checked': 30, 'directed_falsy_checked': 280,
        'falsy_state_checked': 400 + 100 * (scale - 1),
    }


# ---------------------------------------------------------------------------------------------- model (oracle)
def freeze(value):
    """JSON lists back to the tuples the actors see."""
    if isinstance(value, (list, tuple)):
        return tuple(freeze(v) for v in value)
    if isinstance(value, dict):
        return {k: freeze(v) for k, v in value.items()}
    return value


def model_chain(ops):
    """Documented builder semantics: builder(*a, **kw); update replaces positional args if any are given and merges the
    keywords; reset replaces both.  Returns the (args, kwargs) after every op."""
    trace, args, kwargs = [], (), {}
    for kind, oargs, okwargs in ops:
        oargs, okwargs = freeze(oargs), freeze(okwargs)
        if kind == 'update':
            args, kwargs = (oargs or args), {**kwargs, **okwargs}
        else:  # builder / reset
            args, kwargs = oargs, dict(okwargs)
        trace.append((args, dict(kwargs)))
    return trace


def model_params(flavour, args, kwargs):
    """Hyper-parameters an actor built from (args, kwargs) reports."""
    params = dict(flavour['defaults'])
    params.update(zip(flavour['pos'], args))
    params.update(kwargs)
    return params


def supplied(flavour, args, kwargs):
    return set(flavour['pos'][:len(args)]) | set(kwargs)


def valid(flavour, args, kwargs, complete):
    if len(args) > len(flavour['pos']) or set(flavour['pos'][:len(args)]) & set(kwargs):
        return False
    if not flavour['open'] and set(kwargs) - set(flavour['names']):
        return False
    return not complete or set(flavour['required']) <= supplied(flavour, args, kwargs)


def fold(history):
    """Learned value of the fold flavours: first labels as they are, later ones nested on top."""
    state = None
    for _, labels, _ in history:
        state = labels if state is None else (state, labels)
    return state


def decode_label(value):
    """Decode a scenario label ({'$': name} names a fold label)."""
    if isinstance(value, dict) and '$' in value:
        return copy.deepcopy(FOLD_LABELS[value['$']])
    return freeze(value)


def expected(flavour, params, history, inputs):
    if flavour['stateful'] and flavour['untrained'] == 'raises' and not history:
        return ('raise', 'RuntimeError')
    if flavour['fold']:
        view = ('S', fold(history))
    else:
        view = tuple(history) if flavour['stateful'] else ()
    return ('ok', (flavour['tag'], tuple(sorted(params.items())), view, tuple(inputs)))


def differ(flavour, observed, wanted, demanded=None):
    """None when observed satisfies wanted, else the name of the part that differs."""
    if observed[0] != wanted[0]:
        return 'raises' if observed[0] == 'raise' else 'not-refused'
    if observed[0] == 'raise':
        return None if observed[1] == wanted[1] else 'raises'
    got, exp = observed[1], wanted[1]
    if not (isinstance(got, tuple) and len(got) == 4):
        return 'shape'
    if got[0] != exp[0]:
        return 'tag'
    gparams = got[1]
    if flavour['lenient'] and demanded is not None:  # only builder-supplied keys are ranked above the state
        gparams = tuple(kv for kv in gparams if kv[0] in demanded)
        eparams = tuple(kv for kv in exp[1] if kv[0] in demanded)
    else:
        eparams = exp[1]
    if not same(gparams, eparams):
        return 'params'
    if not same(got[2], exp[2]):
        return 'history'
    if not same(got[3], exp[3]):
        return 'input'
    return None


def same(left, right):
    """Equality that also distinguishes 1 / 1.0 / True and () / []."""
    return left == right and repr(left) == repr(right)


# ---------------------------------------------------------------------------------------------- generator
def gen_value(rng, avoid=()):
    for _ in range(20):
        value = rng.choice(VALUES)
        if all(freeze(value) != freeze(a) for a in avoid):
            return value
    return 'fresh'


def gen_op(rng, flavour, kind, current, complete):
    """One builder operation valid under the model (current = (args, kwargs) before it)."""
    for _ in range(50):
        npos = rng.choice([0, 0, 1, 2]) if flavour['pos'] else 0
        npos = min(npos, len(flavour['pos']))
        args = [gen_value(rng) for _ in range(npos)]
        pool = list(flavour['names']) + (EXTRA_NAMES if flavour['open'] else [])
        keys = [k for k in pool if rng.random() < 0.45]
        rng.shuffle(keys)  # keyword order is observable (``**kwargs`` actors, ``get_params()`` listings): any order
        kwargs = {k: gen_value(rng) for k in keys}
        if kind == 'update':
            if not args and not kwargs:
                continue
            nargs, nkwargs = (freeze(args) or current[0]), {**current[1], **freeze(kwargs)}
        else:
            nargs, nkwargs = freeze(args), freeze(kwargs)
        if valid(flavour, nargs, nkwargs, complete):
            return [kind, args, kwargs], (nargs, nkwargs)
    # fall back to a minimal valid op
    kwargs = {k: gen_value(rng) for k in flavour['required']} or {flavour['names'][0]: gen_value(rng)}
    if kind == 'update':
        return [kind, [], kwargs], (current[0], {**current[1], **freeze(kwargs)})
    return [kind, [], kwargs], ((), freeze(kwargs))


def gen_chain(rng, flavour, length, start=None):
    ops, current = [], start if start is not None else ((), {})
    for index in range(length):
        kind = 'builder' if start is None and index == 0 else rng.choice(['update', 'update', 'reset'])
        last = index == length - 1
        op, current = gen_op(rng, flavour, kind, current, complete=last)
        ops.append(op)
    if not valid(flavour, current[0], current[1], True):  # complete the builder
        missing = {k: gen_value(rng) for k in flavour['required'] if k not in supplied(flavour, *current)}
        ops.append(['update', [], missing])  # keys neither positional nor keyword so far: cannot clash
    return ops


def gen_scenario(rng, names):
    name = rng.choice(names)
    flavour = FLAVOURS[name]
    chain_a = gen_chain(rng, flavour, rng.choice([1, 1, 2, 3, 4]))
    end_a = model_chain(chain_a)[-1]
    chain_b = gen_chain(rng, flavour, rng.choice([0, 1, 1, 2]), start=end_a) if rng.random() < 0.75 else []
    alpha_positional = bool(end_a[0]) and 'alpha' in flavour['pos'][:len(end_a[0])]
    overridable = not alpha_positional and 'alpha' in model_params(flavour, *end_a)
    steps = []

    def gen_label(first):
        if not flavour['fold']:
            return rng.choice(FEATURES)
        return {'$': rng.choice(FALSY) if first and rng.random() < 0.8 else rng.choice(sorted(FOLD_LABELS))}

    for _ in range((rng.choice([0, 1, 1, 1, 2, 3, 4]) if flavour['fold'] else rng.choice([0, 1, 1, 2, 2, 3, 4])) if flavour['stateful'] else 0):
        step = [rng.choice(FEATURES), gen_label(not steps)]
        if rng.random() < 0.3 and overridable:
            step.append({'alpha': gen_value(rng)})
        steps.append(step)
    more = [[rng.choice(FEATURES), gen_label(False)] for _ in range(rng.choice([0, 1, 2]) if flavour['stateful'] else 0)]
    ninputs = rng.choice([1, 2, 3])
    inputs = [[rng.choice(FEATURES) for _ in range(rng.choice([1, 1, 2, 3]) if flavour['multi'] else 1)] for _ in range(ninputs)]
    transfer = rng.choice(TRANSFERS[1:] if flavour['sloppy'] else TRANSFERS)
    scenario = {
        'flavour': name, 'space': rng.choice(SPACES), 'chain_a': chain_a, 'chain_b': chain_b, 'steps': steps, 'more': more,
        'inputs': inputs, 'train_mode': rng.choice(['direct', 'functor']), 'transfer': transfer,
        'pick': {k: rng.choice(['none', 'pickle', 'cloudpickle', 'cloudpickle']) for k in ('builder', 'functor', 'actor')},
        'call': {}, 'preset': {}, 'xproc': rng.random() < 0.06,
    }
    pool = list(flavour['names']) + (EXTRA_NAMES if flavour['open'] else [])
    if transfer == 'functor-params':
        scenario['preset'] = {k: gen_value(rng) for k in pool if rng.random() < 0.5}
    elif transfer in ('raw', 'setstate') and rng.random() < 0.25:
        end_b = model_chain(chain_a + chain_b)[-1]
        scenario['call'] = {k: gen_value(rng) for k in pool if rng.random() < 0.4 and k not in flavour['pos'][:len(end_b[0])]}
    return scenario


def signature(scenario):
    """Structural signature: everything but the literal values."""
    def ops(chain):
        return [(k, len(a), sorted(kw)) for k, a, kw in chain]

    return (
        scenario['flavour'], scenario['space'], ops(scenario['chain_a']), ops(scenario['chain_b']),
        [(len(s), s[1]['$'] if isinstance(s[1], dict) else None) for s in scenario['steps']], len(scenario['more']), [len(i) for i in scenario['inputs']],
        scenario['train_mode'], scenario['transfer'], sorted(scenario['pick'].items()), sorted(scenario['call']),
        sorted(scenario['preset']), scenario['xproc'],
    )


# ---------------------------------------------------------------------------------------------- environment
class Env:
    """Everything of forml and of the test-actor namespaces a scenario needs."""

    def __init__(self):
        import pickle
        import types

        import cloudpickle

        from forml.flow._code.target import user

        import vlib.c13_actors as static

        self.user, self.picklers = user, {'pickle': pickle, 'cloudpickle': cloudpickle}
        with open(static.__file__, encoding='utf-8') as fd:
            source = fd.read()
        namespace = {'__name__': '__c13_dynamic__'}
        exec(compile(source, '<c13-dynamic>', 'exec'), namespace)  # pylint: disable=exec-used
        dynamic = types.SimpleNamespace(**namespace)
        self.spaces = {'static': static, 'dynamic': dynamic}
        self.xjobs = []

    def actor(self, scenario):
        return getattr(self.spaces[scenario['space']], scenario['flavour'])


def attempt(function, *args, **kwargs):
    """Run a piece of forml / actor code; exceptions are observations."""
    try:
        return ('ok', function(*args, **kwargs))
    except Exception as err:  # pylint: disable=broad-except
        return ('raise', type(err).__name__, str(err)[:300])


def is_varkw_defect(result):
    return result[0] == 'raise' and result[1] == 'ValueError' and 'variadic keyword parameter before keyword-only' in result[2]


def is_local_setter_defect(result):
    return result[0] == 'raise' and "Can't pickle local object 'Class.__new__.<locals>.<lambda>.<locals>.<lambda>'" in result[2]


def is_ctor_defect(flavour, result):
    return (bool(flavour['required']) and flavour['kind'].startswith('class-') and result[0] == 'raise'
            and result[1] == 'TypeError' and 'missing' in result[2] and 'required positional argument' in result[2])


# ---------------------------------------------------------------------------------------------- monitors
class Case:
    """One scenario being executed: shared reporting helpers."""

    def __init__(self, ctx, env, scenario):
        self.ctx, self.env, self.scenario = ctx, env, scenario
        self.flavour = FLAVOURS[scenario['flavour']]
        self.kind = self.flavour['kind']

    def report(self, key, what, stage, detail=None):
        self.ctx.violation(key, f"{self.scenario['flavour']}[{self.scenario['space']}] {stage}: {what}",
                           {'scenario': self.scenario, 'stage': stage, 'detail': detail})

    def compare(self, stage, path, observed, wanted, demanded=None, state_params=None):
        """Compare a list of observed apply results with the model; classify the first difference by mechanism."""
        for got, exp in zip(observed, wanted):
            self.ctx.count('apply_compared')
            part = differ(self.flavour, got, exp, demanded)
            if part is None:
                continue
            if part == 'params' and state_params is not None and got[0] == 'ok':
                gdict, edict = dict(got[1][1]), dict(exp[1][1])
                wrong = [k for k in edict if k in gdict and not same(gdict[k], edict[k])]
                if wrong and all(k in state_params and same(gdict[k], state_params[k]) for k in wrong):
                    part = 'params-from-state'
            if is_varkw_defect(got) and self.kind == 'fn-stateless' and self.flavour['open']:
                self.report(K_VARKW, f'{stage} via {path}: builder() raised {got[1:]} (another interpreter / hash order)', stage)
                return False
            if part == 'history' and got[0] == 'ok' and not got[1][2] and exp[1][2]:
                part = 'history-missing'
            self.report(f'{stage}-{part}-{self.kind}-{path}', f'observed {got!r} expected {exp!r}', stage,
                        {'path': path, 'observed': got, 'expected': exp})
            return False
        return True

    def roundtrip(self, subject, obj, how):
        """Pickle round trip of obj; returns (obj', ok).  how == 'none' returns obj itself."""
        if how == 'none':
            return obj, True
        if how == 'pickle' and not (self.scenario['space'] == 'static' and self.flavour['byname']):
            how = 'cloudpickle'  # pickle's own precondition (class resolvable by name) does not hold
        pickler = self.env.picklers[how]
        self.ctx.count(f'pickle_{subject}_checked')
        self.ctx.count(f'pickle_via_{how}')
        result = attempt(lambda: pickler.loads(pickler.dumps(obj)))
        if result[0] == 'ok':
            return result[1], True
        if subject == 'actor' and how == 'pickle' and self.kind.startswith('class-') and is_local_setter_defect(result):
            self.report(K_STDPICKLE, f'pickle.dumps(trained {self.kind} actor) raised {result[1:]}', 'pickle-actor')
        elif subject == 'actor' and is_ctor_defect(self.flavour, result):
            self.report(K_CTORARGS, f'{how} round trip of trained actor raised {result[1:]}', 'pickle-actor')
        else:
            self.report(f'pickle-{subject}-raises-{self.kind}-{how}', f'{how} round trip of {subject} raised {result[1:]}',
                        f'pickle-{subject}', {'pickler': how})
        return obj, False


def check_stateful(ctx, cls, name, wanted, space):
    ctx.count('stateful_checked')
    result = attempt(cls.is_stateful)
    if result == ('ok', wanted):
        return True
    kind = FLAVOURS[name]['kind'] if name in FLAVOURS else name.lower()
    if result[0] == 'raise' and result[1] == 'KeyError' and 'train' in result[2] and attempt(lambda: dict(cls.Mapping)) == ('ok', {}):
        ctx.violation(K_BARE, f'{name}[{space}].is_stateful() raised {result[1:]}: bare @wrap.Actor.type leaves Mapping empty',
                      {'directed': 'bare', 'space': space})
    else:
        ctx.violation(f'stateful-flag-{kind}', f'{name}[{space}].is_stateful() -> {result} expected {wanted}',
                      {'directed': 'stateful', 'name': name, 'space': space})
    return False


def run_scenario(ctx, env, scenario, force_xproc=False):  # pylint: disable=too-many-locals,too-many-branches,too-many-statements
    case = Case(ctx, env, scenario)
    flavour, user = case.flavour, env.user
    cls = env.actor(scenario)
    ctx.count('evaluations')
    ctx.count(f"flavour_{scenario['flavour']}")
    inputs = [freeze(i) for i in scenario['inputs']]
    steps = [(freeze(s[0]), decode_label(s[1]), freeze(s[2]) if len(s) > 2 else None) for s in scenario['steps']]
    more = [(freeze(s[0]), decode_label(s[1])) for s in scenario['more']]
    nontrivial = bool(steps) or bool(scenario['chain_b']) or any(v != 'none' for v in scenario['pick'].values())
    if nontrivial:
        ctx.shape(signature(scenario))

    # ---- statefulness
    if not check_stateful(ctx, cls, scenario['flavour'], flavour['stateful'], scenario['space']):
        return

    # ---- builder chains
    ops = scenario['chain_a'] + scenario['chain_b']
    trace = model_chain(ops)
    builders, builder = [], None
    for index, (kind, oargs, okwargs) in enumerate(ops):
        oargs, okwargs = freeze(oargs), freeze(okwargs)
        ctx.count('chain_ops_checked')
        if kind == 'builder':
            result = attempt(cls.builder, *oargs, **okwargs)
        else:
            result = attempt(getattr(builder, kind), *oargs, **okwargs)
        if result[0] != 'ok':
            case.report(f'chain-{kind}-raises-{case.kind}', f'{kind}(*{oargs}, **{okwargs}) raised {result[1:]}', 'chain', {'op': index})
            return
        builder = result[1]
        got = (tuple(builder.args), dict(builder.kwargs))
        if not (same(got[0], trace[index][0]) and same(sorted(got[1].items()), sorted(trace[index][1].items()))) or builder.actor is not cls:
            case.report(f'chain-{kind}-differs-{case.kind}', f'after op {index} {kind}: builder holds {got} expected {trace[index]}',
                        'chain', {'op': index})
            return
        builders.append(builder)
    builder_a, builder_b = builders[len(scenario['chain_a']) - 1], builders[-1]
    end_a, end_b = trace[len(scenario['chain_a']) - 1], trace[-1]
    params_a = model_params(flavour, *end_a)
    params_b = model_params(flavour, *end_b)
    supplied_b = supplied(flavour, *end_b)

    # ---- builder pickling
    how = scenario['pick']['builder']
    for label, original, end in (('A', builder_a, end_a), ('B', builder_b, end_b)):
        back, okay = case.roundtrip('builder', original, how)
        if not okay:
            return
        if how != 'none':
            got = attempt(lambda b=back: (type(b).__name__, b.actor is cls, tuple(b.args), sorted(dict(b.kwargs).items())))
            if got[0] != 'ok' or got[1][:2] != ('Spec', True) or not same(got[1][2:], (end[0], sorted(end[1].items()))):
                case.report(f'pickle-builder-differs-{case.kind}-{how}', f'builder {label} came back as {got} expected {end}',
                            'pickle-builder', {'pickler': how})
                return
            order = attempt(lambda b=back, o=original: (list(dict(b.kwargs)), list(dict(o.kwargs))))
            ctx.count('pickle_builder_order_checked')
            if len(order[1][1]) > 1 and order[1][1] != sorted(order[1][1]):
                ctx.count('pickle_builder_unsorted_order_checked')
            if order[0] != 'ok' or order[1][0] != order[1][1]:
                case.report(f'pickle-builder-keyword-order-{case.kind}-{how}', f'builder {label} keywords {order[1][1]} came back in the '
                            f'order {order[1][0]}', 'pickle-builder', {'pickler': how})
                return
        if label == 'A':
            builder_a = back
        else:
            builder_b = back

    # ---- twin: instantiate, check reported params, train
    result = attempt(builder_a)
    if result[0] != 'ok':
        if is_varkw_defect(result) and case.kind == 'fn-stateless' and flavour['open']:
            case.report(K_VARKW, f'builder() raised {result[1:]}', 'build')
        else:
            case.report(f'build-raises-{case.kind}', f'builder A() raised {result[1:]}', 'build')
        return
    twin = result[1]
    twin_params = dict(params_a)
    got = attempt(lambda: dict(twin.get_params()))
    ctx.count('params_checked')
    supplied_a = supplied(flavour, *end_a)  # get_params() is only demanded on builder-supplied keys (fn actors omit defaults)
    if got[0] != 'ok' or any(k not in got[1] or not same(got[1][k], twin_params[k]) for k in supplied_a):
        case.report(f'build-params-{case.kind}', f'fresh actor reports {got} expected {twin_params} on {sorted(supplied_a)}', 'build')
        return
    history, chained = [], None
    functor_mode = scenario['train_mode'] == 'functor'
    for features, labels, override in steps:
        step_params = {**twin_params, **(override or {})}

        def direct(features=features, labels=labels, override=override):
            """In functor mode an override lives for one step only (like a per-step builder); in direct mode it stays."""
            if override:
                twin.set_params(**override)
            twin.train(features, copy.deepcopy(labels))
            if override and functor_mode:
                twin.set_params(alpha=twin_params['alpha'])

        outcome = attempt(direct)
        if outcome[0] != 'ok':
            case.report(f'train-raises-{case.kind}-direct', f'training raised {outcome[1:]}', 'train')
            return
        if override and not functor_mode:
            twin_params.update(override)
        if functor_mode:
            stepper = attempt(lambda o=override: builder_a.update(**o) if o else builder_a)
            if stepper[0] != 'ok':
                case.report(f'chain-update-raises-{case.kind}', f'update(**{override}) raised {stepper[1:]}', 'train')
                return
            functor = user.Train().functor(stepper[1]).preset_state()
            functor, okay = case.roundtrip('functor', functor, scenario['pick']['functor'])
            if not okay:
                return
            outcome = attempt(functor.execute, chained, features, copy.deepcopy(labels))
            if outcome[0] != 'ok' or not isinstance(outcome[1], bytes):
                case.report(f'train-raises-{case.kind}-functor', f'SetState(Train) functor gave {outcome!r:.300}', 'train')
                return
            chained = outcome[1]
        history.append((features, labels, step_params.get('alpha')))
    exported = attempt(twin.get_state)
    if exported[0] != 'ok' or not isinstance(exported[1], bytes):
        case.report(f'get-state-raises-{case.kind}', f'get_state() gave {exported!r:.300}', 'export')
        return
    if not flavour['stateful'] and exported[1] != b'':
        ctx.count('stateless_exported_state')  # not demanded by the property; the transfer below shows any consequence
    state = chained if functor_mode and steps else exported[1]
    if flavour['fold'] and history and not fold(history):
        ctx.count('falsy_state_checked')  # trained, yet the learned value is falsy: must still transfer as trained
        ctx.note_set('falsy_states_seen', f"{case.kind}:{fold(history)!r}")
    twin_out = [attempt(twin.apply, *x) for x in inputs]
    wanted_twin = [expected(flavour, twin_params, history, x) for x in inputs]
    if not case.compare('twin', 'direct', twin_out, wanted_twin):
        return

    # ---- transfer of the state to an actor rebuilt from builder B
    transfer = scenario['transfer']
    call, preset = freeze(scenario['call']), freeze(scenario['preset'])
    params_fresh = {**params_b, **call, **preset}
    demanded = supplied_b | set(call) | set(preset)
    state_params = dict(twin_params)
    wanted = [expected(flavour, params_fresh, history, x) for x in inputs]
    ctx.count('transfer_checked')
    ctx.count(f'transfer_{transfer}')
    fresh = None
    if transfer in ('raw', 'setstate'):
        result = attempt(builder_b, **call)
        if result[0] != 'ok':
            case.report(f'build-raises-{case.kind}', f'builder B(**{call}) raised {result[1:]}', 'build')
            return
        fresh = result[1]
        if transfer == 'raw':
            result = attempt(fresh.set_state, state)
            if result[0] != 'ok':
                case.report(f'transfer-raises-{case.kind}-raw', f'set_state raised {result[1:]}', 'transfer')
                return
            observed = [attempt(fresh.apply, *x) for x in inputs]
        else:
            action = user.SetState(user.Apply())
            observed = [attempt(action, fresh, state, *x) for x in inputs]
    else:
        functor = user.Apply().functor(builder_b).preset_state()
        if transfer == 'functor-params':
            functor = functor.preset_params()
        functor, okay = case.roundtrip('functor', functor, scenario['pick']['functor'])
        if not okay:
            return
        head = (preset, state) if transfer == 'functor-params' else (state,)
        observed = [attempt(functor.execute if n % 2 else functor, *head, *x) for n, x in enumerate(inputs)]
    if not case.compare('transfer', transfer, observed, wanted, demanded, state_params):
        return
    if any(not same(params_fresh.get(k), state_params.get(k)) for k in demanded):
        ctx.count('precedence_checked')
    if same(sorted(params_fresh.items()), sorted(twin_params.items())):
        ctx.count('twin_equal_checked')
        if not all(same(o, t) for o, t in zip(observed, twin_out)):
            case.report(f'transfer-twin-differs-{case.kind}-{transfer}', f'rebuilt {observed} twin {twin_out}', 'transfer')
            return
    if fresh is not None:
        ctx.count('params_checked')
        got = attempt(lambda: dict(fresh.get_params()))
        if got[0] != 'ok' or any(k not in got[1] or not same(got[1][k], params_fresh[k]) for k in demanded):
            case.report(f'transfer-get-params-{case.kind}-{transfer}', f'get_params() {got} expected {params_fresh} on {sorted(demanded)}',
                        'transfer')
            return

    # ---- empty state leaves the actor untrained (like a never-touched one)
    ctx.count('empty_state_checked')
    untouched = attempt(builder_b)
    blank = attempt(builder_b)
    if untouched[0] != 'ok' or blank[0] != 'ok':
        case.report(f'build-raises-{case.kind}', f'builder B() raised {untouched[1:]}', 'build')
        return
    empty = b'' if len(inputs) % 2 else None
    if transfer == 'raw':
        result = attempt(blank[1].set_state, b'')
        if result[0] != 'ok':
            case.report(f'empty-state-raises-{case.kind}-raw', f'set_state(b"") raised {result[1:]}', 'empty')
            return
        observed = [attempt(blank[1].apply, *x) for x in inputs]
    elif transfer == 'setstate':
        observed = [attempt(user.SetState(user.Apply()), blank[1], empty, *x) for x in inputs]
    elif len(inputs) % 3 == 0:
        observed = [attempt(user.Apply().functor(builder_b).preset_state().execute, empty, *x) for x in inputs]
    else:
        # the very Functor object that has just been executed with the twin's state (and preset params): a runner keeps its
        # instructions and executes them again and again, every execution starts from a freshly built actor
        ctx.count('functor_reused_with_empty_state')
        head = ({}, empty) if transfer == 'functor-params' else (empty,)
        observed = [attempt(functor.execute, *head, *x) for x in inputs]
    wanted_blank = [expected(flavour, params_b, [], x) for x in inputs]
    if not case.compare('empty-state', transfer, observed, wanted_blank):
        return
    reference = [attempt(untouched[1].apply, *x) for x in inputs]
    if not all(same(o[:2], r[:2]) for o, r in zip(observed, reference)):
        case.report(f'empty-state-differs-{case.kind}-{transfer}', f'after empty state {observed} untouched {reference}', 'empty')
        return

    # ---- continued (incremental) training after the transfer
    raw_branch = fresh is not None and transfer == 'raw'
    cont_demanded = supplied_b | set(call) if raw_branch else supplied_b
    if more and flavour['lenient'] and 'alpha' not in cont_demanded:
        ctx.count('continue_skipped_lenient')  # alpha may legitimately come from the state: snapshots unpredictable
    elif more:
        ctx.count('continue_checked')
        cont_history = list(history)
        if raw_branch:
            result = attempt(lambda: [fresh.train(f, copy.deepcopy(l)) for f, l in more])
            observed = [attempt(fresh.apply, *x) for x in inputs] if result[0] == 'ok' else [result]
            cont_params = params_fresh
        else:
            cont_state, result = state, ('ok', None)
            for features, labels in more:
                result = attempt(user.Train().functor(builder_b).preset_state().execute, cont_state, features, copy.deepcopy(labels))
                if result[0] != 'ok':
                    break
                cont_state = result[1]
            functor = user.Apply().functor(builder_b).preset_state()
            observed = [attempt(functor.execute, cont_state, *x) for x in inputs] if result[0] == 'ok' else [result]
            cont_params = params_b
        cont_history += [(f, l, cont_params.get('alpha')) for f, l in more]
        wanted = [expected(flavour, cont_params, cont_history, x) for x in inputs]
        if not case.compare('continue', transfer, observed, wanted, cont_demanded, state_params):
            return

    # ---- trained actor through pickle
    how = scenario['pick']['actor']
    if how != 'none':
        back, okay = case.roundtrip('actor', twin, how)
        if okay:
            observed = [attempt(back.apply, *x) for x in inputs]
            if not all(same(o, t) for o, t in zip(observed, twin_out)):
                case.compare('pickle-actor', how, observed, wanted_twin)
                case.report(f'pickle-actor-differs-{case.kind}-{how}', f'unpickled {observed} original {twin_out}', 'pickle-actor')
                return
            got = attempt(lambda: (sorted(dict(back.get_params()).items()), back.is_stateful()))
            original = attempt(lambda: (sorted(dict(twin.get_params()).items()), flavour['stateful']))
            if got[0] != 'ok' or not same(got, original) or any(not same(dict(got[1][0]).get(k, KeyError), twin_params[k]) for k in supplied_a):
                case.report(f'pickle-actor-params-{case.kind}-{how}', f'unpickled actor reports {got} original {original} model {twin_params}',
                            'pickle-actor')
                return
            if more:
                features, labels = more[0]
                both = attempt(lambda: (back.train(features, copy.deepcopy(labels)), twin.train(features, copy.deepcopy(labels))))
                observed = [attempt(back.apply, *x) for x in inputs]
                original = [attempt(twin.apply, *x) for x in inputs]
                wanted = [expected(flavour, twin_params, history + [(features, labels, twin_params.get('alpha'))], x) for x in inputs]
                if both[0] != 'ok' or not all(same(o, t) for o, t in zip(observed, original)):
                    case.report(f'pickle-actor-continue-{case.kind}-{how}', f'after one more step: unpickled {observed} original {original} ({both[0]})',
                                'pickle-actor')
                    return
                if not case.compare('pickle-actor-continue', how, observed, wanted):
                    return

    # ---- the same artefacts in another interpreter
    if scenario['xproc'] or force_xproc:
        twin2 = attempt(builder_a)  # an unspoilt trained twin (the one above may have trained once more)
        if twin2[0] == 'ok':
            running, history2 = dict(params_a), []

            def retrain():
                for features, labels, override in steps:
                    if override:
                        twin2[1].set_params(**override)
                        running.update(override)
                    twin2[1].train(features, copy.deepcopy(labels))
                    history2.append((features, labels, running.get('alpha')))

            if attempt(retrain)[0] != 'ok':
                return  # already reported above for the first twin
            state2 = attempt(twin2[1].get_state)
            blob = attempt(env.picklers['cloudpickle'].dumps, {
                'builder': builder_b, 'functor': user.Apply().functor(builder_b).preset_state(), 'actor': twin2[1],
                'trainer': user.Train().functor(builder_b).preset_state()})
            if blob[0] != 'ok' or state2[0] != 'ok':
                case.report(f'pickle-bundle-raises-{case.kind}-cloudpickle', f'cloudpickle.dumps raised {blob[1:]}', 'xproc')
                return
            env.xjobs.append({
                'scenario': scenario, 'blob': blob[1], 'state': state2[1], 'inputs': inputs, 'more': more,
                'raw': not flavour['sloppy'], 'trainer': not (flavour['lenient'] and 'alpha' not in supplied_b),
                'want': {
                    'actor': [expected(flavour, running, history2, x) for x in inputs],
                    'builder': [expected(flavour, params_b, history2, x) for x in inputs],
                    'functor': [expected(flavour, params_b, history2, x) for x in inputs],
                    'trainer': [expected(flavour, params_b, history2 + [(f, l, params_b.get('alpha')) for f, l in more], x) for x in inputs],
                    'stateful': flavour['stateful'],
                },
                'demanded': sorted(supplied_b), 'state_params': running,
            })


def flush_xproc(ctx, env):
    """Ship the collected bundles to a fresh interpreter (different hash seed) and compare what it computes."""
    import pickle

    if not env.xjobs:
        return
    base = os.path.join(os.environ.get('TMPDIR', '/tmp'), f'c13-x{os.getpid()}')
    jobs = [{k: j[k] for k in ('blob', 'state', 'inputs', 'more', 'raw')} for j in env.xjobs]
    with open(base + '.in', 'wb') as fd:
        pickle.dump(jobs, fd)
    environ = dict(os.environ)
    environ['PYTHONHASHSEED'] = str((int(environ.get('PYTHONHASHSEED', '0') or 0) + 7919 + ctx.shard) % 4294967295)
    proc = subprocess.run([sys.executable, '-m', 'vlib.c13_child', base + '.in', base + '.out'], env=environ,
                          capture_output=True, text=True, timeout=600, check=False,
                          cwd=os.path.dirname(base))  # forml opens ./<program>.log on import: keep it in the scratch dir
    if proc.returncode != 0 or not os.path.exists(base + '.out'):
        ctx.inconclusive(f'xproc child failed rc={proc.returncode}: {proc.stderr[-800:]}')
        return
    with open(base + '.out', 'rb') as fd:
        results = pickle.load(fd)
    os.remove(base + '.in')
    os.remove(base + '.out')
    for job, result in zip(env.xjobs, results):
        case = Case(ctx, env, job['scenario'])
        flavour = case.flavour
        ctx.count('xproc_checked')
        if result.get('load'):
            load = result['load']
            if is_ctor_defect(flavour, load):
                case.report(K_CTORARGS, f'cloudpickle.loads of the bundle with a trained actor raised {load[1:]} in another process', 'xproc')
            else:
                case.report(f'xproc-load-raises-{case.kind}', f'cloudpickle.loads raised {load[1:]} in another process', 'xproc')
            continue
        if result['stateful'] != ('ok', job['want']['stateful']):
            case.report(f'xproc-stateful-flag-{case.kind}', f"is_stateful() in another process {result['stateful']}", 'xproc')
            continue
        demanded = set(job['demanded'])
        for subject in ('actor', 'builder', 'functor', 'trainer'):
            if subject not in result or not job.get(subject, True):
                continue
            if subject == 'actor':
                okay = case.compare(f'xproc-{subject}', 'cloudpickle', result[subject], job['want'][subject])
            else:
                okay = case.compare(f'xproc-{subject}', 'cloudpickle', result[subject], job['want'][subject], demanded, job['state_params'])
            if not okay:
                break
    env.xjobs = []


# ---------------------------------------------------------------------------------------------- directed cases
def directed(ctx, env):
    """Statefulness of every class in both namespaces and one directed case per known finding."""
    import inspect

    from forml.pipeline import wrap

    available = {}
    for space, namespace in env.spaces.items():
        for name, wanted in [(n, f['stateful']) for n, f in FLAVOURS.items()] + list(STATEFUL_EXTRA.items()):
            ctx.count('directed_stateful_checked')
            okay = check_stateful(ctx, getattr(namespace, name), name, wanted, space)
            if name in FLAVOURS:
                available[name] = available.get(name, True) and okay
        # instances answer like their class
        for name in ('NativeCustom', 'NativeStateless', 'FnStatefulPos', 'WrapNamed', 'WrapStateless'):
            ctx.count('directed_stateful_checked')
            got = attempt(lambda n=name, ns=namespace: getattr(ns, n)().is_stateful())
            if got != ('ok', FLAVOURS[name]['stateful']):
                ctx.violation(f"stateful-flag-instance-{FLAVOURS[name]['kind']}", f'{name}().is_stateful() -> {got}',
                              {'directed': 'stateful-instance', 'name': name, 'space': space})
    # K_VARKW: documented signature ``def foo(features, /, *, opt1, **kwargs)``; the option set is hash ordered, so
    # probe several option names - on the unfixed tree about 3 of 4 fail, deterministically for a given interpreter
    ctx.count('directed_varkw_checked')
    failures = []
    for index in range(24):
        names = [f'opt{index}_{i}' for i in range(3)]
        namespace = {}
        exec(f"def probe(features, /, *, {', '.join(f'{n}={i}' for i, n in enumerate(names))}, **kwargs):\n"  # pylint: disable=exec-used
             f"    return features, {', '.join(names)}, kwargs", namespace)
        actor = wrap.Actor.apply(namespace['probe'])
        result = attempt(lambda a=actor, n=names: a.builder(**{n[0]: 5})().apply('x'))
        if is_varkw_defect(result):
            failures.append(names)
        elif result != ('ok', ('x', 5, 1, 2, {})):
            ctx.violation('fn-stateless-varkw-build', f'probe actor with options {names} gave {result}', {'directed': 'varkw'})
    if failures:
        kinds = [p.kind.name for p in inspect.signature(env.spaces['static'].FnStatelessKw.Apply).parameters.values()]
        ctx.violation(K_VARKW, f'@wrap.Actor.apply on (features, /, *, o1, o2, o3, **kwargs): builder() raised ValueError(wrong '
                               f'parameter order) for {len(failures)}/24 option-name sets (set-ordered signature; kinds {kinds})',
                      {'directed': 'varkw', 'failing': failures[:2]})
    if available.get('FnStatelessKw'):
        probe = attempt(lambda: env.spaces['static'].FnStatelessKw.builder(alpha=2)())
        if is_varkw_defect(probe):
            available['FnStatelessKw'] = False
            ctx.count('flavour_unusable_in_shard_FnStatelessKw')
        elif probe[0] != 'ok':
            ctx.violation('build-raises-fn-stateless', f'FnStatelessKw.builder(alpha=2)() raised {probe[1:]}', {'directed': 'varkw-flavour'})
            available['FnStatelessKw'] = False
    # K_STDPICKLE and K_CTORARGS: directed scenarios
    for name, how in (('WrapNamed', 'pickle'), ('WrapRequired', 'cloudpickle')):
        run_scenario(ctx, env, {
            'flavour': name, 'space': 'static', 'chain_a': [['builder', [], {'alpha': 4}]], 'chain_b': [], 'steps': [['f', 'l']],
            'more': [], 'inputs': [['x']], 'train_mode': 'direct', 'transfer': 'raw',
            'pick': {'builder': how, 'functor': 'none', 'actor': how}, 'call': {}, 'preset': {}, 'xproc': False})
    # falsy learned states: every fold flavour x falsy value x transfer path x train mode x namespace (sharded), one
    # training step (the exported state *is* the falsy value), one continued step, trained actor through cloudpickle
    index = 0
    for name in [n for n, f in FLAVOURS.items() if f['fold']]:
        for value in FALSY:
            for transfer in TRANSFERS:
                for mode in ('direct', 'functor'):
                    index += 1
                    if not ctx.mine(index) or not available.get(name):
                        continue
                    ctx.count('directed_falsy_checked')
                    run_scenario(ctx, env, {
                        'flavour': name, 'space': SPACES[index % 2], 'chain_a': [['builder', [], {'alpha': 4}]],
                        'chain_b': [['update', [], {'beta': 'q'}]] if index % 3 else [], 'steps': [['f', {'$': value}]],
                        'more': [['g', {'$': 'int5'}]], 'inputs': [['x']], 'train_mode': mode, 'transfer': transfer,
                        'pick': {'builder': 'none', 'functor': 'cloudpickle' if index % 5 == 0 else 'none', 'actor': 'cloudpickle'},
                        'call': {}, 'preset': {'beta': 'r'} if transfer == 'functor-params' else {}, 'xproc': index % 7 == 0})
    return [name for name in FLAVOURS if available.get(name)]


# ---------------------------------------------------------------------------------------------- entry points
def run(ctx):
    env = Env()
    names = directed(ctx, env)
    ctx.note_set('flavours_exercised', sorted(names))
    total = ctx.pick(2400, 64000)
    for index in range(total):
        if not ctx.mine(index):
            continue
        scenario = gen_scenario(ctx.rng('scenario', index), list(FLAVOURS))  # independent of the shard layout
        if scenario['flavour'] not in names:
            ctx.count('skipped_unusable_flavour')
            continue
        run_scenario(ctx, env, scenario)
        if index % 401 == 0:
            ctx.sample({k: scenario[k] for k in ('flavour', 'space', 'chain_a', 'chain_b', 'steps', 'transfer', 'pick')})
    flush_xproc(ctx, env)


def replay(ctx, witness):
    env = Env()
    if 'directed' in witness:
        directed(ctx, env)
        return
    run_scenario(ctx, env, witness['scenario'], force_xproc=witness.get('stage') == 'xproc')
    flush_xproc(ctx, env)
