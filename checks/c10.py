"""C10 - ordinal windows deliver each record as the delivery semantic promises.

Everything is evaluated END-TO-END on the real code: ``project.Source.query(table.select(..), ordinal=col, once=..)`` ->
real ``forml.provider.feed.alchemy.Feed`` over a sqlite file -> ``Feed.load(extract, lower, upper)`` -> trunk ->
``flow.compile`` of the apply and the train segment -> reference interpreter (vlib.symbolic) -> ``RowDriver`` /
``TableDriver`` + ``Slicer`` -> ``Statement.Prepared.__call__`` -> ``Ordinal.where`` (kind cast) -> alchemy parser ->
sqlite.  The observation is the multiset of row ids each launch delivered (per mode); the oracle is plain arithmetic
on the ordinal axis written from the property text.

Monitors
  window   : per launch with bounds (l, u): every record with l < ord < u is delivered exactly once, no record with
             ord < l or ord > u is delivered, nothing unknown is delivered; ``None`` leaves the side open (so
             (None, None) delivers every record once).  Records whose ordinal EQUALS a bound are free at this level -
             the property leaves the inclusive side to the semantic.  Train-mode labels stay aligned to their rows.
  sequence : for every increasing bound sequence b0<..<bk (k+1 in 1..4) over the kind's 6-value domain the windows
             (None,b0),(b0,b1),..,(bk,None) are summed: exactly -> each record exactly once; atmost -> never twice and
             off-bound records exactly once; atleast -> never zero times and off-bound records exactly once.
             The 28 distinct windows of a configuration are each launched once (one feed object, consecutive
             launches) and all 56 sequences are composed from those launches.
  kind     : the bounds are handed over natively and in other compatible python types (numeric strings, floats,
             ints, Decimal, ISO strings, datetime / pandas.Timestamp for dates, date for midnight timestamps, ints for
             digit strings); data and domains are chosen so that a comparison in the wrong kind changes the result
             (string ordinals '10' < '9', integer bounds given as '9' < '10').
  alias    : every spelling the code accepts (case-insensitively) resolves to the documented member, and every
             spelling is used by at least one end-to-end configuration (rotating).
  refusal  : a source without ordinal refuses any not-None bound (exception anywhere between load and read), and
             still loads unbounded.
  train    : the REAL ``runtime.Runner.train`` (base-class ``train/_build/_exec`` untouched, ``run`` = reference
             interpreter) over a real ``asset.Instance`` on a volatile registry whose last generation's real
             ``asset.Tag`` carries a training ordinal K (or none / never trained): the train extract delivers the
             window (lower if lower is not None else K, upper) to a recording stateful actor.  The project is an
             in-code artifact (``Source.bind``), not an on-disk package.

Oracle is no stricter than the property: which end of a window is inclusive is never prescribed, only the sums.
NULL ordinals are outside the property (not on the ordinal axis) and are not generated.  ``once=None`` (unspecified)
is only subject to the window monitor.
"""
import collections
import datetime
import itertools

PROPERTY = 'C10'
LEVEL = 'exploration'
RULE = (
    'configuration = ordinal kind {integer,float,date,timestamp,string} x semantic {exactly,atmost,atleast,unspecified} '
    '(spelling alias rotating over all accepted spellings incl. the enum member) x bound representation (native and '
    '2-4 other compatible python types per kind) x labels on/off x ordinal selected/not x seeded random data (5-12 '
    'rows from a pool around the 6-value domain, duplicates and values equal to bounds forced); per configuration all '
    '28 distinct windows over the domain (incl. open ends, falsy bounds 0 / 0.0 / \'\') are launched end-to-end once '
    '(evaluations = launches) and all 56 increasing bound sequences of length 1-4 are composed from them; plus '
    'exhaustive refusal cases for sources without ordinal and Runner.train cases (tag ordinal x lower x upper x '
    'semantic). distinct = distinct (kind, semantic, representation, data, sequence | refusal case | train case); '
    'non-trivial = at least one record equals a bound of the sequence and the data has >= 2 distinct ordinals'
)
ASSUMPTIONS = [
    'sqlite (3.40) compares the stored representations in the order of the python values: ints/floats numerically, '
    'ASCII strings bytewise (BINARY collation), dates/timestamps as fixed-width ISO text written by SQLAlchemy',
    'the 28 windows of a configuration are independent launches (fresh Feed.load, compile and read each), so the sum '
    'over a sequence composed from them equals the sum over launching that sequence',
    'every dataset lives in a uniquely named table, so the alchemy feed result cache (keyed by SQL text; property C06) '
    'cannot serve rows of another dataset',
    'the spelling list of the alias monitor was read off the pinned Once._missing_; an alias added later is not covered',
    'Runner.train is driven with an in-code artifact on a volatile registry and the reference interpreter as run(); '
    'the dask/graphviz/pyfunc runners inherit the same train() (their equivalence is property C02)',
]
MANIFEST = {
    'text': 'Exploration: extraction windows are launched end-to-end (Source.query -> alchemy Feed.load -> compiled '
            'apply/train extract segment -> interpreter -> alchemy parser -> sqlite) for every ordinal kind, semantic '
            'and spelling, bound representation and all windows / increasing bound sequences (length 1-4) over a '
            '6-value domain with falsy and data-equal bounds on seeded random data with duplicates; delivered row-id '
            'multisets are compared with interval arithmetic written from the property text. Refusal of bounds '
            'without ordinal and the real Runner.train default lower bound (tag ordinal) are enumerated. Holds on '
            'the configurations observed - not a proof over all data.',
    'design_ref': 'DESIGN.md section 5 / C10',
    'note': 'Trusted: the ~60-line interval/multiset oracle in checks/c10.py, sqlite ordering of the stored '
            'representations, vlib.symbolic.Interpreter. Sequences are composed from once-launched windows.',
    'technique': 'runtime monitoring: end-to-end differential oracle (multiset arithmetic on the ordinal axis)',
}

D = datetime.date
T = datetime.datetime
KINDS = ('integer', 'float', 'date', 'timestamp', 'string')
DOMAIN = {
    'integer': [-2, -1, 0, 1, 9, 10],  # -2 / -1 (and -2.0 / -1.0) collide under python's hash()
    'float': [-2.0, -1.0, 0.0, 0.5, 2.25, 1000.0],
    'date': [D(2019, 12, 31), D(2020, 1, 1), D(2020, 1, 2), D(2020, 2, 29), D(2020, 3, 1), D(2021, 1, 1)],
    'timestamp': [T(2019, 12, 31, 23, 59, 59), T(2020, 1, 1), T(2020, 1, 1, 0, 0, 1), T(2020, 1, 1, 12, 30, 0, 500000),
                  T(2020, 1, 2), T(2020, 6, 15, 8)],
    'string': ['', '10', '9', 'A', 'a', 'ab'],
}
POOL = {
    'integer': list(range(-5, 13)) + [95, 100],
    'float': [-2.0, -1.5, -1.0, -0.25, 0.0, 0.25, 0.5, 0.75, 1.0, 1.5, 2.25, 3.0, 999.5, 1000.0, 1000.5],
    'date': [D(2019, 12, 30), D(2019, 12, 31), D(2020, 1, 1), D(2020, 1, 2), D(2020, 1, 3), D(2020, 2, 28), D(2020, 2, 29),
             D(2020, 3, 1), D(2020, 3, 2), D(2020, 12, 31), D(2021, 1, 1), D(2021, 1, 2)],
    'timestamp': [T(2019, 12, 31, 23, 59, 58), T(2019, 12, 31, 23, 59, 59), T(2019, 12, 31, 23, 59, 59, 999999), T(2020, 1, 1),
                  T(2020, 1, 1, 0, 0, 0, 1), T(2020, 1, 1, 0, 0, 1), T(2020, 1, 1, 12, 30), T(2020, 1, 1, 12, 30, 0, 500000),
                  T(2020, 1, 1, 12, 30, 0, 500001), T(2020, 1, 1, 23, 59, 59), T(2020, 1, 2), T(2020, 1, 2, 0, 0, 1),
                  T(2020, 6, 15, 8), T(2020, 6, 15, 8, 0, 1), T(2021, 1, 1)],
    'string': ['', ' ', '1', '10', '100', '5', '9', '95', 'A', 'B', 'Z', 'a', 'aa', 'ab', 'abc', 'b'],
}
REPRS = {
    'integer': ['native', 'str', 'float'],
    'float': ['native', 'str', 'int-if-integral', 'decimal'],
    'date': ['native', 'str', 'datetime', 'pandas'],
    'timestamp': ['native', 'str', 'isot', 'pandas', 'date-if-midnight'],
    'string': ['native', 'int-if-digits'],
}
SPELLINGS = {
    'exactly': ['exactly', 'exact', 'exactlyonce', 'exactly-once', 'EXACTLY', 'Exactly-Once', '<member>'],
    'atmost': ['atmost', 'most', 'at-most', 'atmostonce', 'at-most-once', 'ATMOST', 'At-Most-Once', '<member>'],
    'atleast': ['atleast', 'least', 'at-least', 'atleastonce', 'at-least-once', 'AtLeast', 'AT-LEAST-ONCE', '<member>'],
}
SEMANTICS = ('exactly', 'atmost', 'atleast')
NIDX = 6
WINDOWS = [(None, None)] + [(None, j) for j in range(NIDX)] + [(i, None) for i in range(NIDX)] + list(
    itertools.combinations(range(NIDX), 2))
SEQUENCES = [seq for n in range(1, 5) for seq in itertools.combinations(range(NIDX), n)]


def shards(tier):
    return 6 if tier == 'quick' else 14


def floors(tier):
    scale = 1 if tier == 'quick' else 15
    return {
        'windows_checked': 1200 * scale,
        'sequences_checked': 2000 * scale,
        'boundary_records_seen': 1000 * scale,
        'falsy_bound_windows': 150 * scale,
        'open_ended_windows': 500 * scale,
        'alias_checked': 23,
        'refusal_checked': 90,
        'train_checked': 80 if tier == 'quick' else 800,
        'labels_checked': 300 * scale,
    }


# ---------------------------------------------------------------- value codec (witnesses are JSON)
def enc(kind, value):
    if value is None:
        return None
    if kind in ('date', 'timestamp'):
        return value.isoformat()
    return value


def dec(kind, value):
    if value is None:
        return None
    if kind == 'date':
        return D.fromisoformat(value)
    if kind == 'timestamp':
        return T.fromisoformat(value)
    return value


# ---------------------------------------------------------------- oracle (from the property text)
def position(o, lower, upper):
    """'out-lower' | 'out-upper' | 'inside' | 'bound' relative to the window (None = open)."""
    if lower is not None and o < lower:
        return 'out-lower'
    if upper is not None and o > upper:
        return 'out-upper'
    if (lower is not None and o == lower) or (upper is not None and o == upper):
        return 'bound'
    return 'inside'


def window_fault(data, rids, lower, upper):
    """First disagreement of the delivered row ids with the window, as (key, detail) or None."""
    delivered = collections.Counter(rids)
    for rid in delivered:
        if not 0 <= rid < len(data):
            return 'window-delivers-unknown-record', f'row id {rid} is not in the table'
    for rid, o in enumerate(data):
        where = position(o, lower, upper)
        count = delivered.get(rid, 0)
        if where == 'inside' and count == 0:
            return 'window-drops-interior-record', f'record {rid} (ordinal {o!r}) strictly inside the window not delivered'
        if where == 'inside' and count > 1:
            return 'window-duplicates-interior-record', f'record {rid} (ordinal {o!r}) delivered {count}x by one launch'
        if where == 'out-lower' and count:
            falsy = '-falsy' if not lower else ''
            return f'lower-bound-not-applied{falsy}', f'record {rid} (ordinal {o!r}) below the lower bound {lower!r} delivered'
        if where == 'out-upper' and count:
            falsy = '-falsy' if not upper else ''
            return f'upper-bound-not-applied{falsy}', f'record {rid} (ordinal {o!r}) above the upper bound {upper!r} delivered'
    return None


def sequence_fault(semantic, data, bounds, totals):
    """First disagreement of the per-record totals over the consecutive windows with the semantic."""
    for rid, o in enumerate(data):
        count = totals.get(rid, 0)
        at = 'at-bound' if o in bounds else 'off-bound'
        if count == 1:
            continue
        if at == 'off-bound':
            return (f'{semantic}-off-bound-record-' + ('duplicated' if count else 'dropped'),
                    f'record {rid} (ordinal {o!r}, equal to no bound) delivered {count}x')
        if semantic == 'exactly':
            return (f'exactly-at-bound-record-' + ('duplicated' if count else 'dropped'),
                    f'record {rid} (ordinal {o!r}) delivered {count}x under exactly-once')
        if semantic == 'atmost' and count > 1:
            return 'atmost-at-bound-record-duplicated', f'record {rid} (ordinal {o!r}) delivered {count}x under at-most-once'
        if semantic == 'atleast' and count == 0:
            return 'atleast-at-bound-record-dropped', f'record {rid} (ordinal {o!r}) never delivered under at-least-once'
    return None


# ---------------------------------------------------------------- workload
class Env:
    """Per-process handles (forml is imported here, not at module level)."""

    def __init__(self):
        import tempfile

        from vlib import c10_lib

        self.lib = c10_lib
        self.db = c10_lib.Database(tempfile.gettempdir())

    def once(self, semantic, spelling):
        if spelling == '<member>':
            return getattr(self.lib.once_members(), semantic.upper())
        return spelling


def gen_data(rng, kind):
    domain, pool = DOMAIN[kind], POOL[kind]
    size = rng.randint(5, 12)
    data = rng.sample(domain, rng.randint(2, 4))
    while len(data) < size - 1:
        data.append(rng.choice(pool))
    data.append(rng.choice(data))  # a forced duplicate
    rng.shuffle(data)
    return data


def configs(ctx):
    """Deterministic global list of configurations (sharded by index)."""
    out = []
    turn = collections.Counter()
    for dataset in range(ctx.pick(1, 16)):
        for kind in KINDS:
            for semantic in SEMANTICS + ('unspecified',):
                for rep in REPRS[kind] if semantic != 'unspecified' else ['native']:
                    rng = ctx.rng('cfg', dataset, kind, semantic, rep)
                    spelling = None
                    if semantic != 'unspecified':
                        spelling = SPELLINGS[semantic][turn[semantic] % len(SPELLINGS[semantic])]
                        turn[semantic] += 1
                    out.append({
                        'kind': kind, 'semantic': semantic, 'spelling': spelling, 'rep': rep,
                        'labels': rng.random() < 0.6, 'selected': rng.random() < 0.7,
                        'data': [enc(kind, v) for v in gen_data(rng, kind)],
                    })
    return out


def given(env, cfg, index):
    """The bound handed to forml for the domain index (None = open side) and its native value."""
    if index is None:
        return None, None
    native = DOMAIN[cfg['kind']][index]
    return env.lib.REPS[cfg['rep']](native), native


def raise_key(cfg, bounds, err):
    """Mechanism key of an exception raised by a launch."""
    kind, rep = cfg['kind'], cfg['rep']
    if kind == 'date' and type(err).__name__ == 'GrammarError' and any(isinstance(b, T) for b in bounds):
        return 'date-bound-given-as-datetime-raises'
    return f'window-raises-{kind}-bound-as-{rep}'


def launch(ctx, env, cfg, feed, source, data, window):
    """One end-to-end launch + the window monitor.  Returns {'apply': [...], 'train': [...]} or None."""
    kind = cfg['kind']
    (lower, nlower), (upper, nupper) = given(env, cfg, window[0]), given(env, cfg, window[1])
    ctx.count('evaluations')
    ctx.count('windows_checked')
    witness = {'t': 'window', 'cfg': cfg, 'window': list(window)}
    try:
        result = env.lib.execute(feed, source.extract, lower, upper, cfg['labels'])
    except Exception as err:  # pylint: disable=broad-except
        ctx.count('windows_raised')
        ctx.violation(raise_key(cfg, (lower, upper), err),
                      f'{kind} ordinal, once={cfg["spelling"]!r}: launch with lower={lower!r} upper={upper!r} raised {err!r}',
                      witness)
        return None
    if window[0] is None or window[1] is None:
        ctx.count('open_ended_windows')
    if (window[0] is not None and not nlower) or (window[1] is not None and not nupper):
        ctx.count('falsy_bound_windows')
    ctx.count('boundary_records_seen', sum(1 for o in data if position(o, nlower, nupper) == 'bound'))
    ctx.count('records_delivered', len(result['apply']))
    for mode in ('apply', 'train'):
        fault = window_fault(data, result[mode], nlower, nupper)
        if fault:
            ctx.violation(fault[0],
                          f'{kind} ordinal, once={cfg["spelling"]!r}, {mode} mode, bounds as {cfg["rep"]}: window '
                          f'({lower!r}, {upper!r}) over {data}: {fault[1]}; delivered rows {sorted(result[mode])}', witness)
            break
    if cfg['labels']:
        ctx.count('labels_checked')
        if result['labels'] != [env.lib.label_of(r) for r in result['train']]:
            ctx.violation('train-labels-misaligned', f'labels {result["labels"]} do not belong to rows {result["train"]}', witness)
    return result


def run_config(ctx, env, cfg, windows=None, sequences=None):
    kind, semantic = cfg['kind'], cfg['semantic']
    data = [dec(kind, v) for v in cfg['data']]
    ctx.count('configs')
    ctx.count(f'configs_{semantic}')
    ctx.note_set('kinds_x_reprs', f'{kind}/{cfg["rep"]}')
    if cfg['spelling']:
        ctx.note_set(f'spellings_{semantic}', cfg['spelling'])
    try:
        table = env.db.table(kind, data)
        feed = env.db.feed(kind, table)
        source = env.lib.source(kind, env.once(semantic, cfg['spelling']) if cfg['spelling'] else None, cfg['labels'],
                                cfg['selected'])
    except Exception as err:  # pylint: disable=broad-except
        ctx.violation(f'source-setup-raises-{kind}', f'Source.query/Feed for {cfg} raised {err!r}', {'t': 'window', 'cfg': cfg, 'window': [None, None]})
        return
    results = {}
    failed = 0
    for number, window in enumerate(windows if windows is not None else WINDOWS):
        results[window] = launch(ctx, env, cfg, feed, source, data, window)
        failed += results[window] is None
        if windows is None and number == 5 and failed >= 5:
            ctx.count('configs_aborted')  # nothing works with this representation: witnesses recorded, move on
            return
    if semantic == 'unspecified':
        return
    for seq in sequences if sequences is not None else SEQUENCES:
        chain = [None, *seq, None]
        launches = [results.get((a, b)) for a, b in zip(chain, chain[1:])]
        if any(r is None for r in launches):
            ctx.count('sequences_skipped')
            continue
        ctx.count('sequences_checked')
        ctx.count('evaluations')  # a composed bound sequence is a case of its own (judged over its windows' deliveries)
        ctx.count(f'sequences_{semantic}')
        bounds = {DOMAIN[kind][i] for i in seq}
        if any(o in bounds for o in data) and len(set(data)) > 1:
            ctx.shape(('seq', kind, semantic, cfg['rep'], seq, sorted(cfg['data'], key=repr)))
        for mode in ('apply', 'train'):
            totals = collections.Counter(rid for r in launches for rid in r[mode])
            fault = sequence_fault(semantic, data, bounds, totals)
            if fault:
                ctx.violation(fault[0],
                              f'{kind} ordinal, once={cfg["spelling"]!r} ({semantic}), {mode} mode, bounds as {cfg["rep"]}: '
                              f'consecutive windows over bounds {[enc(kind, DOMAIN[kind][i]) for i in seq]} on data '
                              f'{cfg["data"]}: {fault[1]}', {'t': 'seq', 'cfg': cfg, 'seq': list(seq)})
                break
    if ctx.counters.get('configs', 0) % 40 == 1:
        ctx.sample({'kind': kind, 'once': cfg['spelling'], 'bounds_as': cfg['rep'], 'data': cfg['data'],
                    'window': [enc(kind, DOMAIN[kind][1]), enc(kind, DOMAIN[kind][4])],
                    'delivered_rows': results.get((1, 4)) and sorted(results[(1, 4)]['apply'])})


# ---------------------------------------------------------------- alias monitor
def check_alias(ctx, env, semantic, spelling):
    ctx.count('alias_checked')
    once = env.lib.once_members()
    witness = {'t': 'alias', 'semantic': semantic, 'spelling': spelling}
    try:
        member = once(env.once(semantic, spelling))
    except Exception as err:  # pylint: disable=broad-except
        ctx.violation('alias-not-accepted', f'Once({spelling!r}) raised {err!r}', witness)
        return
    if member is not getattr(once, semantic.upper()):
        ctx.violation('alias-wrong-semantic', f'Once({spelling!r}) -> {member!r}, expected {semantic}', witness)


# ---------------------------------------------------------------- refusal monitor
def refusal_cases(kind):
    falsy = [i for i, v in enumerate(DOMAIN[kind]) if not v]
    picks = sorted(set(falsy + [0, 1, 5]))
    cases = [(i, None) for i in picks] + [(None, i) for i in picks] + [(i, j) for i in picks for j in picks if i < j]
    reps = ['native'] + [r for r in REPRS[kind] if r in ('int-if-integral', 'float', 'decimal')]
    return [(rep, lo, up) for rep in reps for lo, up in cases]


def check_refusal(ctx, env, case, tables):
    kind, rep, lo, up = case['kind'], case['rep'], case['lower'], case['upper']
    cfg = {'kind': kind, 'rep': rep}
    ctx.count('evaluations')
    ctx.count('refusal_checked')
    if kind not in tables:
        tables[kind] = env.db.table(kind, POOL[kind])
    feed = env.db.feed(kind, tables[kind])
    source = env.lib.source(kind, None, case['labels'], True, ordinal=False)
    (lower, nlower), (upper, nupper) = given(env, cfg, lo), given(env, cfg, up)
    ctx.shape(('refusal', kind, rep, lo, up, case['labels']))
    witness = dict(case, t='refusal')
    try:
        result = env.lib.execute(feed, source.extract, lower, upper, case['labels'])
    except Exception as err:  # pylint: disable=broad-except
        if lo is None and up is None:
            ctx.violation('unbounded-load-without-ordinal-raises', f'{kind}: unbounded load raised {err!r}', witness)
        else:
            ctx.count('refused_ok')
        return
    if lo is None and up is None:
        if sorted(result['apply']) != list(range(len(POOL[kind]))) or sorted(result['train']) != list(range(len(POOL[kind]))):
            ctx.violation('unbounded-load-without-ordinal-incomplete', f'{kind}: delivered {result}', witness)
        return
    only_falsy = all(not n for i, n in ((lo, nlower), (up, nupper)) if i is not None)
    ctx.violation('falsy-bounds-without-ordinal-accepted' if only_falsy else 'bounds-without-ordinal-accepted',
                  f'{kind} source WITHOUT ordinal accepted lower={lower!r} upper={upper!r} and delivered '
                  f'{len(result["apply"])} rows instead of refusing', witness)


# ---------------------------------------------------------------- Runner.train monitor
def train_cases(ctx):
    out = []
    turn = 0
    for kind in KINDS:
        domain = DOMAIN[kind]
        falsy = next((i for i, v in enumerate(domain) if not v), 1)
        tags = ctx.pick(['untrained', falsy, 3], ['untrained', None, 0, 1, 3, 5])
        lowers = ctx.pick([None, falsy, 4], [None, 0, 1, 2, 3, 4, 5])
        uppers = ctx.pick([None, 5], [None, 4])
        for semantic in ctx.pick([None], SEMANTICS):
            for tag in tags:
                for lower in lowers:
                    for upper in uppers:
                        if lower is not None and upper is not None and lower >= upper:
                            continue
                        sem = semantic or SEMANTICS[turn % 3]
                        turn += 1
                        out.append({'kind': kind, 'semantic': sem, 'tag': tag, 'lower': lower, 'upper': upper})
    return out


def check_train(ctx, env, case, tables):
    kind, domain = case['kind'], DOMAIN[case['kind']]
    data = POOL[kind]
    pick = lambda i: None if i is None else domain[i]  # noqa: E731
    tag = case['tag'] if case['tag'] in ('untrained', None) else domain[case['tag']]
    lower, upper = pick(case['lower']), pick(case['upper'])
    witness = dict(case, t='train')
    if kind not in tables:
        tables[kind] = env.db.table(kind, data)
    feed = env.db.feed(kind, tables[kind])
    source = env.lib.source(kind, case['semantic'], True, True)
    try:
        inst = env.lib.instance(source, tag)
        stored = inst.tag.training.ordinal
    except Exception as err:  # pylint: disable=broad-except
        ctx.count('train_setup_skipped')  # persisting a tag is property C18
        ctx.note_set('train_setup_skipped', f'{kind}: {type(err).__name__}')
        return
    expected_tag = None if tag == 'untrained' else tag
    if stored != expected_tag or type(stored) is not type(expected_tag):
        ctx.count('train_setup_skipped')  # the registry did not give the ordinal back unchanged: property C18
        ctx.note_set('train_setup_skipped', f'{kind}: tag ordinal {expected_tag!r} read back as {stored!r}')
        return
    ctx.count('evaluations')
    ctx.count('train_checked')
    ctx.shape(('train', kind, case['semantic'], case['tag'], case['lower'], case['upper']))
    falsy_lower = lower is not None and not lower
    if falsy_lower:
        ctx.count('train_falsy_lower')
    if lower is None and expected_tag is not None:
        ctx.count('train_defaulted_from_tag')
    what = f'Runner.train(lower={lower!r}, upper={upper!r}) on a {kind} ordinal ({case["semantic"]}) with last tag ordinal {tag!r}'
    try:
        events = env.lib.train(inst, feed, lower, upper)
    except Exception as err:  # pylint: disable=broad-except
        ctx.violation(f'train-raises-{kind}', f'{what} raised {err!r}', witness)
        return
    if len(events) != 1 or events[0][0] != 'train':
        ctx.violation('train-recorder-events', f'{what}: recorder saw {[(e[0], len(e[1])) for e in events]}', witness)
        return
    rids = events[0][1]
    effective = lower if lower is not None else expected_tag
    fault = window_fault(data, rids, effective, upper)
    if not fault:
        return
    if falsy_lower and window_fault(data, rids, expected_tag, upper) is None:
        key = 'train-falsy-lower-treated-as-absent'  # behaves exactly as if the explicit falsy lower had not been given
    elif fault[0].startswith('upper-bound'):
        key = 'train-upper-bound-not-applied'
    elif lower is None:
        key = 'train-default-lower-not-from-tag'
    else:
        key = 'train-explicit-lower-not-used'
    ctx.violation(key, f'{what}: expected the window ({effective!r}, {upper!r}): {fault[1]}; delivered ordinals '
                       f'{sorted(data[r] for r in rids if 0 <= r < len(data))}', witness)


# ---------------------------------------------------------------- entry points
def run(ctx):
    env = Env()
    index = 0
    for semantic, spellings in SPELLINGS.items():
        for spelling in spellings:
            index += 1
            if ctx.mine(index):
                check_alias(ctx, env, semantic, spelling)
    for cfg in configs(ctx):
        index += 1
        if ctx.mine(index):
            run_config(ctx, env, cfg)
    tables = {}
    for kind in KINDS:
        cases = [('native', None, None)] + refusal_cases(kind)
        for number, (rep, lo, up) in enumerate(cases):
            index += 1
            if ctx.mine(index):
                check_refusal(ctx, env, {'kind': kind, 'rep': rep, 'lower': lo, 'upper': up, 'labels': number % 2 == 0}, tables)
    tables = {}
    for case in train_cases(ctx):
        index += 1
        if ctx.mine(index):
            check_train(ctx, env, case, tables)
    env.db.close()


def replay(ctx, witness):
    env = Env()
    kind = witness.get('t')
    if kind == 'window':
        run_config(ctx, env, witness['cfg'], windows=[tuple(witness['window'])], sequences=[])
    elif kind == 'seq':
        seq = tuple(witness['seq'])
        chain = [None, *seq, None]
        run_config(ctx, env, witness['cfg'], windows=list(zip(chain, chain[1:])), sequences=[seq])
    elif kind == 'alias':
        check_alias(ctx, env, witness['semantic'], witness['spelling'])
    elif kind == 'refusal':
        check_refusal(ctx, env, {k: witness[k] for k in ('kind', 'rep', 'lower', 'upper', 'labels')}, {})
    elif kind == 'train':
        check_train(ctx, env, {k: witness[k] for k in ('kind', 'semantic', 'tag', 'lower', 'upper')}, {})
    else:
        raise ValueError(f'unknown witness {witness}')
    env.db.close()
