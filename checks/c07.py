"""C07 - a query statement is constructible exactly when it obeys the DSL grammar.

Workload: conforming statement ASTs from ``vlib/dslgen.py`` (exhaustive skeletons: origin shapes up to a nesting depth x
every clause combination x join / set kinds, with seeded expression leaves; plus seeded random deeper statements) and,
for each, single-rule mutants at every position (foreign column in select / where / groupby / having / orderby / join
condition, non-boolean filter, aggregate in where / groupby / join condition, window in having, non-aggregate feature
outside the grouping, incompatible comparison / arithmetic operand kinds, unequal set schemas, cross join with / other
join without condition).  Every candidate is constructed for real twice - through the fluent API (``A.select(..)
.where(..)``, python operators) and through the raw constructors (``dsl.Query(..)``, ``dsl.Join(..)``,
``function.Equal(..)``) - and a third time with a conjunctive filter issued as two ``.where`` calls.

Monitors (oracle = ``dslgen.violations`` written from the rule list of the property text, not from forml's code):
  verdict : conforming -> constructs; mutant -> ``dsl.GrammarError``; any other exception is a violation either way
  schema  : ``.schema`` of every constructed conforming statement lists the oracle's output names / kinds in order

Oracle relaxations (the property does not say more, so these are neither generated nor judged - ``dslgen.unspecified``):
  aliased features in operand positions, ranking windows outside select / having, windows selected from a grouped
  query, boolean-vs-number operands, numeric aggregates / scalar functions over other kinds, nested aggregates, sets /
  references over statements with un-named outputs, self joins without a reference, negative limits;
  a join condition is read as a filter over the two joined sides (so its elements must come from them);
  the kind of an integer division and of ``Avg`` over integers is accepted as Integer or Float; the *name* of an
  un-aliased expression is not fixed by the property - only arity / kinds are compared for those.
"""
PROPERTY = 'C07'
LEVEL = 'exploration'
RULE = (
    'statement ASTs over a 3-table catalog: origin skeletons (table, reference, 5 join kinds, nested joins, reference of '
    'a query / of a set, self join through a reference) up to nesting depth 1 (quick) / 2 (thorough) x every combination '
    'of the clauses select/where/groupby/having/orderby/rows x plain-vs-expression x named-vs-unnamed outputs x set kinds, '
    'seeded expression leaves, plus seeded random statements up to depth 3; for each conforming statement single-rule '
    'mutants of 19 rules at sampled (quick) / all (thorough) positions; each candidate built fluent + raw (+ split '
    'where). distinct = distinct (statement skeleton with leaves abstracted, rule violated, position, construction '
    'route); non-trivial = every mutant, and conforming statements with at least one clause or a non-table source'
)
ASSUMPTIONS = [
    'the well-formedness oracle (vlib/dslgen.py violations/schema_of/unspecified, ~250 lines) states the rule list of the '
    'property and nothing more; constructs whose acceptance the property does not fix are not generated',
    'statements are drawn from a fixed catalog A(x,y:int,z:float,s:str) B(x,w:int,t:str) C(k:int,v:float,d:date,b:bool); '
    'kinds Decimal/Timestamp/Array/Map/Struct are not exercised',
    'a column that does not exist in its own origin is not a statement of the DSL (python raises at attribute access)',
]
MANIFEST = {
    'text': 'Exploration: thousands of generated conforming statements and single-rule mutants (19 rules, every clause '
            'position) are constructed for real through the fluent API and the raw constructors; GrammarError / success / '
            'other exception and the resulting .schema are compared with an independent rule-list oracle over the '
            "generator's AST. Holds on the statements observed - not a proof over all statements.",
    'design_ref': 'DESIGN.md section 5 / C07',
    'note': 'Trusted: the rule-list oracle in vlib/dslgen.py; constructs the property leaves open are excluded (listed in '
            'the module docstring).',
    'technique': 'runtime monitoring: generated-input differential oracle on live statement construction',
}
RULES = [
    'scope-select', 'scope-where', 'scope-groupby', 'scope-having', 'scope-orderby', 'scope-join', 'where-not-boolean',
    'having-not-boolean', 'join-condition-not-boolean', 'aggregate-in-where', 'aggregate-in-groupby', 'aggregate-in-join',
    'window-in-having', 'non-aggregate-outside-grouping', 'comparison-kinds', 'arithmetic-kinds', 'set-schema',
    'cross-join-with-condition', 'join-without-condition',
]


def shards(tier):
    return 8 if tier == 'quick' else 16


def floors(tier):
    scale = 1 if tier == 'quick' else 10
    out = {'evaluations': 6000 * scale, 'conforming_checked': 400 * scale, 'mutants_checked': 2500 * scale,
           'schema_checked': 500 * scale, 'schema_fully_named': 250 * scale, 'built_fluent': 3000 * scale,
           'built_raw': 3000 * scale, 'built_split': 15 * scale, 'directed_checked': 40, 'set_query_checked': 2500}
    for rule in RULES:
        out[f'rule_{rule}'] = (40 if rule != 'set-schema' else 15) * (1 if tier == 'quick' else 10)
    return out


# ---------------------------------------------------------------------------------------------- classification
def pythonic_selected(g, ast):
    """A fluent ``==`` / ``<`` comparison sits un-aliased directly in some select list of the statement."""
    for _, node in g.walk(ast):
        if node[0] == 'query' and any(item[0] == 'cmp' and item[1] in ('==', '<') for item in node[2]):
            return True
    return False


def foreign_only_in_windows(g, ast):
    """Every out-of-scope column of the statement lies inside a window feature."""
    found = [(r, p) for r, p in g.violations(ast) if r.startswith('scope-')]
    if not found or len(found) != len(g.violations(ast)):
        return False
    for _, path in found:
        if not any(isinstance(g.get(ast, path[:end]), tuple) and g.get(ast, path[:end])[:1] == ('window',)
                   for end in range(len(path))):
            return False
    return True


def grouping_hash_collision(g, ast):
    """Every 'non-aggregate outside the grouping' item differs from a grouping key only in literals that collide under
    python's hash (so forml's set difference over hash-equal features drops it)."""
    found = g.violations(ast)
    if not found or any(r != 'non-aggregate-outside-grouping' for r, _ in found):
        return False
    for _, path in found:
        if len(path) < 2 or path[-2] != 2:
            return False
        owner = g.get(ast, path[:-2])
        item = g.strip_alias(g.get(ast, path))
        if not any((pairs := g.literal_difference(item, key)) and all(hash(v) == hash(w) for v, w in pairs)
                   for key in owner[4]):
            return False
    return True


def describe(err):
    return f'{type(err).__name__}: {str(err)[:160]}'


# ---------------------------------------------------------------------------------------------- monitors
def construct(g, dsl, ast, route):
    try:
        if route == 'raw':
            return 'ok', g.build_raw(ast)
        if route == 'permuted':  # the clause methods of every query called in a seeded order (any order denotes one statement)
            from vlib import core

            return 'ok', g.build(ast, order=core.subseed('c07-order', g.signature(ast)))
        return 'ok', g.build(ast, split=(route == 'split'))
    except dsl.GrammarError as err:
        return 'grammar', err
    except g.DslgenError:
        raise
    except RecursionError as err:
        return 'RecursionError', err
    except Exception as err:  # pylint: disable=broad-except
        return type(err).__name__, err


def check_schema(ctx, g, ast, obj, route, witness):
    ctx.count('schema_checked')
    expected = g.schema_of(ast)
    names = [n for n, _ in expected]
    try:
        observed = [(f.name, type(f.kind).__name__) for f in obj.schema]
    except RecursionError as err:
        if None in names:
            ctx.violation('schema-unnamed-feature', f'.schema of a statement with an un-aliased expression raised {describe(err)}',
                          witness)
        else:
            ctx.violation('schema-raises-RecursionError', f'.schema raised {describe(err)}', witness)
        return
    except Exception as err:  # pylint: disable=broad-except
        ctx.violation(f'schema-raises-{type(err).__name__}', f'.schema raised {describe(err)} ({route})', witness)
        return
    if None not in names:
        ctx.count('schema_fully_named')

    def fits(pair, want):
        return (want[0] is None or pair[0] == want[0]) and pair[1] in want[1].split('|')

    if len(observed) == len(expected) and all(fits(o, e) for o, e in zip(observed, expected)):
        return
    named = [n for n in names if n is not None]
    if len(set(named)) != len(named):
        collapsed = {}
        for name, kind in expected:
            collapsed[name if name is not None else len(collapsed)] = kind
        if len(observed) == len(collapsed) and all(fits(o, (n if isinstance(n, str) else None, k))
                                                   for o, (n, k) in zip(observed, collapsed.items())):
            ctx.violation('schema-duplicate-names-collapsed',
                          f'.schema lists {len(observed)} fields {observed} for {len(expected)} output features {expected}', witness)
            return
    if len(observed) != len(expected):
        key = 'schema-arity'
    elif not all(e[0] is None or o[0] == e[0] for o, e in zip(observed, expected)):
        same = sorted(o[0] for o in observed) == sorted(e[0] for e in expected if e[0] is not None) and None not in names
        key = 'schema-order' if same else 'schema-name'
    else:
        key = 'schema-kind'
    ctx.violation(key, f'.schema is {observed}, the output features are {expected} ({route})', witness)


def check_candidate(ctx, g, dsl, ast, rule=None, position=None, routes=('fluent', 'raw'), tag=None):
    """One candidate statement: verdict on every construction route, schema when it constructs."""
    ast = g.norm(ast)
    found = g.violations(ast)
    if rule is None and found:
        raise g.DslgenError(f'generator emitted an ill-formed statement: {found[:2]} {ast}')
    if rule is not None and not found:
        raise g.DslgenError(f'mutator emitted a conforming statement for {rule}: {ast}')
    skeleton = g.skeleton(ast)
    trivial = rule is None and ast[0] == 'query' and ast[1][0] == 'table' and not any(ast[2:8])
    for route in routes:
        ctx.count('evaluations')
        ctx.count(f'built_{route}')
        witness = {'ast': ast, 'route': route, 'rule': rule, 'position': position, 'tag': tag}
        if not trivial:
            ctx.shape((skeleton, rule, position, route))
        verdict, result = construct(g, dsl, ast, route)
        pythonic = (route != 'raw' and verdict == 'RuntimeError' and 'Pythonic' in str(result)
                    and pythonic_selected(g, ast))
        if rule is None:
            if verdict == 'ok':
                ctx.count('conforming_constructed')
                check_schema(ctx, g, ast, result, route, witness)
            elif pythonic:
                ctx.violation('pythonic-proxy-selected', f'conforming statement raised {describe(result)} ({route})', witness)
            elif verdict == 'grammar':
                ctx.violation('conforming-rejected', f'conforming statement raised {describe(result)} ({route})', witness)
            else:
                ctx.violation(f'conforming-raises-{verdict}', f'conforming statement raised {describe(result)} ({route})', witness)
        else:
            if verdict == 'grammar':
                ctx.count('mutants_rejected')
            elif pythonic:
                ctx.violation('pythonic-proxy-selected', f'statement raised {describe(result)} instead of GrammarError ({route})',
                              witness)
            elif verdict == 'ok':
                if foreign_only_in_windows(g, ast):
                    key = 'window-hides-foreign-element'
                elif grouping_hash_collision(g, ast):
                    key = 'grouping-literal-hash-collision'
                else:
                    key = f'accepted-{rule}'
                ctx.violation(key, f'statement violating {rule} at {position} constructed: {result!r:.300} ({route})', witness)
            else:
                ctx.violation(f'{rule}-raises-{verdict}', f'statement violating {rule} raised {describe(result)} ({route})', witness)
    if rule is None:
        ctx.count('conforming_checked')
    else:
        ctx.count('mutants_checked')
        ctx.count(f'rule_{rule}')


def directed(g):
    """(tag, ast, rule|None): the interactions the property names and one case per known finding."""
    A, B, C = g.table('A'), g.table('B'), g.table('C')
    ax, ay, az, as_ = (g.column('A', n) for n in 'xyzs')
    bx, bw = g.column('B', 'x'), g.column('B', 'w')
    ck, cd, cb = g.column('C', 'k'), g.column('C', 'd'), g.column('C', 'b')
    one = g.lit(1)
    r = g.reference(A, 'r')
    sub = g.reference(g.query(A, [ax, g.alias(g.arith('+', ay, one), 'k')], where=g.cmp('>', az, g.lit(0.5))), 'q')
    qk, qx = g.column('q', 'k'), g.column('q', 'x')
    cases = [
        ('alias-inside-grouping', g.query(A, [g.alias(ax, 'g'), g.alias(g.agg('sum', ay), 't')], groupby=[ax]), None),
        ('expression-grouping', g.query(A, [g.alias(g.arith('+', ax, one), 'g'), g.alias(g.agg('count', as_), 'n')],
                                        groupby=[g.arith('+', ax, one)]), None),
        ('expression-grouping-differs', g.query(A, [g.alias(g.arith('+', ax, g.lit(2)), 'g'), g.alias(g.agg('count', as_), 'n')],
                                                groupby=[g.arith('+', ax, one)]), 'non-aggregate-outside-grouping'),
        ('aggregate-nested-in-arithmetic', g.query(A, [ax, g.alias(g.arith('*', g.arith('+', g.agg('sum', ay), one), g.lit(2)), 't')],
                                                   groupby=[ax]), None),
        ('select-star-fully-grouped', g.query(A, groupby=[ax, ay, az, as_]), None),
    ] + [
        # grouping by a predicate written with every native comparison operator (lazy proxies for == and <), selected too
        (f'comparison-grouping-{op}{"-aliased" if aliased else ""}',
         g.query(A, [g.alias(g.cmp(op, ax, one), 'g') if aliased else g.cmp(op, ax, one), g.alias(g.agg('count', as_), 'n')],
                 groupby=[g.cmp(op, ax, one)]), None)
        for op in ('==', '!=', '<', '<=', '>', '>=') for aliased in (True, False)
    ] + [
        ('comparison-grouping-differs', g.query(A, [g.alias(g.cmp('==', ax, g.lit(2)), 'g'), g.alias(g.agg('count', as_), 'n')],
                                                groupby=[g.cmp('==', ax, one)]), 'non-aggregate-outside-grouping'),
        ('logical-grouping', g.query(A, [g.alias(g.and_(g.cmp('<', ax, one), g.cmp('==', ay, one)), 'g'), g.alias(g.agg('count', as_), 'n')],
                                     groupby=[g.and_(g.cmp('<', ax, one), g.cmp('==', ay, one))]), None),
        ('select-star-partly-grouped', g.query(A, groupby=[ax]), 'non-aggregate-outside-grouping'),
        ('literal-selected-with-grouping', g.query(A, [ax, g.alias(one, 'one')], groupby=[ax]), 'non-aggregate-outside-grouping'),
        ('reference-of-query', g.query(sub, [qk, qx], where=g.cmp('>', qk, one), orderby=[(qx, 'desc')]), None),
        ('reference-of-query-inner-column', g.query(sub, [qk, ax]), 'scope-select'),
        ('reference-hides-table', g.query(r, [ax]), 'scope-select'),
        ('table-hides-reference', g.query(A, [g.column(r, 'x')]), 'scope-select'),
        ('self-join-through-reference', g.query(g.join(A, r, 'left', g.cmp('==', ax, g.column('r', 'y'))), [ax, g.alias(g.column('r', 'x'), 'rx')]), None),
        ('literal-only-predicate-true', g.query(A, [ax], where=g.lit(True)), None),
        ('literal-only-predicate-cmp', g.query(A, [ax], where=g.cmp('<', one, g.lit(2))), None),
        ('literal-only-predicate-int', g.query(A, [ax], where=one), 'where-not-boolean'),
        ('literal-only-having', g.query(A, [ax, g.alias(g.agg('count', ay), 'n')], groupby=[ax], having=g.cmp('==', g.lit('a'), g.lit('a'))), None),
        ('boolean-column-filter', g.query(C, [ck], where=cb), None),
        ('boolean-column-filter-and', g.query(C, [ck], where=g.and_(cb, g.notnull(cd))), None),
        ('join-condition-literal', g.join(A, B, 'inner', g.lit(True)), None),
        ('join-condition-one-sided', g.join(A, B, 'full', g.cmp('>', ax, one)), None),
        ('join-condition-third-table', g.join(A, B, 'inner', g.cmp('==', ax, ck)), 'scope-join'),
        ('cross-join-literal-condition', g.join(A, B, 'cross', g.lit(True)), 'cross-join-with-condition'),
        ('having-aggregate', g.query(A, [ax], groupby=[ax], having=g.cmp('>', g.agg('sum', ay), one)), None),
        ('having-window', g.query(A, [ax], groupby=[ax], having=g.cmp('>', g.window('rownumber', None, [ax]), one)), 'window-in-having'),
        ('window-selected', g.query(A, [ax, g.alias(g.window('sum', ay, [ax], [(ay, 'asc')]), 'w')]), None),
        ('where-aggregate-window', g.query(A, [ax], where=g.cmp('>', g.window('sum', ay, [ax]), one)), 'aggregate-in-where'),
        ('set-same-schema', g.setop(g.query(A, [ax, as_]), g.query(B, [bx, g.alias(g.column('B', 't'), 's')]), 'union'), None),
        ('set-other-order', g.setop(g.query(A, [ax, as_]), g.query(B, [g.alias(g.column('B', 't'), 's'), bx]), 'union'), 'set-schema'),
        ('set-other-kind', g.setop(g.query(A, [ax]), g.query(A, [g.alias(az, 'x')]), 'difference'), 'set-schema'),
        ('set-other-name', g.setop(g.query(A, [ax]), g.query(B, [bw]), 'intersection'), 'set-schema'),
        ('set-of-set', g.setop(g.setop(g.query(A, [ax]), g.query(B, [bx]), 'union'), g.query(C, [g.alias(ck, 'x')]), 'difference'), None),
        ('comparison-int-float', g.query(A, [ax], where=g.cmp('<=', ax, az)), None),
        ('comparison-date-date', g.query(C, [ck], where=g.cmp('>', cd, g.lit('2020-01-01', 'date'))), None),
        ('comparison-date-int', g.query(C, [ck], where=g.cmp('>', cd, one)), 'comparison-kinds'),
        ('arithmetic-string', g.query(A, [g.alias(g.arith('+', as_, one), 'k')]), 'arithmetic-kinds'),
        ('cast-then-arithmetic', g.query(A, [g.alias(g.arith('+', g.cast(as_, 'Integer'), one), 'k')]), None),
        # ---- one case per known finding
        ('known-schema-unnamed', g.query(A, [g.arith('+', ax, one)]), None),
        ('known-schema-duplicate-names', g.query(g.join(A, B, 'inner', g.cmp('==', ax, bx)), [ax, bx]), None),
        ('fluent-equality-selected', g.query(A, [g.cmp('==', ax, one), g.cmp('<', ay, one)]), None),
        ('known-window-hides-foreign', g.query(A, [g.alias(g.window('count', bx, [bx]), 'w')]), 'scope-select'),
        ('known-grouping-collision', g.query(A, [g.alias(g.arith('+', ax, g.lit(-1)), 'k'), g.alias(g.agg('count', ay), 'n')],
                                             groupby=[g.arith('+', ax, g.lit(-2))]), 'non-aggregate-outside-grouping'),
    ]
    return cases


def check_raw_kind_strings(ctx, g, dsl):
    """``dsl.Join`` documents ``kind: Union[Kind, str]``: the string spelling of a conforming join must construct too."""
    tables = g.catalog()
    left, right = tables['A'], tables['B']
    for kind in g.JOIN_KINDS:
        ctx.count('evaluations')
        ctx.count('directed_checked')
        ctx.shape(('raw-join-kind-string', kind))
        witness = {'raw_join_kind': kind}
        try:
            joined = dsl.Join(left, right, kind, None if kind == 'cross' else left.x == right.x)
        except dsl.GrammarError as err:
            ctx.violation('raw-join-kind-as-string', f'dsl.Join(A, B, {kind!r}, ...) raised {describe(err)}', witness)
            continue
        except Exception as err:  # pylint: disable=broad-except
            ctx.violation(f'raw-join-kind-raises-{type(err).__name__}', f'dsl.Join(A, B, {kind!r}, ...) raised {describe(err)}', witness)
            continue
        if joined.kind is not dsl.Join.Kind(kind):
            ctx.violation('raw-join-kind-as-string', f'dsl.Join(A, B, {kind!r}, ...).kind is {joined.kind!r}, not the Kind member',
                          witness)


def run(ctx):
    from forml.io import dsl

    from vlib import dslgen as g

    rng = ctx.rng('gen')  # the same statement stream in every shard; shards take slices of it
    depth = ctx.pick(1, 2)
    index = 0
    per_rule = ctx.pick(1, None)
    stride = ctx.pick(3, 1)  # quick: every third skeleton
    for ast in g.enumerate_asts(depth, rng, leaves=1):
        index += 1
        if not ctx.mine(index // stride) or index % stride:
            continue
        local = ctx.rng('mut', index)
        routes = ('fluent', 'raw')
        if ast[0] == 'query' and any(c is not None and c[0] == 'and' for c in (ast[3], ast[5])):
            routes += ('split',)
        if ast[0] == 'query' and sum(1 for c in ast[2:8] if c) >= 2:
            routes += ('permuted',)
        check_candidate(ctx, g, dsl, ast, routes=routes)
        if index % 211 == 0:
            ctx.sample({'conforming': ast})
        for mutant, rule, position in g.mutate(ast, local, per_rule=per_rule):
            check_candidate(ctx, g, dsl, mutant, rule, list(position))
            if local.random() < 0.0005:
                ctx.sample({'mutant': mutant, 'rule': rule, 'position': list(position)})
    # -------- seeded random deeper statements
    for i in range(ctx.pick(240, 3000)):
        if not ctx.mine(i):
            continue
        local = ctx.rng('random', i)
        ast = g.random_ast(local, depth=local.choice((2, 3, 3)))
        ctx.count('random_statements')
        check_candidate(ctx, g, dsl, ast, routes=('fluent', 'raw', 'permuted'))
        for mutant, rule, position in g.mutate(ast, local, per_rule=ctx.pick(1, 3)):
            check_candidate(ctx, g, dsl, mutant, rule, list(position), routes=('fluent', 'raw', 'permuted') if i % 4 == 0 else ('fluent', 'raw'))
    # -------- directed interactions and known findings (every shard: they are few)
    if ctx.shard == 0:
        for tag, ast, rule in directed(g):
            ctx.count('directed_checked')
            expect = g.wellformed(ast)
            if (rule is None) != expect[0] or (rule is not None and expect[1] != rule):
                raise g.DslgenError(f'directed case {tag}: oracle says {expect}, case says {rule}')
            if g.unspecified(ast):
                raise g.DslgenError(f'directed case {tag} is unspecified: {g.unspecified(ast)}')
            check_candidate(ctx, g, dsl, ast, rule, None, tag=tag)
        check_raw_kind_strings(ctx, g, dsl)
    check_set_queries(ctx, g, dsl)


def check_set_queries(ctx, g, dsl, only=None):
    """A set statement queried directly (``set.query``): the queried source provides exactly what the set's (left)
    operand projects - a clause using any other column, even of the very same table, must be refused; one using a
    provided column must be accepted.  (The AST grammar of vlib.dslgen only queries a set through a reference, so this
    family is built on the real objects here.)"""
    import itertools

    from forml.io.dsl import function

    tables = g.catalog()
    a, twin, b = tables['A'], tables['A2'], tables['B']
    names = [n for n, _ in g.SCHEMA['A']]
    clauses = {
        'select': lambda q, c: q.select(c),
        'select-expression': lambda q, c: q.select(function.Cast(c, dsl.String()).alias('e')),
        'where': lambda q, c: q.where(function.NotNull(c)),
        'groupby': lambda q, c: q.select(c, function.Count(c).alias('n')).groupby(c),
        'having': lambda q, c: q.select(function.Count(c).alias('n')).having(function.Count(c) > 0),
        'orderby': lambda q, c: q.orderby(c, 'desc'),
    }
    index = 0
    for kind, size in itertools.product(('union', 'intersection', 'difference'), (1, 2, 3)):
        for projected in itertools.combinations(names, size):
            left = a.select(*(a[n] for n in projected))
            right = twin.select(*(twin[n] for n in projected))
            for nested in (False, True):
                statement = getattr(left, kind)(right)
                if nested:
                    statement = statement.union(left)
                for clause, build in clauses.items():
                    candidates = [(f'provided:{n}', a[n], True) for n in projected]
                    candidates += [(f'unprovided:{n}', a[n], False) for n in names if n not in projected]
                    candidates += [(f'right-operand:{projected[0]}', twin[projected[0]], False), ('foreign:w', b['w'], False)]
                    for label, column, allowed in candidates:
                        index += 1
                        case = {'set_query': [kind, list(projected), nested, clause, label]}
                        if only is not None and case['set_query'] != only:
                            continue
                        if only is None and not ctx.mine(index):
                            continue
                        ctx.count('evaluations')
                        ctx.count('set_query_checked')
                        ctx.shape(('set-query', kind, projected, nested, clause, label.split(':')[0]))
                        try:
                            build(statement.query, column)
                            outcome = 'accepted'
                        except dsl.GrammarError:
                            outcome = 'refused'
                        except Exception as err:  # pylint: disable=broad-except
                            outcome = f'raised {err!r}'
                        if outcome == ('accepted' if allowed else 'refused'):
                            continue
                        key = ('set-query-rejected-conforming' if allowed else 'set-query-accepted-element-not-provided') if \
                            outcome in ('accepted', 'refused') else 'set-query-raises'
                        ctx.violation(key, f'{clause} of {label} on a {"nested " if nested else ""}{kind} projecting {list(projected)}: '
                                      f'{outcome}', case)


def replay(ctx, witness):
    from forml.io import dsl

    from vlib import dslgen as g

    if 'set_query' in witness:
        check_set_queries(ctx, g, dsl, only=witness['set_query'])
        return
    if 'raw_join_kind' in witness:
        check_raw_kind_strings(ctx, g, dsl)
        return
    check_candidate(ctx, g, dsl, g.norm(witness['ast']), witness.get('rule'), witness.get('position'),
                    routes=(witness.get('route') or 'fluent',), tag=witness.get('tag'))
