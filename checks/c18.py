"""C18 - persisted metadata and keys read back exactly as written.

Monitors (all on the live forml code, oracle = identity / own PEP 440 implementation / ``int``):
  tag      : a tag built the way the lifecycle builds it (``Tag().training.trigger(ts)`` -> ``.training.replace(ordinal=)``
             -> ``.tuning.trigger()/replace(score=)`` -> ``.replace(states=)``) carries exactly what was set, and
             ``Tag.loads(tag.dumps())`` gives back every field with equal value *and type*, states in order; a share of
             the tags also goes through a real posix registry (``Release.put`` -> tag.toml -> ``Generation.tag``)
  manifest : ``Manifest.read`` after ``Manifest.write`` == original (name, version, package, module map), version
             normalised as PEP 440 says
  package  : ``Package.create`` (zip, zip-safe or not) and directory packages: manifest and file content preserved;
             ``Package.install`` (directly, through posix push/pull/mount, through the volatile registry) yields an artifact
             whose components - described by their definitions: query columns / threshold / label, operator chain,
             evaluation marker - equal the ones of the source tree, loaded from the installed location
  keys     : ``Release.Key`` accepts exactly PEP 440 versions, orders / equates / hashes like PEP 440; ``Generation.Key``
             accepts naturals >= 1, orders as int, ``next`` is +1; clearly invalid keys are rejected
  commit   : on a release whose generations sit under arbitrary keys (gaps, not starting at one) one more generation committed the
             runner's way (``Release.dump`` + ``Release.put`` / ``State.commit``) gets the key max+1, a fresh reader lists the old
             keys plus that one, "latest" resolves to it, its tag and states read back as written, every older tag is unchanged
  listing  : ``Level.Listing`` of random key multisets and the listings of all three levels of real posix and volatile
             registries (random push / close order, equal-version directories, invalidly named noise directories) are
             strictly increasing, hold exactly the valid keys, and the implicit ("latest") key is the maximum

Oracle relaxations (the property does not say more):
  * ``-0.0`` reads back as ``0.0`` (equal value) - accepted; NaN scores are compared with isnan; tz-aware datetimes
    must keep instant and utc offset, not the tzinfo class; utc offsets are whole minutes (TOML / RFC 3339);
  * generation keys spelled in python-int syntax beyond ``[1-9][0-9]*`` ('01', ' 1', '+1', '1_0', non-ascii digits) get
    no verdict (counted in ``observed``); any exception counts as a rejection of an invalid key;
  * a tag without training timestamp is never persisted by the lifecycle - not generated;
  * strings are UTF-8 encodable (no lone surrogates); distribution names are PEP 508 names; package and module names
    are dotted python identifiers (any script, incl. outside the BMP);
  * 'v1' is a legal PEP 440 spelling (normal form '1'), so Release.Key must accept it while Generation.Key must not.

Known findings on the pinned tree (known_findings.d/C18.json, one directed case each so the line is printed on every run):
Decimal ordinal read back as float/int; four classes of str ordinals broken by toml 0.10.2 (characters repr()'d as \\xNN, a
literal backslash-x, a leading double quote followed by a quote or nothing, a literal backslash-u next to a \\uNNNN-escaped
character); a non-BMP module path in a manifest (json.dumps into python source); a manifest rewritten in place within a second
with bytecode caching on (directed case flips ``sys.dont_write_bytecode`` back to python's default for its duration); sibling
helper modules of a package kept in ``sys.modules`` between two releases loaded in one process.
"""
import os

PROPERTY = 'C18'
LEVEL = 'exploration'
RULE = (
    'seeded random cases plus a directed list: tags (training timestamp naive/aware with microseconds; ordinal of kind none/int incl. '
    'big/float/str incl. quotes, backslashes, newlines, unicode, control characters/bool/Decimal/date/datetime; tuning absent or '
    'present with score none/int/float; 0..n states), manifests (PEP 508 names x PEP 440 spelling variants x dotted unicode '
    'package names x module maps), generated project packages (directory / zip-safe zip / zip with data files x direct install / '
    'posix push-pull-mount / volatile), version lists from a structured PEP 440 generator with small components (equal and '
    'adjacent versions frequent) plus mutated near-valid strings, generation key lists, registry layouts with random push and '
    'close order; distinct = distinct encoded case; non-trivial = a tag with an ordinal, tuning or a state, a manifest, a '
    'package, a key list with >= 2 keys, a registry layout with >= 2 keys at some level'
)
ASSUMPTIONS = [
    'type-strict identity is the meaning of "read back equal" for primitive ordinals (DESIGN C18: value or type)',
    'the PEP 440 oracle (regex of appendix B + ordering key written from the PEP text) is cross-checked against packaging.version on every '
    'case; a disagreement makes the run inconclusive instead of a violation',
    'components of two separate imports are compared through their definitions (query repr, columns, threshold, label, operator chain, '
    'evaluation marker) and forml equality of the Source descriptor - forml offers no deeper component equality',
    'top-level package names are unique per generated package case; loading two releases of the same package in one process is covered '
    'by two directed cases only',
    'the harness runs with PYTHONDONTWRITEBYTECODE=1; only the directed manifest-rewrite case restores python\'s default bytecode caching',
]
MANIFEST = {
    'text': 'Exploration: thousands of generated tags, manifests, project packages, version / generation keys and registry layouts are '
            'written and read back through the real Tag / Manifest / Package / posix and volatile registry code and compared with what '
            'was written (type-strict) and with an independent PEP 440 / natural-number ordering oracle. Holds on the inputs observed - '
            'not a proof over all values.',
    'design_ref': 'DESIGN.md section 5 / C18',
    'note': 'Trusted: vlib/c18_oracle.py (value codec, PEP 440 parser and ordering key, generators), vlib/c18_projgen.py (project '
            'generator and component description).',
    'technique': 'runtime monitoring: generated-input round-trip identity and differential ordering oracle on the live persistence code',
}


def shards(tier):
    return 4 if tier == 'quick' else 12


def floors(tier):
    if tier == 'quick':
        return {
            'tag_checked': 3000, 'tag_registry_checked': 150, 'manifest_checked': 500, 'package_checked': 80, 'components_checked': 80,
            'release_key_checked': 2000, 'release_invalid_rejected': 300, 'generation_key_checked': 1500, 'generation_invalid_rejected': 40,
            'listing_checked': 400, 'registry_listing_checked': 40, 'volatile_listing_checked': 16, 'directed_checked': 40,
            'commit_checked': 60, 'commit_gapped_checked': 30, 'reinstall_steps': 100,
        }
    return {
        'tag_checked': 100000, 'tag_registry_checked': 8000, 'manifest_checked': 12000, 'package_checked': 1500, 'components_checked': 1500,
        'release_key_checked': 40000, 'release_invalid_rejected': 8000, 'generation_key_checked': 40000, 'generation_invalid_rejected': 40,
        'listing_checked': 30000, 'registry_listing_checked': 800, 'volatile_listing_checked': 300, 'directed_checked': 40,
        'commit_checked': 700, 'commit_gapped_checked': 350, 'reinstall_steps': 1000,
    }


class Env:
    """forml modules and scratch space of one shard."""

    def __init__(self):
        import pathlib
        import tempfile

        import forml
        from forml import project
        from forml.io import asset
        from forml.provider.registry.filesystem import posix, volatile

        from vlib import c18_oracle, c18_projgen

        self.forml, self.project, self.asset, self.posix, self.volatile = forml, project, asset, posix, volatile
        self.o, self.pg = c18_oracle, c18_projgen
        self.base = pathlib.Path(tempfile.mkdtemp(prefix='c18-'))
        self.serial = 0
        self.tagreg = None

    def scratch(self):
        self.serial += 1
        path = self.base / f'w{self.serial}'
        path.mkdir()
        return path

    def drop(self, path):
        import shutil

        shutil.rmtree(path, ignore_errors=True)


# ---------------------------------------------------------------------------------------------------- tags
def build_tag(env, case):
    """The lifecycle's way of making a tag: trigger, then replace."""
    o, asset = env.o, env.asset
    import uuid

    tag = asset.Tag().training.trigger(o.dec(case['training']))
    ordinal = o.dec(case['ordinal'])
    if ordinal is not None:
        tag = tag.training.replace(ordinal=ordinal)
    if case['tuning']['k'] != 'none':
        tag = tag.tuning.trigger(o.dec(case['tuning']))
        score = o.dec(case['score'])
        if score is not None:
            tag = tag.tuning.replace(score=score)
    return tag.replace(states=tuple(uuid.UUID(s) for s in case['states']))  # Committer.execute(*states) hands over a tuple


def tag_diff(env, case, tag):
    """Names of the fields of tag that differ from what the case says (type-strict)."""
    o = env.o
    import uuid

    found = []
    try:
        observed = {'training': tag.training.timestamp, 'ordinal': tag.training.ordinal, 'tuning': tag.tuning.timestamp,
                    'score': tag.tuning.score}
        states = tag.states
    except Exception:  # pylint: disable=broad-except
        return ['structure']
    for field, value in observed.items():
        if not o.same(o.dec(case[field]), value):
            found.append(field)
    if list(states) != [uuid.UUID(s) for s in case['states']] or any(type(s) is not uuid.UUID for s in states):
        found.append('states')
    return found


def tag_known(env, case, fields):
    """Mechanism key if the failure is explained by a structural feature of the ordinal alone, else None.
    fields: the differing fields, or None when dumps/loads raised."""
    if fields is not None and fields != ['ordinal']:
        return None
    kind = case['ordinal']['k']
    if kind == 'decimal' and fields == ['ordinal']:
        return 'tag-ordinal-decimal-type-lost'
    if kind == 'str':
        mechanisms = env.o.string_mechanisms(case['ordinal']['v'])
        if mechanisms:
            return 'tag-str-ordinal-' + mechanisms[0]
    return None


def check_tag(ctx, env, case, via_registry=False, directed=False):
    asset = env.asset
    ctx.count('evaluations')
    ctx.count('tag_checked')
    signature = env.o.tag_signature(case)
    if signature is not None:
        ctx.shape(signature)
    witness = {'kind': 'tag', 'case': case, 'via_registry': via_registry}
    try:
        tag = build_tag(env, case)
    except Exception as err:  # pylint: disable=broad-except
        ctx.violation('tag-build-raises', f'building the tag through trigger/replace raised {err!r}', witness)
        return
    built = tag_diff(env, case, tag)
    if built or not tag.training or bool(tag.tuning) != (case['tuning']['k'] != 'none') or not tag:
        ctx.violation('tag-build-' + '-'.join(built or ['truth']) + '-differs', f'trigger/replace produced {tag} for {case}', witness)
        return
    ctx.count('tag_build_checked')
    stage = 'dumps'
    try:
        raw = tag.dumps()
        stage = 'loads'
        back = asset.Tag.loads(raw)
    except Exception as err:  # pylint: disable=broad-except
        key = tag_known(env, case, None) or f'tag-{stage}-raises'
        ctx.violation(key, f'Tag.{stage} raised {err!r} for ordinal {case["ordinal"]} (case {case})', witness)
        return
    fields = tag_diff(env, case, back)
    if fields:
        known = tag_known(env, case, ['ordinal']) if 'ordinal' in fields else None
        if known:  # the ordinal is explained by its own mechanism; anything else that differs is reported on its own
            ctx.violation(known, f'Tag.loads(dumps()) changed the ordinal: wrote {tag} read {back} (text {raw!r})', witness)
            fields = [f for f in fields if f != 'ordinal']
        if fields:
            ctx.violation('tag-roundtrip-' + '-'.join(fields) + '-differs', f'Tag.loads(dumps()) changed {fields}: wrote {tag} read {back} '
                                                                           f'(text {raw!r})', witness)
        return
    nan = case['score']['k'] == 'float' and case['score']['v'] == 'nan'  # NaN never equals itself: no forml equality either
    if not nan and (not back == tag or back != tag):
        ctx.violation('tag-roundtrip-forml-equality', f'fields identical but Tag.__eq__ says different: {tag} vs {back}', witness)
        return
    if directed:
        ctx.count('directed_checked')
    if not via_registry:
        return
    # through a real registry: Release.put (lifecycle commit) -> tag.toml -> a fresh Directory reading it
    ctx.count('tag_registry_checked')
    try:
        env.tagputs = getattr(env, 'tagputs', 0) + 1
        if env.tagreg is None or env.tagputs % 30 == 0:  # a fresh registry now and then keeps the listings short
            root = env.scratch()
            registry = env.posix.Registry(root / 'reg')
            holder = root / 'pkg'
            env.project.Manifest('tags', '1', 'nothing').write(holder)
            registry.push(env.project.Package(holder))
            env.tagreg = root / 'reg'
        registry = env.posix.Registry(env.tagreg)
        release = asset.Directory(registry).get('tags').get('1')
        for sid in tag.states:
            registry.write('tags', release.key, sid, b'state-' + sid.bytes)
        generation = release.put(tag)
        reread = asset.Directory(env.posix.Registry(env.tagreg)).get('tags').get('1').get(generation.key).tag
        direct = env.posix.Registry(env.tagreg).open('tags', release.key, generation.key)
        payload = [release.get(generation.key).get(i) for i in range(len(tag.states))]
    except Exception as err:  # pylint: disable=broad-except
        ctx.violation('tag-registry-raises', f'put/tag through the posix registry raised {err!r} for {case}', witness)
        return
    for name, value in (('generation-tag', reread), ('open', direct)):
        fields = tag_diff(env, case, value)
        if fields:
            ctx.violation(f'tag-registry-{name}-' + '-'.join(fields) + '-differs', f'wrote {tag}, registry gave {value}', witness)
            return
    if payload != [b'state-' + s.bytes for s in tag.states]:
        ctx.violation('tag-registry-state-order', f'states of {tag} read back by index as {payload}', witness)


# ---------------------------------------------------------------------------------------------------- manifests
def nonbmp(text) -> bool:
    return any(ord(c) > 0xFFFF for c in text)


def check_manifest(ctx, env, case, directed=False):
    project, asset, o = env.project, env.asset, env.o
    ctx.count('evaluations')
    ctx.count('manifest_checked')
    ctx.shape(('manifest', case['name'], case['version'], case['package'], sorted(case['modules'].items())))
    witness = {'kind': 'manifest', 'case': case}
    parsed = o.pep440_parse(case['version'])
    folder = env.scratch()
    try:
        try:
            manifest = project.Manifest(case['name'], case['version'], case['package'], **case['modules'])
        except Exception as err:  # pylint: disable=broad-except
            ctx.violation('manifest-construct-raises', f'Manifest{tuple(case.values())} raised {err!r}', witness)
            return
        if (str(manifest.name) != case['name'] or str(manifest.version) != o.canonical(parsed) or manifest.package != case['package']
                or dict(manifest.modules) != case['modules']):
            ctx.violation('manifest-construct-differs', f'Manifest{tuple(case.values())} holds {tuple(manifest)}', witness)
            return
        stage = 'write'
        try:
            manifest.write(folder)
            stage = 'read'
            back = project.Manifest.read(folder)
        except Exception as err:  # pylint: disable=broad-except
            ctx.violation(f'manifest-{stage}-raises', f'Manifest.{stage} raised {err!r} for {case}', witness)
            return
        fields = []
        if type(back.name) is not asset.Project.Key or back.name != manifest.name:
            fields.append('name')
        if type(back.version) is not asset.Release.Key or back.version != manifest.version or str(back.version) != str(manifest.version):
            fields.append('version')
        if type(back.package) is not str or back.package != manifest.package:
            fields.append('package')
        if dict(back.modules) != dict(manifest.modules):
            fields.append('modules')
        if fields:
            if fields == ['modules'] and set(back.modules) == set(manifest.modules) and all(
                    nonbmp(v) for k, v in manifest.modules.items() if back.modules[k] != v):
                key = 'manifest-modules-nonbmp-char'
            else:
                key = 'manifest-roundtrip-' + '-'.join(fields) + '-differs'
            ctx.violation(key, f'wrote {tuple(manifest)} read {tuple(back)}', witness)
            return
        if not back == manifest:
            ctx.violation('manifest-roundtrip-forml-equality', f'{tuple(manifest)} vs {tuple(back)}', witness)
            return
        if directed:
            ctx.count('directed_checked')
    finally:
        env.drop(folder)


def check_manifest_rewrite(ctx, env, case):
    """Directed: rewrite a manifest in place (same length, same second) with bytecode caching as python has it by default."""
    import sys

    project = env.project
    ctx.count('evaluations')
    ctx.count('manifest_rewrite_checked')
    witness = {'kind': 'manifest-rewrite', 'case': case}
    first = project.Manifest(case['name'], case['versions'][0], case['package'])
    second = project.Manifest(case['name'], case['versions'][1], case['package'])
    saved = sys.dont_write_bytecode
    sys.dont_write_bytecode = not case['bytecode']
    try:
        for _ in range(5):
            folder = env.scratch()
            try:
                first.write(folder)
                stamp = int(os.stat(project.Manifest.path(folder)).st_mtime)
                before = project.Manifest.read(folder)
                second.write(folder)
                same_second = int(os.stat(project.Manifest.path(folder)).st_mtime) == stamp
                after = project.Manifest.read(folder)
            except Exception as err:  # pylint: disable=broad-except
                ctx.violation('manifest-rewrite-raises', f'rewriting a manifest in place raised {err!r}', witness)
                return
            finally:
                env.drop(folder)
            if before != first:
                ctx.violation('manifest-roundtrip-differs', f'wrote {tuple(first)} read {tuple(before)}', witness)
                return
            if after != second:
                key = 'manifest-rewrite-stale-bytecode' if case['bytecode'] and after == first else 'manifest-rewrite-differs'
                ctx.violation(key, f'wrote {tuple(first)} then {tuple(second)} into the same directory, read back {tuple(after)}', witness)
                return
            if same_second:
                ctx.count('directed_checked')
                return
    finally:
        sys.dont_write_bytecode = saved


# ---------------------------------------------------------------------------------------------------- packages
def load_description(env, artifact):
    return env.pg.describe(artifact.components)


def check_package(ctx, env, spec, directed=False):
    """spec: project spec of c18_projgen + 'kind' (dir|zip) + 'via' (install|posix|volatile)."""
    import sys
    import zipfile

    project, asset, pg = env.project, env.asset, env.pg
    ctx.count('evaluations')
    ctx.count('package_checked')
    ctx.shape(('package', sorted((k, repr(v)) for k, v in spec.items())))
    witness = {'kind': 'package', 'spec': spec}
    root = env.scratch()
    syspath = list(sys.path)
    try:
        source = pg.generate(spec, str(root / 'src'))
        original = pg.files(source)
        try:
            manifest = project.Manifest(spec['name'], spec['version'], spec['package'], **spec['modules'])
        except Exception as err:  # pylint: disable=broad-except
            ctx.violation('manifest-construct-raises', f'Manifest raised {err!r} for {spec}', witness)
            return
        # ---- package
        try:
            if spec['kind'] == 'zip':
                if spec.get('stale'):
                    # the source tree is itself a directory package of an earlier release (re-packaging under a new manifest)
                    project.Manifest(spec['name'] + '.old', '0.0.1', 'stale_package', pipeline='stale.module').write(source)
                    ctx.count('repackaged_over_stale_manifest')
                package = project.Package.create(source, manifest, root / f'out.{project.Package.FORMAT}')
            else:
                manifest.write(source)
                package = project.Package(source)
            reread = project.Package(package.path)
        except Exception as err:  # pylint: disable=broad-except
            ctx.violation('package-create-raises', f'creating the {spec["kind"]} package raised {err!r}', witness)
            return
        if package.manifest != manifest or reread.manifest != manifest or dict(reread.manifest.modules) != spec['modules']:
            ctx.violation('package-manifest-differs', f'packaged {tuple(manifest)} but the package says {tuple(reread.manifest)}', witness)
            return
        descriptor = f'{project.Manifest.MODULE}.py'
        if spec['kind'] == 'zip':
            with zipfile.ZipFile(package.path) as archive:
                content = {n: archive.read(n) for n in archive.namelist() if not n.endswith('/')}
                names = archive.namelist()
            if len(names) != len(set(names)) or {k: v for k, v in content.items() if k != descriptor} != original or descriptor not in content:
                ctx.violation('package-content-differs', f'zip holds {sorted(content)} for source tree {sorted(original)}', witness)
                return
        # ---- install
        try:
            if spec['via'] == 'install':
                artifact = package.install(root / 'inst' / 'target')
                again = package.install(root / 'inst' / 'target')
                if again != artifact:
                    ctx.violation('install-repeat-differs', f'second install gave {again}, first {artifact}', witness)
                    return
            elif spec['via'] == 'posix':
                registry = env.posix.Registry(root / 'reg')
                asset.Directory(registry).get(spec['name']).put(package)
                release = asset.Directory(env.posix.Registry(root / 'reg')).get(spec['name']).get(spec['version'])
                pulled = registry.pull(release.project.key, release.key)
                if pulled.manifest != manifest or dict(pulled.manifest.modules) != spec['modules']:
                    ctx.violation('registry-pull-manifest-differs', f'pushed {tuple(manifest)} pulled {tuple(pulled.manifest)}', witness)
                    return
                if asset.Directory(registry).get(spec['name']).get(None).key != manifest.version:
                    ctx.violation('registry-latest-differs', f'only release {manifest.version} is not the latest', witness)
                    return
                artifact = release.artifact
            else:
                registry = env.volatile.Registry()
                asset.Directory(registry).get(spec['name']).put(package)
                artifact = asset.Directory(registry).get(spec['name']).get(spec['version']).artifact
        except Exception as err:  # pylint: disable=broad-except
            ctx.violation('install-raises', f'installing ({spec["via"]}) raised {err!r}', witness)
            return
        if artifact.package != spec['package'] or dict(artifact.modules) != spec['modules']:
            ctx.violation('install-artifact-differs', f'artifact {artifact} for manifest {tuple(manifest)}', witness)
            return
        where = str(artifact.path)
        ctx.count(f'via_{spec["via"]}_{spec["kind"]}' + ('_extracted' if spec['kind'] == 'zip' and os.path.isdir(where) else ''))
        if os.path.isdir(where):
            installed = pg.files(where)
            if {k: v for k, v in installed.items() if k != descriptor} != original or descriptor not in installed:
                ctx.violation('install-content-differs', f'installed {sorted(installed)} for source tree {sorted(original)}', witness)
                return
        elif spec['kind'] == 'zip':
            with open(where, 'rb') as one, open(package.path, 'rb') as two:
                if one.read() != two.read():
                    ctx.violation('install-content-differs', 'installed zip differs from the package', witness)
                    return
        # ---- components (installed first: nothing of this package has been imported yet)
        ctx.count('components_checked')
        try:
            got = load_description(env, artifact)
        except Exception as err:  # pylint: disable=broad-except
            ctx.violation('components-load-raises', f'loading the installed components raised {err!r}', witness)
            return
        want = pg.expected(spec)
        if {k: got[k] for k in want} != want:
            key = 'install-components-differ'
            ctx.violation(key, f'installed components {got} but the package defines {want}', witness)
            return
        if not got['origins'] or not all(origin.startswith(where) for origin in got['origins']):
            ctx.violation('install-components-origin', f'components of {where} were loaded from {got["origins"]}', witness)
            return
        try:
            reference = project.Artifact(source, spec['package'], **spec['modules']).components
            installed_components = artifact.components
            ref = pg.describe(reference)
        except Exception as err:  # pylint: disable=broad-except
            ctx.violation('components-load-raises', f'loading the source tree components raised {err!r}', witness)
            return
        got.pop('origins')
        ref.pop('origins')
        if got != ref or not installed_components.source == reference.source or (
                (installed_components.evaluation is None) != (reference.evaluation is None)):
            ctx.violation('install-components-differ', f'installed {got} vs source tree {ref}', witness)
            return
        if directed:
            ctx.count('directed_checked')
    finally:
        sys.path[:] = syspath
        env.drop(root)


def check_two_releases(ctx, env, case):
    """Directed: two releases of one project sharing the package name, installed and loaded one after the other in this process.
    case: {'helper': bool, 'thresholds': [k1, k2], 'package': top}"""
    import sys

    project, pg = env.project, env.pg
    ctx.count('evaluations')
    ctx.count('two_releases_checked')
    witness = {'kind': 'two-releases', 'case': case}
    root = env.scratch()
    syspath = list(sys.path)
    try:
        seen = []
        for index, threshold in enumerate(case['thresholds']):
            spec = {'name': 'twice', 'version': str(index + 1), 'package': case['package'], 'modules': {}, 'threshold': threshold,
                    'columns': ['a'], 'label': 'b', 'marks': [f'm{threshold}'], 'evaluation': None, 'data': [], 'helper': case['helper']}
            source = pg.generate(spec, str(root / f'src{index}'))
            try:
                manifest = project.Manifest(spec['name'], spec['version'], spec['package'])
                package = project.Package.create(source, manifest, root / f'r{index}.4ml')
                got = load_description(env, package.install(root / f'inst{index}'))
            except Exception as err:  # pylint: disable=broad-except
                ctx.violation('two-releases-raises', f'release {index + 1} raised {err!r}', witness)
                return
            seen.append((got['threshold'], got['marks']))
        want = [(k, [f'm{k}']) for k in case['thresholds']]
        if seen != want:
            stale = case['helper'] and [m for _, m in seen] == [m for _, m in want] and seen[1][0] == case['thresholds'][0]
            key = 'install-components-stale-sibling-module' if stale else 'install-components-second-release-differs'
            ctx.violation(key, f'two releases of package {case["package"]} loaded one after the other: thresholds/marks {seen}, packages '
                               f'define {want}', witness)
            return
        ctx.count('directed_checked')
    finally:
        sys.path[:] = syspath
        env.drop(root)


def check_reinstall(ctx, env, case):
    """A sequence of packages installed one after the other into ONE target path (a dev release rebuilt under the same version
    with another package name / module map, the next version, another project, ...): after every install the artifact loads
    the components of the package just installed.  case: {'specs': [spec...]} - consecutive manifests always differ."""
    import sys

    project, pg = env.project, env.pg
    ctx.count('evaluations')
    ctx.count('reinstall_checked')
    witness = {'kind': 'reinstall', 'case': case}
    ctx.shape(('reinstall', [(sp['name'], sp['version'], sp['package'], sorted(sp['modules'].items()), sp['kind']) for sp in case['specs']]))
    root = env.scratch()
    syspath = list(sys.path)
    try:
        target = root / 'inst' / 'target'
        previous = None
        for index, spec in enumerate(case['specs']):
            source = pg.generate(spec, str(root / f'src{index}'))
            try:
                manifest = project.Manifest(spec['name'], spec['version'], spec['package'], **spec['modules'])
                if previous is not None and manifest == previous:
                    ctx.count('reinstall_equal_manifest_skipped')
                    return
                previous = manifest
                if spec['kind'] == 'zip':
                    package = project.Package.create(source, manifest, root / f'out{index}.{project.Package.FORMAT}')
                else:
                    manifest.write(source)
                    package = project.Package(source)
                artifact = package.install(target)
                got = load_description(env, artifact)
            except Exception as err:  # pylint: disable=broad-except
                ctx.violation('reinstall-raises', f'install #{index + 1} of {tuple(manifest)} over {"nothing" if not index else "an older install"}'
                                                  f' raised {err!r}', witness)
                return
            want = pg.expected(spec)
            if {k: got[k] for k in want} != want:
                ctx.violation('reinstall-components-differ', f'install #{index + 1} into an occupied target: components {got} but the '
                                                             f'package defines {want}', witness)
                return
            try:
                stored = project.Manifest.read(artifact.path) if os.path.isdir(str(artifact.path)) else project.Package(artifact.path).manifest
            except Exception as err:  # pylint: disable=broad-except
                stored = repr(err)
            if stored != manifest:
                ctx.violation('reinstall-manifest-differs', f'install #{index + 1}: target holds {stored}, installed {tuple(manifest)}', witness)
                return
            ctx.count('reinstall_steps')
    finally:
        sys.path[:] = syspath
        env.drop(root)


def gen_reinstall(env, rng, serial):
    """2-3 packages for one target: each step changes the package name, the module map, the version, the project or the kind."""
    first = gen_spec(env, rng, f'{serial}a')
    first['helper'] = False  # the stale-sibling-module finding (helper modules cached across releases) is not this monitor's
    first['via'] = 'install'
    specs = [first]
    for step in range(rng.choice([1, 1, 2])):
        nxt = gen_spec(env, rng, f'{serial}{"bc"[step]}')
        nxt['helper'] = False
        nxt['via'] = 'install'
        change = rng.choice(['package', 'modules', 'version', 'name', 'all'])
        base = specs[-1]
        if change != 'all':
            nxt['name'], nxt['version'] = base['name'], base['version']
        if change == 'modules':  # same package name, other component module paths (and content)
            nxt['package'] = base['package']
            leafs = {c: f'{base["package"]}.re{step}.{c}_x' for c in rng.sample(['source', 'pipeline'], rng.choice([1, 2]))}
            nxt['modules'] = leafs
            if nxt['evaluation'] is None:
                nxt['modules'].pop('evaluation', None)
        elif change == 'version':
            nxt['package'], nxt['modules'] = base['package'], dict(base['modules'])
            nxt['evaluation'] = base['evaluation']
            nxt['version'] = '99' if base['version'].strip() != '99' else '98'
        elif change == 'name':
            nxt['package'], nxt['modules'] = base['package'], dict(base['modules'])
            nxt['evaluation'] = base['evaluation']
            nxt['name'] = base['name'] + 'x'
        specs.append(nxt)
    return {'specs': specs}


# ---------------------------------------------------------------------------------------------------- keys
def both_orders(ctx, env, texts):
    """Oracle keys for valid version texts; None (and an inconclusive) if my oracle and packaging disagree."""
    from packaging import version as vermod

    keys = [env.o.pep440_key(env.o.pep440_parse(t)) for t in texts]
    reference = [vermod.Version(t) for t in texts]
    for i in range(len(texts) - 1):
        if (keys[i] < keys[i + 1]) != (reference[i] < reference[i + 1]) or (keys[i] == keys[i + 1]) != (reference[i] == reference[i + 1]):
            ctx.inconclusive(f'PEP 440 oracle disagrees with packaging on {texts[i]!r} vs {texts[i + 1]!r}')
            return None
    return keys


def check_release_keys(ctx, env, texts):
    """texts: valid PEP 440 spellings."""
    asset, o = env.asset, env.o
    ctx.count('evaluations')
    witness = {'kind': 'release-keys', 'texts': texts}
    if len(texts) > 1:
        ctx.shape(('release-keys', texts))
    want = both_orders(ctx, env, texts)
    if want is None:
        return
    keys = []
    for text in texts:
        ctx.count('release_key_checked')
        try:
            key = asset.Release.Key(text)
            again = asset.Release.Key(key)
            canon = asset.Release.Key(str(key))
        except Exception as err:  # pylint: disable=broad-except
            ctx.violation('release-key-valid-rejected', f'Release.Key({text!r}) raised {err!r}', witness)
            return
        if str(key) != o.canonical(o.pep440_parse(text)) or again != key or canon != key or hash(canon) != hash(key) or str(canon) != str(key):
            ctx.violation('release-key-normalisation', f'Release.Key({text!r}) -> {key} / {again} / {canon}, PEP 440 normal form is '
                                                       f'{o.canonical(o.pep440_parse(text))}', witness)
            return
        keys.append(key)
    for i, left in enumerate(keys):
        for j, right in enumerate(keys):
            lt, eq = want[i] < want[j], want[i] == want[j]
            observed = (left < right, left == right, left > right, left <= right, left >= right, left != right)
            if observed != (lt, eq, not lt and not eq, lt or eq, not lt, not eq) or (eq and hash(left) != hash(right)):
                ctx.violation('release-key-order', f'{texts[i]!r} vs {texts[j]!r}: (<, ==, >, <=, >=, !=) = {observed}, PEP 440 says '
                                                   f'lt={lt} eq={eq}', witness)
                return
    order = release_order(env)
    if [order(k) for k in sorted(keys)] != sorted(want) or (keys and (order(max(keys)) != max(want) or order(min(keys)) != min(want))):
        ctx.violation('release-key-sort', f'sorted({texts}) -> {[str(k) for k in sorted(keys)]}', witness)


def check_release_candidate(ctx, env, text):
    """text: any string; the PEP 440 regex decides whether it must be accepted."""
    from packaging import version as vermod

    asset = env.asset
    ctx.count('evaluations')
    witness = {'kind': 'release-candidate', 'text': text}
    valid = env.o.pep440_parse(text) is not None
    try:
        vermod.Version(text)
        reference = True
    except vermod.InvalidVersion:
        reference = False
    if reference != valid:
        ctx.inconclusive(f'PEP 440 oracle disagrees with packaging on the validity of {text!r}')
        return
    try:
        key = asset.Release.Key(text)
    except Exception as err:  # pylint: disable=broad-except
        if valid:
            ctx.violation('release-key-valid-rejected', f'Release.Key({text!r}) raised {err!r}', witness)
        else:
            ctx.count('release_invalid_rejected')
            ctx.note_set('release_rejection_types', type(err).__name__)
            if not isinstance(err, (asset.Level.Key.Invalid, TypeError, ValueError)):
                ctx.violation('release-key-invalid-wrong-error', f'Release.Key({text!r}) raised {err!r}, which the registries do not treat '
                                                                 'as an invalid key', witness)
        return
    if not valid:
        ctx.violation('release-key-invalid-accepted', f'Release.Key({text!r}) -> {key} but it is not a PEP 440 version', witness)
    else:
        ctx.count('release_key_checked')


def check_generation_keys(ctx, env, numbers, as_text):
    """numbers: naturals >= 1 (ints); as_text: construct from their decimal text."""
    asset = env.asset
    ctx.count('evaluations')
    witness = {'kind': 'generation-keys', 'numbers': [str(n) for n in numbers], 'as_text': as_text}
    if len(numbers) > 1:
        ctx.shape(('generation-keys', [str(n) for n in numbers], as_text))
    keys = []
    for number in numbers:
        ctx.count('generation_key_checked')
        try:
            key = asset.Generation.Key(str(number) if as_text else number)
            again = asset.Generation.Key(key)
            following = key.next
        except Exception as err:  # pylint: disable=broad-except
            ctx.violation('generation-key-valid-rejected', f'Generation.Key({number!r}) raised {err!r}', witness)
            return
        if (key != number or int(key) != number or str(key) != str(number) or again != key or hash(key) != hash(number)
                or type(following) is not asset.Generation.Key or following != number + 1 or type(key) is not asset.Generation.Key):
            ctx.violation('generation-key-value', f'Generation.Key({number!r}) -> {key!r}, again {again!r}, next {following!r}', witness)
            return
        keys.append(key)
    for i, left in enumerate(keys):
        for j, right in enumerate(keys):
            if ((left < right) != (numbers[i] < numbers[j]) or (left == right) != (numbers[i] == numbers[j])
                    or (left > right) != (numbers[i] > numbers[j])):
                ctx.violation('generation-key-order', f'{numbers[i]} vs {numbers[j]} compare differently as keys', witness)
                return
    if [int(k) for k in sorted(keys)] != sorted(numbers) or (keys and int(max(keys)) != max(numbers)):
        ctx.violation('generation-key-sort', f'sorted keys of {numbers} -> {sorted(keys)}', witness)


def check_generation_invalid(ctx, env, pair):
    """pair: encoded value that is clearly no natural number >= 1."""
    asset = env.asset
    ctx.count('evaluations')
    value = env.o.dec(pair)
    try:
        key = asset.Generation.Key(value)
    except Exception as err:  # pylint: disable=broad-except
        ctx.count('generation_invalid_rejected')
        ctx.note_set('generation_rejection_types', type(err).__name__)
        if not isinstance(err, (asset.Level.Key.Invalid, TypeError, ValueError)):
            ctx.violation('generation-key-invalid-wrong-error', f'Generation.Key({value!r}) raised {err!r}, which the registries do not '
                                                                'treat as an invalid key', {'kind': 'generation-invalid', 'value': pair})
        return
    ctx.violation('generation-key-invalid-accepted', f'Generation.Key({value!r}) -> {key!r}', {'kind': 'generation-invalid', 'value': pair})


def check_level_invalid(ctx, env, pair):
    """An invalid generation key used to *address* a generation of a populated release (``release.get(key)``, what
    ``asset.Instance(project, release, key, directory)`` does): refused - never resolved to some existing generation."""
    import datetime

    asset, project = env.asset, env.project
    value = env.o.dec(pair)
    if value is None:
        return  # None legitimately means "the latest"
    ctx.count('evaluations')
    ctx.count('level_invalid_checked')
    if getattr(env, 'populated', None) is None:
        root = env.scratch()
        registry = env.volatile.Registry()
        project.Manifest('levels', '1', 'nothing').write(root / 'pkg')
        registry.push(project.Package(root / 'pkg'))
        release = asset.Directory(registry).get('levels').get('1')
        for number in (1, 2):
            registry.close(release.project.key, release.key, asset.Generation.Key(number),
                           asset.Tag(training=asset.Tag.Training(datetime.datetime(2020, 1, number), number)))
        env.populated = registry
    witness = {'kind': 'level-invalid', 'value': pair}
    try:
        generation = asset.Directory(env.populated).get('levels').get('1').get(value)
        resolved = (int(generation.key), generation.tag.training.ordinal)
    except (asset.Level.Invalid, TypeError, ValueError) as err:
        ctx.note_set('level_rejection_types', type(err).__name__)
        return
    except Exception as err:  # pylint: disable=broad-except
        ctx.violation('level-key-invalid-wrong-error', f'release.get({value!r}) raised {err!r}', witness)
        return
    ctx.violation('level-key-invalid-resolved', f'release.get({value!r}) resolved to generation {resolved[0]} (ordinal {resolved[1]})', witness)


# ---------------------------------------------------------------------------------------------------- listings
def listing_problem(env, listing, valid, order):
    """listing: forml Listing; valid: the texts/ints that belong in it; order: item -> oracle key.  None if the listing is strictly
    increasing, holds exactly the valid keys and ``last`` is the maximum, else 'mechanism-slug (details)'."""
    asset = env.asset
    if not isinstance(listing, tuple):
        return 'not-a-tuple'
    observed = [order(item) for item in listing]
    if any(not a < b for a, b in zip(observed, observed[1:])):
        return 'not-strictly-increasing (unsorted or duplicates)'
    expected = sorted({order(item) for item in valid})
    if observed != expected:
        if set(observed) - set(expected):
            return f'foreign-key-listed ({len(set(observed) - set(expected))} listed keys were never stored as valid keys)'
        return f'stored-key-missing ({len(set(expected) - set(observed))} of {len(expected)} stored keys are not listed)'
    try:
        last = listing.last
    except asset.Level.Listing.Empty:
        return None if not expected else 'last-raises-empty (on a non-empty listing)'
    if not expected:
        return 'last-of-empty (did not raise Empty)'
    if order(last) != expected[-1]:
        return 'last-not-maximum'
    return None


def release_order(env):
    return lambda item: env.o.pep440_key(env.o.pep440_parse(str(item)))


def check_listing(ctx, env, kind, items):
    """kind: release|generation|project; items: texts (release, project) or decimal texts (generation)."""
    asset = env.asset
    ctx.count('evaluations')
    ctx.count('listing_checked')
    witness = {'kind': 'listing', 'level': kind, 'items': items}
    if len(items) > 1:
        ctx.shape(('listing', kind, items))
    if kind == 'release':
        if both_orders(ctx, env, items) is None:
            return
        make, order = asset.Release.Key, release_order(env)
    elif kind == 'generation':
        make, order = (lambda t: asset.Generation.Key(int(t))), int
    else:
        make, order = asset.Project.Key, str
    try:
        listing = asset.Level.Listing(make(i) for i in items)
    except Exception as err:  # pylint: disable=broad-except
        ctx.violation('listing-raises', f'Listing of {kind} keys {items} raised {err!r}', witness)
        return
    problem = listing_problem(env, listing, items, order)
    if problem:
        ctx.violation(f'listing-{kind}-' + problem.split(' (')[0], f'Listing({items}) -> {listing}: {problem}', witness)


def check_registry_listing(ctx, env, case):
    """case: {'volatile': bool, 'projects': {name: {'releases': [texts in push order], 'noise': [names],
    'generations': {release text: [naturals in close order]}, 'gen_noise': [names]}}}"""
    import datetime
    import shutil
    import sys

    EPOCH = datetime.datetime(2020, 1, 1)  # pylint: disable=invalid-name
    asset, project = env.asset, env.project
    ctx.count('evaluations')
    ctx.count('volatile_listing_checked' if case['volatile'] else 'registry_listing_checked')
    witness = {'kind': 'registry-listing', 'case': case}
    if any(len(p['releases']) > 1 or any(len(g) > 1 for g in p['generations'].values()) for p in case['projects'].values()) or len(
            case['projects']) > 1:
        ctx.shape(('registry-listing', case))
    order = release_order(env)
    root = env.scratch()
    syspath = list(sys.path)
    try:
        try:
            registry = env.volatile.Registry() if case['volatile'] else env.posix.Registry(root / 'reg')
            serial = 0
            for name, layout in case['projects'].items():
                pushed = {}
                for text in layout['releases']:
                    serial += 1
                    holder = root / f'pkg{serial}'
                    project.Manifest(name, text, 'nothing').write(holder)
                    package = project.Package(holder)
                    if case['volatile'] or order(text) not in pushed:
                        registry.push(package)
                        pushed.setdefault(order(text), str(package.manifest.version))
                    elif str(package.manifest.version) != pushed[order(text)]:
                        # an equal version under another spelling (1.0 / 1.0.0): what a second process would leave behind
                        target = root / 'reg' / name / str(package.manifest.version)
                        if not target.exists():
                            shutil.copytree(root / 'reg' / name / pushed[order(text)], target)
                if not case['volatile']:
                    for noise in layout['noise']:
                        shutil.copytree(root / 'reg' / name / next(iter(pushed.values())), root / 'reg' / name / noise)
                for text, numbers in layout['generations'].items():
                    release = asset.Release.Key(text)
                    for number in numbers:
                        tag = asset.Tag(training=asset.Tag.Training(EPOCH + datetime.timedelta(seconds=number % 10**6), number))
                        registry.close(asset.Project.Key(name), release, asset.Generation.Key(number), tag)
                    if numbers and not case['volatile']:
                        home = root / 'reg' / name / pushed[order(text)]
                        for noise in layout['gen_noise']:
                            (home / noise).mkdir(exist_ok=True)
                            shutil.copy(home / str(numbers[0]) / 'tag.toml', home / noise / 'tag.toml')
        except Exception as err:  # pylint: disable=broad-except
            ctx.violation('registry-populate-raises', f'pushing / closing raised {err!r} for {case}', witness)
            return
        try:
            directory = asset.Directory(registry if case['volatile'] else env.posix.Registry(root / 'reg'))
            problem = listing_problem(env, directory.list(), list(case['projects']), str)
            if problem:
                ctx.violation('registry-listing-project-' + problem.split(' (')[0],
                              f'projects {list(case["projects"])} listed as {directory.list()}: {problem}', witness)
                return
            for name, layout in case['projects'].items():
                listing = directory.get(name).list()
                problem = listing_problem(env, listing, layout['releases'], order)
                if not problem and order(directory.get(name).get(None).key) != max(map(order, layout['releases'])):
                    problem = 'implicit-key-not-maximum'
                if problem:
                    ctx.violation('registry-listing-release-' + problem.split(' (')[0],
                                  f'{name}: releases {layout["releases"]} (+ noise {layout["noise"]}) listed as {listing}: {problem}', witness)
                    return
                for text in layout['releases']:
                    numbers = [n for t, ns in layout['generations'].items() if order(t) == order(text) for n in ns]
                    release = directory.get(name).get(text)
                    listing = release.list()
                    problem = listing_problem(env, listing, numbers, int)
                    if not problem and numbers:
                        latest = release.get(None)
                        if int(latest.key) != max(numbers) or latest.tag.training.ordinal != max(numbers):
                            problem = 'implicit-key-not-maximum'
                    if problem:
                        ctx.violation('registry-listing-generation-' + problem.split(' (')[0],
                                      f'{name}-{text}: generations {numbers} (+ noise {layout["gen_noise"]}) listed as {listing}: {problem}',
                                      witness)
                        return
        except Exception as err:  # pylint: disable=broad-except
            ctx.violation('registry-listing-raises', f'listing raised {err!r} for {case}', witness)
    finally:
        sys.path[:] = syspath
        env.drop(root)


def check_commit(ctx, env, case, directed=False):
    """A release already holding generations under arbitrary keys (gaps, not starting at one - old generations pruned) gets one more
    generation through the lifecycle path.  case: {'volatile': bool, 'numbers': [existing keys in close order], 'via': 'put'|'state',
    'tag': tag case (its states only give the number of states)}"""
    import datetime
    import sys

    from vlib import projgen

    asset, project, o = env.asset, env.project, env.o
    ctx.count('evaluations')
    ctx.count('commit_checked')
    existing = sorted(set(case['numbers']))
    gapped = bool(existing) and existing != list(range(1, len(existing) + 1))
    if gapped:
        ctx.count('commit_gapped_checked')
    ctx.shape(('commit', case))
    witness = {'kind': 'commit', 'case': case}
    successor = (existing[-1] + 1) if existing else 1
    root = env.scratch()
    syspath = list(sys.path)
    try:
        try:
            registry = env.volatile.Registry() if case['volatile'] else env.posix.Registry(root / 'reg')
            project.Manifest('commit', '1', 'nothing').write(root / 'pkg')
            registry.push(project.Package(root / 'pkg'))
            release = asset.Directory(registry).get('commit').get('1')
            before = {}
            for number in case['numbers']:
                before[number] = asset.Tag(training=asset.Tag.Training(
                    datetime.datetime(2020, 1, 1) + datetime.timedelta(seconds=number % 10**6, microseconds=len(before)), number))
                registry.close(release.project.key, release.key, asset.Generation.Key(number), before[number])
            # a long-lived process has read these tags before (and keeps them cached)
            for number in existing:
                if release.get(number).tag.training.ordinal != number:
                    ctx.violation('commit-setup-tag-differs', f'generation {number} closed with ordinal {number} reads {release.get(number).tag}',
                                  witness)
                    return
        except Exception as err:  # pylint: disable=broad-except
            ctx.violation('registry-populate-raises', f'closing generations {case["numbers"]} raised {err!r}', witness)
            return
        # ---- the commit as the runner does it: dump the states, then put / State.commit
        payloads = [b'payload-%d' % i for i in range(len(case['tag']['states']))]
        try:
            template = build_tag(env, dict(case['tag'], states=[]))
            if case['via'] == 'put':
                sids = [release.dump(p) for p in payloads]
                written = template.replace(states=tuple(sids))
                returned = release.put(written).key
            else:
                import uuid

                nodes = [uuid.UUID(int=i + 1) for i in range(len(payloads))]
                state = asset.Instance('commit', '1', None, asset.Directory(registry)).state(nodes, template)
                sids = [state.dump(p) for p in payloads]
                written = template.replace(states=tuple(sids))
                state.commit(tuple(sids))
                returned = None
        except Exception as err:  # pylint: disable=broad-except
            ctx.violation('commit-raises', f'committing a generation on top of {existing} raised {err!r}', witness)
            return
        if returned is not None and int(returned) != successor:
            ctx.violation('commit-key-not-successor', f'Release.put on generations {existing} returned generation {returned}, the next natural '
                                                      f'number after the maximum is {successor}', witness)
            return
        wanted = dict(case['tag'], states=[str(s) for s in sids])
        try:
            if returned is not None:  # the committing process itself reads the new generation back
                fields = tag_diff(env, wanted, release.get(returned).tag)
                if fields:
                    ctx.violation('commit-tag-stale-in-process', f'generation {returned} just committed reads back with other {fields} in the '
                                                                 f'committing process: {release.get(returned).tag}', witness)
                    return
            # ---- a fresh reader
            projgen.clear_caches()
            reader = asset.Directory(registry if case['volatile'] else env.posix.Registry(root / 'reg')).get('commit').get('1')
            listing = reader.list()
            problem = listing_problem(env, listing, existing + [successor], int)
            if problem:
                ctx.violation('commit-listing-' + problem.split(' (')[0], f'generations {existing} + one commit listed as {listing}: {problem}',
                              witness)
                return
            latest = reader.get(None)
            if int(latest.key) != successor:
                ctx.violation('commit-latest-differs', f'latest of {listing} resolves to {latest.key}, committed {successor}', witness)
                return
            fields = tag_diff(env, wanted, latest.tag)
            if fields:
                ctx.violation('commit-tag-' + '-'.join(fields) + '-differs', f'committed {written}, latest generation reads {latest.tag}', witness)
                return
            if [latest.get(i) for i in range(len(payloads))] != payloads:
                ctx.violation('commit-state-differs', f'states of the committed generation read back differently for {case}', witness)
                return
            for number in existing:
                tag = reader.get(number).tag
                if tag != before[number] or tag.training.ordinal != number:
                    ctx.violation('commit-overwrites-existing-tag', f'generation {number} held {before[number]} before the commit and {tag} '
                                                                    'after it', witness)
                    return
        except Exception as err:  # pylint: disable=broad-except
            ctx.violation('commit-readback-raises', f'reading back after a commit on top of {existing} raised {err!r}', witness)
            return
        if directed:
            ctx.count('directed_checked')
    finally:
        sys.path[:] = syspath
        env.drop(root)


def gen_commit(env, rng, volatile):
    o = env.o
    roll = rng.random()
    if roll < 0.1:
        numbers = []
    elif roll < 0.25:
        numbers = list(range(1, rng.randint(2, 6)))  # contiguous from one
    elif roll < 0.5:
        start = rng.randint(2, 40)
        numbers = list(range(start, start + rng.randint(1, 5)))  # pruned head
    else:
        numbers = [o.gen_generation(rng) for _ in range(rng.randint(1, 8))]
    rng.shuffle(numbers)
    tag = o.gen_tag(rng, maxstates=4)
    if tag['ordinal']['k'] in ('decimal', 'str'):  # the known findings about ordinals have their own monitor
        tag['ordinal'] = o.enc(rng.randint(-5, 5))
    return {'volatile': volatile, 'numbers': numbers, 'via': rng.choice(['put', 'put', 'state']), 'tag': tag}


# ---------------------------------------------------------------------------------------------------- generators
def gen_spec(env, rng, serial):
    o = env.o
    top = f'{rng.choice(o.IDENTS)}{serial}'
    package = '.'.join([top] + [rng.choice(o.IDENTS) for _ in range(rng.choice([0, 1, 1, 2]))])
    modules = {}
    for component in rng.sample(['source', 'pipeline', 'evaluation'], rng.choice([0, 0, 1, 2, 3])):
        leaf = rng.choice(['src', 'pipe', 'ev', 'é', '模块', 'mod_1', component + '_impl'])
        # (the last one: a module *inside* the package whose relative name starts with the text of the package name)
        modules[component] = rng.choice([leaf, f'{package}.{leaf}', f'{package}.inner.{leaf}', f'nested.{leaf}', f'{package}_{leaf}'])
    resolved = [env.pg.module_name({'package': package, 'modules': modules}, c) for c in env.pg.COMPONENTS]
    if len(set(resolved)) < len(resolved):  # two components in one module: not a legal project
        modules = {}
    evaluation = rng.choice([None, 'ev', 'quote"\'', 'é'])
    if evaluation is None:
        modules.pop('evaluation', None)
    data = rng.choice([[], [], ['data.txt'], [package.replace('.', '/') + '/resource.json', 'conf/settings.yaml']])
    return {
        'name': rng.choice(o.NAMES), 'version': o.spell(o.gen_version(rng), rng).strip(), 'package': package, 'modules': modules,
        'threshold': rng.randint(-1000, 1000), 'columns': rng.sample(['a', 'c', 'd'], rng.randint(1, 3)), 'label': 'b',
        'marks': [rng.choice(['x', 'y', 'scale', 'é', 'quote"\'', 'back\\slash', '0']) for _ in range(rng.randint(1, 5))],
        'evaluation': evaluation, 'data': data, 'helper': rng.random() < 0.5,
        'kind': rng.choice(['zip', 'zip', 'dir']), 'via': rng.choice(['install', 'install', 'posix', 'volatile']),
        'stale': rng.random() < 0.4, 'namespace': rng.random() < 0.35,
    }


def gen_layout(env, rng, volatile):
    o = env.o
    projects = {}
    for name in rng.sample(o.NAMES[:-1], rng.choice([1, 1, 2, 3])):
        pool = [o.gen_version(rng) for _ in range(rng.randint(1, 6))]
        releases = [o.canonical(rng.choice(pool)) for _ in range(rng.randint(1, 7))]
        if rng.random() < 0.5:  # an equal version under another spelling (1.0 / 1.0.0)
            source = o.pep440_parse(rng.choice(releases))
            releases.insert(rng.randrange(len(releases) + 1), o.canonical(dict(source, release=source['release'] + [0])))
        key = lambda t: o.pep440_key(o.pep440_parse(t))  # noqa: E731
        # generations only under releases stored under a single spelling (which directory equal spellings share is not
        # the property's business)
        single = sorted(t for t in set(releases) if sum(key(u) == key(t) for u in set(releases)) == 1)
        generations = {}
        for text in rng.sample(single, min(len(single), rng.choice([1, 1, 2]))):
            generations[text] = [o.gen_generation(rng) for _ in range(rng.choice([0, 1, 3, 6, 10]))]
        projects[name] = {
            'releases': releases,
            'noise': [] if volatile else rng.sample(['abc', 'latest', '1.0-foo', '1..0', '-1', '1_0', 'v', 'x.y'], rng.choice([0, 1, 3])),
            'generations': generations,
            'gen_noise': [] if volatile else rng.sample(['0', '-1', 'abc', '1.5', '00', 'v1', '-7', '1e3', 'tmp'], rng.choice([0, 2, 4])),
        }
    return {'volatile': volatile, 'projects': projects}


def directed(ctx, env):
    """Cases that are run on every execution: one per known finding (prints its KNOWN-FINDING line) plus fixed edge cases."""
    import datetime
    import decimal

    o = env.o
    stamp = datetime.datetime(2021, 2, 3, 4, 5, 6, 789012)
    zone = datetime.timezone(datetime.timedelta(hours=5, minutes=30))
    ordinals = [
        None, 0, 1, -1, 2**63, 2**64 + 1, -(2**100), True, False, 1.5, -0.0, 1e300, 5e-324, 0.1 + 0.2, float('inf'), float('-inf'), 1e16, 1e22,
        '', 'abc', 'a"b', "a'b", 'a\\b', 'a\nb', 'a\tb', 'a\rb', 'é', '日本', '😀', '\u2028', '\\n', '\\u0041', "'''", 'a"""b', ' lead', 'trail ',
        '#x', '[x]', 'a=b', '\\', '\\\\', 'a\\', '\\"', 'C:\\path', 'true', '1', '2020-01-02', 'multi\nline\n"quoted" \'text\'\n',
        decimal.Decimal('1.10'), decimal.Decimal('1'), decimal.Decimal('123456789.123456789123456789'),
        '\x00', 'a\x1fb', '\x7f', '\xa0', 'x\\x41', '"', '""a', '"""', '\ufeff\\u', '\x08\x0c',
        datetime.date(2020, 1, 2), datetime.date(1, 1, 1), datetime.date(9999, 12, 31), stamp, stamp.replace(microsecond=0),
        stamp.replace(microsecond=100), stamp.replace(tzinfo=datetime.timezone.utc), stamp.replace(tzinfo=zone),
        stamp.replace(tzinfo=datetime.timezone(datetime.timedelta(hours=-9, minutes=-30))), datetime.datetime(1, 1, 1),
        datetime.datetime(9999, 12, 31, 23, 59, 59, 999999),
    ]
    states = ['00000000-0000-4000-8000-00000000000%d' % i for i in (3, 1, 2)]
    for index, ordinal in enumerate(ordinals):
        case = {'training': o.enc(stamp), 'ordinal': o.enc(ordinal), 'tuning': o.enc(stamp.replace(microsecond=5) if index % 2 else None),
                'score': o.enc(3.3 if index % 4 == 1 else None), 'states': states[: index % 4]}
        check_tag(ctx, env, case, via_registry=index % 5 == 0, directed=True)
    for case in [
        {'name': 'foo', 'version': '1.0.dev1', 'package': 'bar', 'modules': {'source': 'baz'}},
        {'name': 'Foo.Bar_baz-9', 'version': 'v1!2.3RC1-4.dev5+Local_7', 'package': 'a.b_c.D1', 'modules': {'source': 'x.y', 'pipeline': 'a.b_c.D1.p'}},
        {'name': 'a', 'version': '0', 'package': 'pkgé.模块', 'modules': {'pipeline': 'módulo', 'evaluation': 'модуль'}},
        {'name': 'a', 'version': '1', 'package': o.ASTRAL_IDENT, 'modules': {}},
        {'name': 'a', 'version': '1', 'package': 'p', 'modules': {'pipeline': 'p.' + o.ASTRAL_IDENT}},
    ]:
        check_manifest(ctx, env, case, directed=True)
    check_manifest_rewrite(ctx, env, {'name': 'rewrite', 'versions': ['1.0.1', '1.0.2'], 'package': 'p', 'bytecode': False})
    check_manifest_rewrite(ctx, env, {'name': 'rewrite', 'versions': ['1.0.1', '1.0.2'], 'package': 'p', 'bytecode': True})
    check_two_releases(ctx, env, {'helper': False, 'thresholds': [11, 22], 'package': 'twiceinline'})
    check_two_releases(ctx, env, {'helper': True, 'thresholds': [11, 22], 'package': 'twicehelper'})
    base = {'name': 're', 'version': '1.0.dev1', 'package': 'rea', 'modules': {}, 'threshold': 1, 'columns': ['a'], 'label': 'b', 'marks': ['m1'],
            'evaluation': None, 'data': [], 'helper': False, 'kind': 'zip', 'via': 'install'}
    for kind in ('zip', 'dir'):
        check_reinstall(ctx, env, {'specs': [dict(base, kind=kind), dict(base, kind=kind, package='reb', threshold=2, marks=['m2'])]})
        check_reinstall(ctx, env, {'specs': [dict(base, kind=kind, package=f'rec{kind}'),
                                             dict(base, kind=kind, package=f'rec{kind}', threshold=3, marks=['m3'],
                                                  modules={'pipeline': f'rec{kind}.other.pipe'})]})
        check_reinstall(ctx, env, {'specs': [dict(base, kind=kind, package=f'red{kind}'),
                                             dict(base, kind=kind, package=f'ree{kind}', version='1.0.dev2', threshold=4, marks=['m4'])]})
    for pair in o.INVALID_GENERATIONS:
        check_generation_invalid(ctx, env, pair)
        check_level_invalid(ctx, env, pair)
    for pair in ({'k': 'bool', 'v': 'false'}, {'k': 'bool', 'v': 'true'}):
        try:
            o.dec(pair)
        except Exception:  # pylint: disable=broad-except
            continue
        check_level_invalid(ctx, env, pair)
    for text in o.LENIENT_GENERATIONS:
        try:
            env.asset.Generation.Key(text)
            ctx.note_set('generation_lenient_accepted', text)
        except Exception:  # pylint: disable=broad-except
            ctx.note_set('generation_lenient_rejected', text)
    for text in o.INVALID_VERSIONS:
        check_release_candidate(ctx, env, text)
    check_generation_keys(ctx, env, [1], False)
    if int(env.asset.Generation.Key()) != 1 or str(env.asset.Release.Key()) != '0':
        ctx.violation('key-default', f'default keys are {env.asset.Generation.Key()!r} / {env.asset.Release.Key()!r}', {'kind': 'defaults'})
    for kind in ('release', 'generation', 'project'):
        check_listing(ctx, env, kind, [])
    plain = {'training': o.enc(stamp), 'ordinal': o.enc(5), 'tuning': o.enc(None), 'score': o.enc(None), 'states': ['x', 'y']}
    for volatile in (False, True):
        for via in ('put', 'state'):
            check_commit(ctx, env, {'volatile': volatile, 'numbers': [3, 4], 'via': via, 'tag': plain}, directed=True)
    check_commit(ctx, env, {'volatile': False, 'numbers': [], 'via': 'put', 'tag': plain}, directed=True)
    check_commit(ctx, env, {'volatile': False, 'numbers': [7, 2, 2, 10**20], 'via': 'put', 'tag': plain}, directed=True)


# ---------------------------------------------------------------------------------------------------- entry points
def run(ctx):
    env = Env()
    try:
        workload(ctx, env)
    finally:
        env.drop(env.base)


def workload(ctx, env):
    o = env.o
    if ctx.shard == 0:
        directed(ctx, env)
    rng = ctx.rng('gen', ctx.shard)
    # ---- tags
    for index in range(ctx.pick(1500, 10000)):
        case = o.gen_tag(rng, maxstates=ctx.pick(8, 40))
        check_tag(ctx, env, case, via_registry=index % 12 == 0)
        if index == 7:
            ctx.sample({'tag': case})
    # ---- manifests
    for index in range(ctx.pick(200, 1200)):
        case = o.gen_manifest(rng)
        check_manifest(ctx, env, case)
        if index == 3 and ctx.shard % 2 == 0:
            ctx.sample({'manifest': case})
    # ---- packages
    for index in range(ctx.pick(30, 150)):
        spec = gen_spec(env, rng, f'_{ctx.shard}_{index}')
        check_package(ctx, env, spec)
        if index == 1 and ctx.shard % 2 == 1:
            ctx.sample({'package': spec})
    for index in range(ctx.pick(12, 80)):
        check_reinstall(ctx, env, gen_reinstall(env, rng, f'_{ctx.shard}_r{index}'))
    # ---- keys
    for _ in range(ctx.pick(150, 1200)):
        pool = [o.gen_version(rng) for _ in range(rng.randint(1, 5))]
        texts = [o.spell(rng.choice(pool), rng) for _ in range(rng.randint(1, 8))]
        check_release_keys(ctx, env, texts)
        for text in texts[:3]:
            check_release_candidate(ctx, env, o.mutate(text, rng))
        numbers = [o.gen_generation(rng) for _ in range(rng.randint(1, 8))]
        check_generation_keys(ctx, env, numbers, rng.random() < 0.5)
        check_listing(ctx, env, 'release', [rng.choice(texts).strip() for _ in range(rng.randint(0, 12))])
        check_listing(ctx, env, 'generation', [str(rng.choice(numbers)) for _ in range(rng.randint(0, 12))])
        check_listing(ctx, env, 'project', [rng.choice(o.NAMES) for _ in range(rng.randint(0, 8))])
    # ---- registries
    for index in range(ctx.pick(15, 80)):
        layout = gen_layout(env, rng, volatile=False)
        check_registry_listing(ctx, env, layout)
        if index == 0 and ctx.shard % 2 == 0:
            ctx.sample({'registry': layout})
    for _ in range(ctx.pick(6, 30)):
        check_registry_listing(ctx, env, gen_layout(env, rng, volatile=True))
    # ---- one more generation committed on top of arbitrary existing keys
    for index in range(ctx.pick(20, 80)):
        case = gen_commit(env, rng, volatile=index % 3 == 2)
        check_commit(ctx, env, case)
        if index == 0 and ctx.shard % 2 == 1:
            ctx.sample({'commit': case})


def replay(ctx, witness):
    env = Env()
    try:
        kind = witness['kind']
        if kind == 'tag':
            check_tag(ctx, env, witness['case'], via_registry=witness.get('via_registry', False))
        elif kind == 'manifest':
            check_manifest(ctx, env, witness['case'])
        elif kind == 'manifest-rewrite':
            check_manifest_rewrite(ctx, env, witness['case'])
        elif kind == 'package':
            check_package(ctx, env, witness['spec'])
        elif kind == 'two-releases':
            check_two_releases(ctx, env, witness['case'])
        elif kind == 'reinstall':
            check_reinstall(ctx, env, witness['case'])
        elif kind == 'release-keys':
            check_release_keys(ctx, env, witness['texts'])
        elif kind == 'release-candidate':
            check_release_candidate(ctx, env, witness['text'])
        elif kind == 'generation-keys':
            check_generation_keys(ctx, env, [int(n) for n in witness['numbers']], witness['as_text'])
        elif kind == 'level-invalid':
            check_level_invalid(ctx, env, witness['value'])
        elif kind == 'generation-invalid':
            check_generation_invalid(ctx, env, witness['value'])
        elif kind == 'listing':
            check_listing(ctx, env, witness['level'], witness['items'])
        elif kind == 'registry-listing':
            check_registry_listing(ctx, env, witness['case'])
        elif kind == 'commit':
            check_commit(ctx, env, witness['case'])
        elif kind == 'defaults':
            if int(env.asset.Generation.Key()) != 1 or str(env.asset.Release.Key()) != '0':
                ctx.violation('key-default', 'default keys differ', witness)
    finally:
        env.drop(env.base)
