"""C20 - configuration layering and provider lookup are deterministic.

Monitors (all on the live forml classes; oracles written from the property text):
  merge    : stacks of 1-4 random nested mappings, written as TOML files / passed as mappings, go through the real
             ``Config`` (constructor defaults + paths, ``read``, ``update(other)``, ``update(**kw)``); the state after the
             constructor and after every later step must equal the left fold of a 12-line reference merge (later wins
             key by key at any depth, unrelated keys survive, lists new-first without duplicates).
  global   : every shard plants ``$FORML_HOME/config.toml`` *before* forml is imported; the process-wide ``CONFIG``
             must equal reference-merge(DEFAULTS, packaged config.toml, [/etc/forml/config.toml], planted file).
  family   : provider families generated as real python packages (vlib/c20_fam.py) under a fresh root per scenario;
             ALL orders of importing the <= 4 unit modules (eager) and ALL orders of first looking the units up through
             the root's lazy search path (lazy); afterwards every bank (roots, intermediates, providers) is asked for
             every alias, every qualified name (incl. abstract classes) and four kinds of unknown references;
             ``Root(**kw)`` exercises ``Meta.__call__`` with ``default=``.  Outcomes are compared with a registration
             model and across orders; every shard has its own PYTHONHASHSEED.
  hashseed : a batch of families per shard is re-run in child interpreters with PYTHONHASHSEED = 0,1,2,.. and the
             outcomes compared across seeds (the lazy search path is a ``set``).
  section  : ``setup.Runner/Registry/Inventory/Gateway/Sink/Feed/Sink.Mode.resolve`` on a swapped-in ``Config`` read
             from 1-3 TOML layers with present / missing selectors and sections; the resolved section is then turned
             into a provider instance through ``forml.runtime._pad.ensure_instance`` against a generated family.

What the oracle deliberately does NOT demand (the property does not fix it):
  * a table overridden by a scalar/list or the reverse (kind conflict): the conflicting path is ignored, the rest of the
    mapping is still compared;  list members are only values with unambiguous equality (no 1/True/1.0 mixes);
  * colliding aliases: only that the later registration raises ``forml.UnexpectedError`` and that the root keeps
    resolving the reference to the class registered first; what lower banks or the qualified name of the *rejected*
    class resolve to afterwards is accepted either way; in lazy scenarios a latent collision (two not yet imported
    modules claiming one alias) may yield either claimant, MissingError or the UnexpectedError of the late clash
    (counted in ``latent_collision_outcomes``) - the order of the lookups legitimately decides that.  What is NOT
    accepted: the same program (same package names, same lookup order) resolving the alias to *different classes* under
    different PYTHONHASHSEED values - monitor ``hashseed``, key ``latent-collision-resolution-hashseed-dependent``
    (known finding on the pinned tree: the search paths live in a ``set``);
  * lazy lookup of an alias whose module is not where the search path convention puts it (``<path>.<alias>`` or the
    path package itself): the class or MissingError, never another class;
  * the order of the tuple returned by ``Multi`` (only its members are compared).
"""
import itertools
import json
import os
import re
import shutil
import subprocess
import sys
import tempfile

PROPERTY = 'C20'
LEVEL = 'exploration'
RULE = (
    'merge: seeded stacks of 1-4 layers drawn from a random key universe (depth <= 3; scalars, duplicate-free lists, '
    'tables; 10% with an injected kind conflict) applied through a seeded plan of Config entry points; distinct = '
    'distinct (stack, plan); non-trivial = some path occurs in >= 2 layers. family: directed + seeded provider family '
    'specs (1-4 unit modules, 0-2 abstract intermediates in base, 0-2 search paths, aliases, nested qualnames, generic '
    'roots, sibling roots, collisions, abstract units, ghost path) x all unit orders x {eager, lazy}; distinct = '
    'distinct (spec, mode, order). section: seeded (section class, layered config, explicit reference) cases; distinct '
    '= distinct case signature. hashseed: families x child interpreters with fixed PYTHONHASHSEED values.'
)
ASSUMPTIONS = [
    'tomli is the trusted TOML parser; every generated TOML text is checked to parse back to the generated mapping',
    'kind conflicts between layers, latent (not yet imported) alias collisions, aliases outside the search-path '
    'convention and non-existent search paths are outside what the property fixes - accepted either way (see docstring)',
    'a fresh top-level package name per scenario gives fresh root classes and hence fresh banks',
]
MANIFEST = {
    'text': 'Exploration: thousands of generated configuration stacks are pushed through the real Config entry points and '
            'compared with a reference merge; generated provider families (real modules in a temp package) are imported / '
            'lazily looked up in all orders of <= 4 units under many hash seeds and compared with a registration model; '
            'config sections are resolved and instantiated through runtime._pad. Holds on the inputs observed - not a '
            'proof over all configurations.',
    'design_ref': 'DESIGN.md section 5 / C20',
    'note': 'Trusted: the reference merge, the registration model in vlib/c20_fam.py, tomli.',
    'technique': 'runtime monitoring: generated-input differential oracle on live Config / provider banks, '
                 'order and hash-seed enumeration',
}
ANY = '<<not fixed by the property>>'
KEYS = ['a', 'b', 'c', 'd', 'path', 'default', 'k-1', 'K_2', 'x y', 'dot.ted', '9']
STRINGS = ['', 'x', 'a b', 'q"uote', 'back\\slash', 'été', 'true', '1', 'line\nbreak', "it's", '#no comment']
INTS = [-7, 2, 3, 42, 10**12, -1000]
FLOATS = [2.5, -0.25, 1e-05, 6.25e+20, 3.75]


def shards(tier):
    return 8 if tier == 'quick' else 16


def floors(tier):
    quick = tier == 'quick'
    wide = 1 if quick else 15  # family / section workload grows ~30x in the thorough tier, stacks 40x
    return {
        'merge_stacks_checked': 2400 if quick else 96000,
        'merge_states_checked': 3500 * (1 if quick else 30),
        'list_merges_checked': 2500 * (1 if quick else 30),
        'global_config_checked': shards(tier),
        'families_checked': 250 * wide,
        'family_scenarios': 5000 * wide,
        'imports_checked': 8000 * wide,
        'lookups_checked': 300000 * wide,
        'order_comparisons': 10000 * wide,
        'collisions_rejected': 500 * wide,
        'abstract_refs_checked': 50000 * wide,
        'unknown_refs_checked': 100000 * wide,
        'lazy_lookups_checked': 150000 * wide,
        'default_calls_checked': 1500 * wide,
        'hashseed_runs': (3 if quick else 6) * shards(tier),
        'hashseed_compared': 20000,
        'latent_collisions_compared': 100,
        'section_cases_checked': 480 if quick else 9600,
        'section_missing_checked': 100 * wide,
        'section_instances_checked': 150 * wide,
    }


# ================================================================ part 1: configuration layering
def canon(obj):
    """Type-strict canonical form (1, True and 1.0 differ; tuples are lists; mappings of any class are dicts)."""
    if isinstance(obj, bool):
        return ['b', obj]
    if isinstance(obj, int):
        return ['i', obj]
    if isinstance(obj, float):
        return ['f', repr(obj)]
    if isinstance(obj, str):
        return ['s', obj]
    if isinstance(obj, (list, tuple)):
        return ['l', [canon(v) for v in obj]]
    if hasattr(obj, 'items'):
        return ['t', sorted([k, canon(v)] for k, v in obj.items())]
    return ['?', repr(obj)]


def kind(value):
    return 't' if isinstance(value, dict) else 'l' if isinstance(value, list) else 's'


def ref_merge(old, new):
    """The reference merge, from the property text: later overrides earlier key by key at any depth, unrelated keys
    survive, lists are merged new-first without duplicates.  Kind conflicts are not fixed by the property -> ANY."""
    out = dict(old)
    for key, value in new.items():
        if key not in out:
            out[key] = value
        elif out[key] is ANY or kind(out[key]) != kind(value):
            out[key] = ANY
        elif isinstance(value, dict):
            out[key] = ref_merge(out[key], value)
        elif isinstance(value, list):
            fresh = [canon(v) for v in value]
            out[key] = list(value) + [v for v in out[key] if canon(v) not in fresh]
        else:
            out[key] = value
    return out


def fold(layers):
    out = {}
    for layer in layers:
        out = ref_merge(out, layer)
    return out


def diff(expected, observed, path=()):
    """-> first difference as (path, reason, expected, observed) or None."""
    if expected is ANY:
        return None
    if isinstance(expected, dict):
        if not hasattr(observed, 'items'):
            return path, 'table-replaced', expected, observed
        for key in sorted(expected):
            if key not in observed:
                return path + (key,), 'key-lost', expected[key], None
        for key in sorted(observed):
            if key not in expected:
                return path + (key,), 'key-invented', None, observed[key]
        for key in sorted(expected):
            found = diff(expected[key], observed[key], path + (key,))
            if found:
                return found
        return None
    if isinstance(expected, list):
        if not isinstance(observed, (list, tuple)):
            return path, 'list-replaced', expected, observed
        want, got = [canon(v) for v in expected], [canon(v) for v in observed]
        if want == got:
            return None
        if any(got.count(v) > 1 for v in got):
            return path, 'list-duplicates', expected, list(observed)
        if sorted(map(repr, want)) == sorted(map(repr, got)):
            return path, 'list-order', expected, list(observed)
        if all(v in want for v in got):
            return path, 'list-members-lost', expected, list(observed)
        return path, 'list-other', expected, list(observed)
    if canon(expected) != canon(observed):
        return path, 'scalar', expected, observed
    return None


def dig(mapping, path):
    for key in path:
        if not isinstance(mapping, dict) or key not in mapping:
            return KeyError
        mapping = mapping[key]
    return mapping


def merge_key(found, layers):
    """Mechanism key from structural features of the difference."""
    path, reason, _, observed = found
    holders = [i for i, layer in enumerate(layers) if dig(layer, path) is not KeyError]
    nested = '-nested' if len(path) > 1 else ''
    if reason == 'scalar':
        earlier = [canon(dig(layers[i], path)) for i in holders[:-1]]
        return ('merge-earlier-value-wins' if canon(observed) in earlier else 'merge-scalar-wrong') + nested
    if reason == 'key-lost':
        return ('merge-new-key-lost' if holders and holders[-1] == len(layers) - 1 else 'merge-unrelated-key-lost') + nested
    return 'merge-' + reason + nested


# ---------------------------------------------------------------- generators
def gen_scalar(rng):
    pick = rng.random()
    if pick < 0.3:
        return rng.choice(INTS)
    if pick < 0.5:
        return rng.choice(FLOATS)
    if pick < 0.65:
        return rng.random() < 0.5
    return rng.choice(STRINGS)


def gen_pool(rng):
    """Candidate members of one list-valued key: unambiguous equality, occasionally nested lists / inline tables."""
    pool = rng.sample(INTS, 2) + rng.sample(STRINGS, 3) + rng.sample(FLOATS, 1) + [rng.random() < 0.5]
    if rng.random() < 0.15:
        pool.append([rng.choice(INTS), rng.choice(STRINGS)])
    if rng.random() < 0.15:
        pool.append({'n': rng.choice(INTS)})
    rng.shuffle(pool)
    return pool[:rng.randint(3, 6)]


def gen_universe(rng, depth=1):
    universe = {}
    for key in rng.sample(KEYS, rng.randint(2, 4)):
        pick = rng.random()
        if depth < 3 and pick < 0.4:
            universe[key] = ('t', gen_universe(rng, depth + 1))
        elif pick < 0.72:
            universe[key] = ('l', gen_pool(rng))
        else:
            universe[key] = ('s',)
    return universe


def gen_layer(rng, universe, density):
    layer = {}
    for key, entry in universe.items():
        if rng.random() > density:
            continue
        if entry[0] == 't':
            layer[key] = gen_layer(rng, entry[1], 0.75)
        elif entry[0] == 'l':
            layer[key] = rng.sample(entry[1], rng.randint(0, min(4, len(entry[1]))))
        else:
            layer[key] = gen_scalar(rng)
    return layer


def paths_of(mapping, prefix=()):
    for key, value in mapping.items():
        yield prefix + (key,), value
        if isinstance(value, dict):
            yield from paths_of(value, prefix + (key,))


def gen_stack(rng):
    universe = gen_universe(rng)
    layers = [gen_layer(rng, universe, 0.8) for _ in range(rng.randint(1, 4))]
    conflict = False
    if len(layers) > 1 and rng.random() < 0.1:
        index = rng.randrange(1, len(layers))
        places = list(paths_of(layers[index]))
        if places:
            path, value = rng.choice(places)
            target = dig(layers[index], path[:-1]) if len(path) > 1 else layers[index]
            target[path[-1]] = {'t': rng.choice([7, ['z']]), 'l': rng.choice(['s', {'z': 1}]), 's': rng.choice([{'z': 1}, ['z']])}[kind(value)]
            conflict = True
    return layers, conflict


def gen_plan(rng, count):
    """How the layers reach the Config: [['defaults', i] | ['ctor', i...] ] then ['read'|'update'|'kwargs'|'both', i..]."""
    plan, index = [], 0
    if rng.random() < 0.5:
        plan.append(['defaults', 0])
        index = 1
    files = rng.randint(0, count - index)
    if files:
        plan.append(['ctor'] + list(range(index, index + files)))
        index += files
    while index < count:
        step = rng.choice(['read', 'update', 'kwargs', 'both'])
        if step == 'both' and index + 1 < count:
            plan.append(['both', index, index + 1])
            index += 2
        else:
            plan.append([step if step != 'both' else 'update', index])
            index += 1
    return plan


# ---------------------------------------------------------------- TOML writer (checked against tomli per text)
def toml_key(key, rng):
    if re.fullmatch(r'[A-Za-z0-9_-]+', key) and rng.random() < 0.85:
        return key
    return json.dumps(key)


def toml_value(value, rng):
    if isinstance(value, bool):
        return 'true' if value else 'false'
    if isinstance(value, int):
        return str(value)
    if isinstance(value, float):
        return repr(value)
    if isinstance(value, str):
        return json.dumps(value)
    if isinstance(value, list):
        return '[' + ', '.join(toml_value(v, rng) for v in value) + (',' if value and rng.random() < 0.2 else '') + ']'
    return '{' + ', '.join(f'{toml_key(k, rng)} = {toml_value(v, rng)}' for k, v in value.items()) + '}'


def toml_dumps(mapping, rng, prefix=()):
    lines, later = [], []
    for key, value in mapping.items():
        if isinstance(value, dict) and not (rng.random() < 0.25):
            later.append((key, value))
        else:
            lines.append(f'{toml_key(key, rng)} = {toml_value(value, rng)}')
    for key, value in later:
        header = prefix + (toml_key(key, rng),)
        lines.append('')
        lines.append('[' + '.'.join(header) + ']')
        lines.append(toml_dumps(value, rng, header))
    return '\n'.join(lines)


def write_toml(mapping, rng, path):
    import tomli

    from vlib import core

    text = toml_dumps(mapping, rng) + '\n'
    if canon(tomli.loads(text)) != canon(mapping):
        raise core.Inconclusive(f'TOML writer self-check failed for {mapping!r}: {text!r}')
    with open(path, 'w', encoding='utf-8') as fd:
        fd.write(text)


# ---------------------------------------------------------------- monitor
def check_stack(ctx, workdir, layers, plan, styleseed):
    """Apply the layers to a real Config as the plan says; compare every reached state with the reference fold."""
    import pathlib
    import random

    from forml.setup import _conf

    ctx.count('evaluations')
    ctx.count('merge_stacks_checked')
    witness = {'kind': 'stack', 'layers': layers, 'plan': plan, 'style': styleseed}
    rng = random.Random(styleseed)
    casedir = tempfile.mkdtemp(prefix='stack', dir=workdir)
    seen = {}
    for path, _ in itertools.chain.from_iterable(paths_of(layer) for layer in layers):
        seen[path] = seen.get(path, 0) + 1
    if any(n > 1 for n in seen.values()):
        ctx.shape(('stack', layers, plan))
    ctx.count('list_merges_checked', sum(
        1 for path, n in seen.items() if n > 1 and all(isinstance(dig(l, path), list) for l in layers if dig(l, path) is not KeyError)))
    try:
        files = {}
        for index, layer in enumerate(layers):
            files[index] = pathlib.Path(casedir) / f'layer{index}.toml'
            write_toml(layer, rng, files[index])
        done = []
        config = None
        steps = list(plan)
        try:
            defaults = {}
            if steps and steps[0][0] == 'defaults':
                defaults = layers[0]
                done.append(0)
                steps.pop(0)
            ctor = []
            if steps and steps[0][0] == 'ctor':
                ctor = steps.pop(0)[1:]
                done.extend(ctor)
            config = _conf.Config(defaults, *(files[i] for i in ctor))
            if not compare_state(ctx, config, layers, done, witness):
                return
            for step in steps:
                if step[0] == 'read':
                    config.read(files[step[1]])
                elif step[0] == 'update':
                    config.update(layers[step[1]])
                elif step[0] == 'kwargs':
                    config.update(**layers[step[1]])
                else:
                    config.update(layers[step[1]], **layers[step[2]])
                done.extend(step[1:])
                if not compare_state(ctx, config, layers, done, witness):
                    return
        except Exception as err:  # pylint: disable=broad-except
            if type(err).__name__ == 'Inconclusive':
                raise
            ctx.violation('config-raises-' + type(err).__name__.lower(),
                          f'Config raised {err!r} while applying layers {done}+ of {layers} via {plan}', witness)
    finally:
        shutil.rmtree(casedir, ignore_errors=True)


def compare_state(ctx, config, layers, done, witness):
    ctx.count('merge_states_checked')
    used = [layers[i] for i in done]
    expected = fold(used)
    found = diff(expected, config)
    if found:
        path, reason, want, got = found
        ctx.violation(merge_key(found, used),
                      f'Config after layers {done}: at {"/".join(path)} {reason}: expected {want!r} observed {got!r}; '
                      f'layers={used}', dict(witness, upto=list(done)))
        return False
    return True


# ---------------------------------------------------------------- global CONFIG of the process
def plant_global(ctx):
    """Before forml is imported: write $FORML_HOME/config.toml.  -> the planted mapping or None."""
    home = os.environ.get('FORML_HOME')
    if 'forml' in sys.modules or not home or not os.path.isdir(home):
        return None
    rng = ctx.rng('global', ctx.shard)
    universe = gen_universe(rng)
    planted = {
        'RUNNER': {'default': rng.choice(['dask', 'pyfunc', 'graphviz']), 'dask': {'scheduler': rng.choice(['threaded', 'x'])},
                   'verif': {'provider': 'verif', 'n': rng.choice(INTS)}},
        'FEED': {'path': rng.choice([['verif.feeds', 'forml.provider.feed'], ['forml.provider.feed', 'verif.feeds'], ['verif.feeds']])},
        'SINK': {'path': ['verif.sinks'], 'apply': rng.choice(['null', 'stdout'])},
        'REGISTRY': {'default': rng.choice(['volatile', 'homedir']), 'homedir': {'extra': [1.5, 'x']}},
        'VERIF': gen_layer(rng, universe, 0.9),
    }
    write_toml(planted, rng, os.path.join(home, 'config.toml'))
    return planted


def check_global(ctx, planted):
    import tomli

    from forml.setup import _conf

    ctx.count('evaluations')
    ctx.count('global_config_checked')
    layers = [json.loads(json.dumps(_conf.DEFAULTS))]
    for directory in _conf.PATH[:-1]:
        try:
            with open(directory / _conf.APPCFG, 'rb') as fd:
                layers.append(tomli.load(fd))
        except FileNotFoundError:
            pass
    layers.append(planted)
    ctx.shape(('global', planted))
    found = diff(fold(layers), _conf.CONFIG)
    if found:
        path, reason, want, got = found
        ctx.violation('global-' + merge_key(found, layers),
                      f'process CONFIG at {"/".join(path)} {reason}: expected {want!r} observed {got!r}',
                      {'kind': 'global', 'planted': planted})


# ================================================================ part 2: provider families
def cls(name, module, parent, abstract, alias=None, nested=False):
    return {'name': name, 'module': module, 'parent': parent, 'abstract': abstract, 'alias': alias, 'nested': nested}


def directed_families():
    root = cls('Root', 'base', None, True)
    plain = {'generic': False, 'default': ['b', {'p': 1}], 'paths': {'plug': 'Root'}, 'ghost': False, 'classes': [
        root, cls('A', 'plug.a', 'Root', False, 'a'), cls('B', 'plug.b', 'Root', False, 'b'), cls('C', 'plug.c', 'Root', False, 'c')]}
    clash = {'generic': False, 'default': ['a', {'p': 1}], 'paths': {'plug': 'Root', 'ext': 'Root'}, 'ghost': False, 'classes': [
        root, cls('A', 'plug.a', 'Root', False, 'a'), cls('B', 'ext.a', 'Root', False, 'a'), cls('C', 'ext.c', 'Root', False, 'c')]}
    deep = {'generic': True, 'default': None, 'paths': {'plug': 'Root', 'ext': 'Mid0'}, 'ghost': False, 'classes': [
        root, cls('Mid0', 'base', 'Root', True), cls('M', 'lib.m', 'Mid0', True), cls('A', 'plug.a', 'M', False, 'a', True),
        cls('B', 'ext', 'Mid0', False, 'b'), cls('N', 'lib.n', 'A', False, None)]}
    child = {'generic': False, 'default': ['a', {}], 'paths': {}, 'ghost': False, 'classes': [
        root, cls('A', 'lib.a', 'Root', False, 'a'), cls('B', 'lib.b', 'A', False, 'a'), cls('C', 'lib.c', 'A', False, 'c')]}
    sibling = {'generic': False, 'default': None, 'paths': {'plug': 'Root'}, 'ghost': False, 'classes': [
        root, cls('Root2', 'base', None, True), cls('A', 'plug.a', 'Root', False, 'a'), cls('S', 'lib.s', 'Root2', False, 'a'),
        cls('T', 'lib.s', 'Root2', False, 't')]}
    ghost = {'generic': False, 'default': ['b', {'p': 2}], 'paths': {'plug': 'Root', 'ext': 'Root'}, 'ghost': True, 'classes': [
        root, cls('A', 'plug.a', 'Root', False, 'a'), cls('B', 'ext', 'Root', False, 'b'), cls('M', 'lib.m', 'Root', True),
        cls('C', 'ext.c', 'M', False, 'c')]}
    triple = {'generic': False, 'default': None, 'paths': {'plug': 'Mid0'}, 'ghost': False, 'classes': [
        root, cls('Mid0', 'base', 'Root', True), cls('Mid1', 'base', 'Root', True), cls('A', 'plug.a', 'Mid0', False, 'a'),
        cls('B', 'lib.b', 'Mid1', False, 'a'), cls('C', 'lib.c', 'Root', False, 'a', True), cls('D', 'plug.d', 'Mid1', False, 'd')]}
    inner = {'generic': False, 'default': None, 'paths': {'plug': 'Root'}, 'ghost': False, 'classes': [
        root, cls('I', 'lib.i', 'Root', 'inner'), cls('A', 'plug.a', 'I', False, 'a'), cls('J', 'plug.j', 'Root', 'inner'),
        cls('B', 'lib.b', 'Root', False, 'b')]}
    return [plain, clash, deep, child, sibling, ghost, triple, inner]


def acyclic(spec):
    """No import cycle between the generated modules (a sub-module depends on its package, a module on the modules of
    the parents of its classes) - a cycle would break the generated code itself, not forml."""
    modules = {c['module'] for c in spec['classes']}
    graph = {m: set() for m in modules}
    names = {c['name']: c for c in spec['classes']}
    for entry in spec['classes']:
        if entry['parent'] and names[entry['parent']]['module'] != entry['module']:
            graph[entry['module']].add(names[entry['parent']]['module'])
        parts = entry['module'].split('.')
        graph[entry['module']].update('.'.join(parts[:i]) for i in range(1, len(parts)) if '.'.join(parts[:i]) in modules)
    state = {}

    def visit(node):
        if state.get(node) == 1:
            return False
        if state.get(node) == 2:
            return True
        state[node] = 1
        good = all(visit(n) for n in graph[node])
        state[node] = 2
        return good

    return all(visit(m) for m in sorted(modules))


def gen_family(rng):
    while True:
        spec = gen_family_once(rng)
        if acyclic(spec):
            return spec


def gen_family_once(rng):
    classes = [cls('Root', 'base', None, True)]
    if rng.random() < 0.2:
        classes.append(cls('Root2', 'base', None, True))
    mids = []
    for index in range(rng.choice([0, 0, 1, 2])):
        classes.append(cls(f'Mid{index}', 'base', rng.choice(['Root'] + mids), True))
        mids.append(f'Mid{index}')
    pathnames = rng.sample(['plug', 'ext'], rng.choice([0, 1, 1, 2, 2]))
    paths = {p: rng.choice(['Root'] + mids) for p in pathnames}
    count = rng.randint(1, 4)
    pool = ['a', 'b', 'c', 'd']
    rng.shuffle(pool)
    unitclasses = []
    for index in range(count):
        abstract = rng.random() < 0.25 and rng.choice([True, True, 'inner'])  # 'inner': abstract only via an inner class
        parents = [c['name'] for c in classes]
        weights = [3 if c['module'] == 'base' else 2 for c in classes]
        parent = rng.choices(parents, weights)[0]
        alias = None if abstract or rng.random() < 0.15 else pool.pop()
        entry = cls(f'K{index}', None, parent, abstract, alias, rng.random() < 0.15)
        classes.append(entry)
        unitclasses.append(entry)
    parents = {c['parent'] for c in classes}
    # collisions: leaves below a common root share an alias (or a child repeats the alias of its concrete parent)
    clashing = set()
    if rng.random() < 0.3:
        leaves = [c for c in unitclasses if not c['abstract'] and c['name'] not in parents]
        byroot = {}
        for leaf in leaves:
            top = leaf
            while top['parent'] is not None:
                top = next(c for c in classes if c['name'] == top['parent'])
            byroot.setdefault(top['name'], []).append(leaf)
        groups = [g for g in byroot.values() if len(g) >= 2]
        heirs = [c for c in leaves if next(p for p in classes if p['name'] == c['parent'])['alias']]
        if heirs and rng.random() < 0.3:
            heir = rng.choice(heirs)
            heir['alias'] = next(p for p in classes if p['name'] == heir['parent'])['alias']
            clashing.add(heir['name'])
        elif groups:
            group = rng.choice(groups)
            members = rng.sample(group, rng.choice([2, 2, 3]) if len(group) > 2 else 2)
            shared = next((m['alias'] for m in members if m['alias']), 'z')
            for member in members:
                member['alias'] = shared
                clashing.add(member['name'])
    taken = set()
    for index, entry in enumerate(unitclasses):
        options = ['lib', 'lib']
        if pathnames:
            options += ['hidden', 'hidden']
            if entry['alias']:
                options += ['named'] * 5
                if entry['name'] not in clashing:
                    options += ['init']
        place = rng.choice(options)
        path = rng.choice(pathnames) if pathnames else None
        previous = unitclasses[index - 1] if index else None
        if (place in ('lib', 'hidden') and previous and rng.random() < 0.2 and previous['name'] not in clashing
                and entry['name'] not in clashing and re.search(r'\.(m|h)\d$', previous['module'] or '')):
            entry['module'] = previous['module']
            continue
        module = {'lib': f'lib.m{index}', 'hidden': f'{path}.h{index}', 'named': f'{path}.{entry["alias"]}', 'init': path}[place]
        if module in taken and place == 'named':
            other = [p for p in pathnames if f'{p}.{entry["alias"]}' not in taken]
            module = f'{other[0]}.{entry["alias"]}' if other else f'lib.m{index}'
        entry['module'] = module
        taken.add(module)
    default = None
    if rng.random() < 0.45:
        aliases = [c['alias'] for c in classes if c['alias']]
        default = [rng.choice(aliases + ['nosuch']) if aliases else 'nosuch', rng.choice([{}, {'p': 1}, {'p': 1, 'q': 'x'}])]
    return {'generic': rng.random() < 0.2, 'default': default, 'paths': paths, 'ghost': bool(pathnames) and rng.random() < 0.1,
            'classes': classes}


def lookup_key(spec, clash, mode, holder, key, outcome, want):
    """Mechanism key of a lookup whose outcome is not acceptable."""
    from vlib import c20_fam as fam

    classes = fam.by_name(spec)
    via = '' if classes[holder]['parent'] is None else '-via-subclass-bank'
    lazy = '-lazy' if mode == 'lazy' else ''
    if outcome[:2] in ('C:', 'I:', 'X:'):
        name = outcome.split(':')[1]
        if name in classes and classes[name]['abstract']:
            return 'abstract-provider-returned' + lazy
        if want <= {'missing', 'unexpected'}:
            return 'unknown-reference-resolved' + lazy + via
        if key in clash:
            return 'collision-first-registration-overwritten' + via
        return 'wrong-class-resolved' + lazy + via
    if outcome == 'missing':
        return 'registered-provider-missing' + lazy + via
    if outcome == 'unexpected':
        return 'lookup-raises-unexpected' + lazy + via
    if want <= {'missing', 'unexpected'}:
        return 'unknown-reference-wrong-error-' + outcome.split(':')[1].lower() + lazy
    return 'lookup-raises-' + outcome.split(':')[1].lower() + lazy + via


def judge(ctx, spec, mode, order, result, across=None, tag=''):
    """Compare one executed scenario with the registration model; ``across`` collects outcomes of determinate lookups
    over scenarios for the order-(in)dependence comparison."""
    from vlib import c20_fam as fam

    witness = {'kind': 'family', 'spec': spec, 'mode': mode, 'order': order}
    ctx.count('family_scenarios')
    if 'base' in result:
        ctx.violation('root-definition-raises', f'defining the abstract root raised {result["base"]}{tag}', witness)
        return
    imports, verdict = fam.allowed(spec, mode, order)
    clash = fam.collisions(spec)
    classes = fam.by_name(spec)
    for unit, want in imports.items():
        ctx.count('imports_checked')
        got = result['imports'].get(unit)
        if got == want:
            if want == 'unexpected':
                ctx.count('collisions_rejected')
            continue
        if want == 'unexpected':
            key = 'collision-accepted' if got == 'ok' else 'collision-wrong-error'
        else:
            key = 'registration-rejected-without-collision' if got == 'unexpected' else 'registration-raises'
        ctx.violation(key, f'import of unit {unit} in order {order}: expected {want}, observed {got}{tag}; spec={spec}',
                      dict(witness, unit=unit))
    for stage in ('first', 'lookups'):
        for holder, key, outcome in result[stage]:
            want = verdict(holder, key)
            ctx.count('lookups_checked')
            if mode == 'lazy':
                ctx.count('lazy_lookups_checked')
            if key in fam.UNKNOWN_REFS:
                ctx.count('unknown_refs_checked')
            if key.startswith('q:') and classes[key[2:]]['abstract']:
                ctx.count('abstract_refs_checked')
            if mode == 'lazy' and clash:
                ctx.note_set('latent_collision_outcomes', f'{key} -> {outcome.split(":")[0]}')
            if len(want) == 1 and across is not None and stage == 'lookups' and key not in clash:
                across.setdefault((mode, holder, key), set()).add(outcome)
            if outcome not in want:
                ctx.violation(lookup_key(spec, clash, mode, holder, key, outcome, want),
                              f'{mode} order {order}: {holder}[{key}] -> {outcome}, acceptable {sorted(want)}{tag}; spec={spec}',
                              dict(witness, holder=holder, ref=key, observed=outcome))
    if spec['default']:
        ctx.count('default_calls_checked')
        root = spec['classes'][0]['name']
        key = 'a:' + spec['default'][0]
        params = json.dumps(dict(spec['default'][1], q=2), sort_keys=True)
        want = {('I' + w[1:] + ':' + params) if w.startswith('C:') else w for w in verdict(root, key)}
        if result['default'] not in want:
            got = result['default']
            mech = 'default-instance-params-wrong' if got.startswith('I:') and got.split(':')[1] in {w.split(':')[1] for w in want if ':' in w} \
                else 'default-' + lookup_key(spec, clash, mode, root, key, got, verdict(root, key))
            ctx.violation(mech, f'{mode} order {order}: {root}(q=2) with default={spec["default"]} -> {got}, acceptable '
                                f'{sorted(want)}{tag}; spec={spec}', dict(witness, observed=got))


def check_family(ctx, workdir, spec, only=None):
    from vlib import c20_fam as fam

    ctx.count('families_checked')
    family = fam.Family(spec, workdir)
    across = {}
    try:
        todo = only or fam.scenarios(spec)
        ctx.note_max('max_orders_per_family', len(todo) // 2)
        for mode, order in todo:
            ctx.count('evaluations')
            ctx.shape(('family', spec, mode, order))
            judge(ctx, spec, mode, order, family.run(mode, order, {'q': 2}), across)
    finally:
        family.close()
    for (mode, holder, key), outcomes in across.items():
        ctx.count('order_comparisons')
        if len(outcomes) > 1:
            ctx.violation('resolution-order-dependent' + ('-lazy' if mode == 'lazy' else ''),
                          f'{holder}[{key}] resolves to {sorted(outcomes)} depending on the {mode} order; spec={spec}',
                          {'kind': 'family', 'spec': spec, 'holder': holder, 'ref': key})


def check_hashseeds(ctx, workdir, specs, seeds):
    """Run all scenarios of the families in child interpreters with fixed hash seeds; compare with the model and with
    each other."""
    from vlib import c20_fam as fam
    from vlib import core

    area = tempfile.mkdtemp(prefix='seeds', dir=workdir)
    jobs = {'workdir': None, 'jobs': [{'spec': spec, 'scenarios': fam.scenarios(spec)} for spec in specs]}
    procs = []

    def launch(seed, attempt):
        home = os.path.join(area, f'seed{seed}try{attempt}')
        os.makedirs(home)
        jobfile = os.path.join(home, 'jobs.json')
        with open(jobfile, 'w', encoding='utf-8') as fd:
            json.dump(dict(jobs, workdir=home), fd)
        env = dict(os.environ, PYTHONHASHSEED=str(seed), PYTHONPATH=os.pathsep.join([core.REPO, core.VERIF]),
                   PYTHONDONTWRITEBYTECODE='1', PYTHONWARNINGS='ignore')
        proc = subprocess.Popen([core.PYTHON, '-m', 'vlib.c20_fam', jobfile, os.path.join(home, 'out.json')], env=env,
                                cwd=core.VERIF, stdout=subprocess.DEVNULL, stderr=subprocess.PIPE, text=True)
        procs.append(proc)
        return home, proc

    def collect(seed, home, proc):
        """-> results of the child or a reason (str) why there are none."""
        try:
            _, err = proc.communicate(timeout=ctx.pick(240, 900))
        except subprocess.TimeoutExpired:
            proc.kill()
            proc.communicate()
            return f'hash-seed child (seed {seed}) exceeded its watchdog'
        out = os.path.join(home, 'out.json')
        if proc.returncode != 0 or not os.path.exists(out):
            return f'hash-seed child (seed {seed}) failed rc={proc.returncode}: {err[-800:]}'
        with open(out, encoding='utf-8') as fd:
            return json.load(fd)['results']

    results = {}
    try:
        for seed, (home, proc) in [(seed, launch(seed, 0)) for seed in seeds]:
            got = collect(seed, home, proc)
            if isinstance(got, str):  # e.g. the tree under test was being rewritten while the child imported it: once more
                got = collect(seed, *launch(seed, 1))
            if isinstance(got, str):
                ctx.inconclusive(got)
                continue
            results[seed] = got
            ctx.count('hashseed_runs')
    finally:
        for proc in procs:
            if proc.poll() is None:
                proc.kill()
        shutil.rmtree(area, ignore_errors=True)
    for index, job in enumerate(jobs['jobs']):
        spec = job['spec']
        for position, (mode, order) in enumerate(job['scenarios']):
            seen, picked = {}, {}
            latent, classes = fam.collisions(spec), fam.by_name(spec)
            for seed, result in results.items():
                ctx.count('evaluations')
                scenario = result[index][position]
                judge(ctx, spec, mode, order, scenario, None, tag=f' [child PYTHONHASHSEED={seed}]')
                if 'base' in scenario:
                    continue
                _, verdict = fam.allowed(spec, mode, order)
                for place, (holder, key, outcome) in enumerate(scenario['first'] + scenario['lookups']):
                    if len(verdict(holder, key)) == 1:
                        seen.setdefault((holder, key), {})[seed] = outcome
                    elif mode == 'lazy' and key in latent and classes[holder]['parent'] is None and outcome.startswith('C:'):
                        picked.setdefault((place, holder, key), {})[seed] = outcome
            for (holder, key), outcomes in seen.items():
                ctx.count('hashseed_compared')
                if len(set(outcomes.values())) > 1:
                    ctx.violation('resolution-hashseed-dependent' + ('-lazy' if mode == 'lazy' else ''),
                                  f'{mode} order {order}: {holder}[{key}] -> {outcomes} (by PYTHONHASHSEED); spec={spec}',
                                  {'kind': 'hashseed', 'spec': spec, 'seeds': sorted(results), 'holder': holder, 'ref': key})
            for (_, holder, key), outcomes in picked.items():
                ctx.count('latent_collisions_compared')
                if len(set(outcomes.values())) > 1:
                    # two not-yet-imported modules on the search path claim one alias: no registration clash happens, and
                    # which claimant the root returns follows the iteration order of the ``set`` of search paths
                    ctx.violation('latent-collision-resolution-hashseed-dependent',
                                  f'lazy order {order}: {holder}[{key}] -> {outcomes} (by PYTHONHASHSEED, identical package '
                                  f'names in every child); spec={spec}',
                                  {'kind': 'hashseed', 'spec': spec, 'seeds': sorted(results), 'holder': holder, 'ref': key})


# ================================================================ part 3: config sections -> providers
SECTION_FAMILY = {'generic': False, 'default': None, 'paths': {'plug': 'Root'}, 'ghost': False, 'classes': [
    cls('Root', 'base', None, True), cls('A', 'plug.a', 'Root', False, 'a'), cls('B', 'plug.b', 'Root', False, 'b'),
    cls('N', 'lib.n', 'Root', False, None, True), cls('M', 'lib.m', 'Root', True)]}
SECTION_KINDS = {'Runner': 'RUNNER', 'Registry': 'REGISTRY', 'Inventory': 'INVENTORY', 'Gateway': 'GATEWAY', 'Sink': 'SINK',
                 'Feed': 'FEED', 'SinkMode': 'SINK'}
PROVIDERS = [None, None, 'a:a', 'a:b', 'a:zz', 'q:N', 'q:M', 'qn']
SECTION_NAMES = ['a', 'b', 'r1', 'r2', 'zz']


def gen_section_case(rng):
    kindname = rng.choice(list(SECTION_KINDS))
    group = SECTION_KINDS[kindname]
    present = rng.sample(SECTION_NAMES, rng.randint(1, 4))
    sections = {}
    for name in present:
        body = {}
        provider = rng.choice(PROVIDERS)
        if provider:
            body['provider'] = '@' + provider
        if kindname == 'Feed' and rng.random() < 0.6:
            body['priority'] = rng.choice([0, 1, 2, 2.5, -1, 10])
        for key in rng.sample(['p1', 'p2', 'p3'], rng.randint(0, 2)):
            body[key] = rng.choice([3, 'v', 2.5, True] + ([['l', 2]] if key == 'p3' else []))
        if rng.random() < 0.3:
            body['params'] = {key: rng.choice([7, 'w']) for key in rng.sample(['g1', 'g2'], rng.randint(1, 2))}
            if rng.random() < 0.4:  # a generic parameter that happens to be called like a section option stays a parameter
                body['params']['provider'] = rng.choice(['@' + p for p in PROVIDERS if p] + ['nonsense'])
        sections[name] = body
    layers = [{group: dict(sections)}]
    index = {}
    pick = rng.random()
    if kindname == 'Feed':
        if pick < 0.8:
            index['default'] = rng.sample(SECTION_NAMES, rng.randint(1, 3)) if rng.random() < 0.75 else rng.choice(SECTION_NAMES)
    elif kindname == 'SinkMode':
        for option, chance in (('default', 0.6), ('apply', 0.5), ('eval', 0.5)):
            if rng.random() < chance:
                index[option] = rng.choice(present + present + SECTION_NAMES)
    elif pick < 0.85:
        index['default'] = rng.choice(present + present + SECTION_NAMES)
    layers[0][group].update(index)
    for _ in range(rng.choice([0, 0, 1, 2])):  # later layers: re-point the selector, override / add params, add sections
        extra = {}
        if rng.random() < 0.5 and kindname != 'SinkMode':
            extra['default'] = [rng.choice(SECTION_NAMES)] if kindname == 'Feed' and isinstance(index.get('default', []), list) \
                else rng.choice(SECTION_NAMES)
            if kindname == 'Feed' and isinstance(index.get('default'), str) and isinstance(extra['default'], list):
                extra.pop('default')
        name = rng.choice(SECTION_NAMES)
        extra[name] = {rng.choice(['p1', 'p4']): rng.choice([9, 'late'])}
        layers.append({group: extra})
    explicit = rng.choice([None, None, None] + SECTION_NAMES)
    return {'kind': 'section', 'class': kindname, 'layers': layers, 'explicit': explicit, 'eager': rng.random() < 0.4}


def section_expect_one(merged, group, name):
    """-> 'missing' | (provider reference, priority, params) as the documented section layout says."""
    body = merged.get(group, {}).get(name)
    if not isinstance(body, dict):
        return 'missing'
    body = dict(body)
    provider = body.pop('provider', name)
    priority = float(body.pop('priority', 0))
    body.update(body.pop('params', {}))
    return provider, priority, body


def section_oracle(case, merged):
    group = SECTION_KINDS[case['class']]
    index = merged.get(group, {})
    if case['class'] == 'SinkMode':
        if case['explicit']:
            names = [case['explicit']] * 2
        else:
            if group not in merged:
                return 'missing'
            names = [index.get('apply', index.get('default')), index.get('eval', index.get('default'))]
        if not all(names):
            return 'missing'
    else:
        selector = case['explicit'] or index.get('default')
        if not selector:
            return 'missing'
        names = [selector] if isinstance(selector, str) else list(selector)
    out = [section_expect_one(merged, group, name) for name in names]
    return 'missing' if 'missing' in out else out


def check_section(ctx, workdir, family, case, styleseed):
    import pathlib
    import random

    import forml
    from forml.runtime import _pad
    from forml.setup import _conf, _provider
    from vlib import c20_fam as fam

    ctx.count('evaluations')
    ctx.count('section_cases_checked')
    ctx.shape(('section', case))
    witness = dict(case, style=styleseed)
    rng = random.Random(styleseed)
    pkg, base = family.open(fam.units(SECTION_FAMILY) if case['eager'] else ())
    casedir = tempfile.mkdtemp(prefix='section', dir=workdir)
    original = _conf.CONFIG
    try:
        def concrete(obj):
            if isinstance(obj, dict):
                return {k: concrete(v) for k, v in obj.items()}
            if isinstance(obj, str) and obj.startswith('@'):
                return family.refstring(pkg, obj[1:])
            return obj

        layers = [concrete(layer) for layer in case['layers']]
        files = []
        for index, layer in enumerate(layers):
            files.append(pathlib.Path(casedir) / f'layer{index}.toml')
            write_toml(layer, rng, files[-1])
        merged = fold(layers)
        expected = section_oracle(case, merged)
        klass = _provider.Sink.Mode if case['class'] == 'SinkMode' else getattr(_provider, case['class'])
        try:
            _conf.CONFIG = _conf.Config({}, *files)
            try:
                resolved = klass.resolve(case['explicit']) if case['explicit'] or rng.random() < 0.5 else klass.default
            except forml.MissingError:
                resolved = 'missing'
        except Exception as err:  # pylint: disable=broad-except
            ctx.violation('section-resolve-raises-' + type(err).__name__.lower(),
                          f'{case["class"]}.resolve({case["explicit"]!r}) raised {err!r}; layers={layers}', witness)
            return
        finally:
            _conf.CONFIG = original
        if expected == 'missing':
            ctx.count('section_missing_checked')
            if resolved != 'missing':
                ctx.violation('section-missing-reference-resolved',
                              f'{case["class"]}.resolve({case["explicit"]!r}) -> {resolved!r} although the selector or a '
                              f'referenced section is missing; layers={layers}', witness)
            return
        if resolved == 'missing':
            ctx.violation('section-present-reference-missing',
                          f'{case["class"]}.resolve({case["explicit"]!r}) raised MissingError, expected {expected}; '
                          f'layers={layers}', witness)
            return
        items = [resolved] if case['class'] not in ('Feed', 'SinkMode') else list(resolved)
        got = sorted(([s.reference, float(getattr(s, 'priority', 0.0)), canon(s.params)] for s in items), key=repr)
        want = sorted(([p, q if case['class'] == 'Feed' else 0.0, canon(b)] for p, q, b in expected), key=repr)
        if got != want:
            if [g[0] for g in got] != [w[0] for w in want]:
                key = 'section-reference-wrong'
            elif [g[1] for g in got] != [w[1] for w in want]:
                key = 'section-priority-wrong'
            else:
                key = 'section-params-wrong'
            ctx.violation(key + ('-multi' if case['class'] == 'Feed' else ''),
                          f'{case["class"]}.resolve({case["explicit"]!r}) -> {got}, expected {want}; layers={layers}', witness)
            return
        # the resolved section becomes a provider instance the way the platform does it
        _, verdict = fam.allowed(SECTION_FAMILY, 'eager' if case['eager'] else 'lazy', fam.units(SECTION_FAMILY) if case['eager'] else [])
        reverse = {family.refstring(pkg, k): k for k in fam.refkeys(SECTION_FAMILY) + ['a:b', 'a:zz']}
        for section in items:
            key = reverse.get(section.reference, 'a:' + section.reference)
            if not all(isinstance(k, str) and k.isidentifier() for k in section.params):
                continue
            ctx.count('section_instances_checked')
            outcome = family.outcome(pkg, lambda s=section: _pad.ensure_instance(s, base.Root, extra=1))
            params = json.dumps(json.loads(json.dumps(dict(section.params, extra=1))), sort_keys=True)
            allowed = {('I' + w[1:] + ':' + params) if w.startswith('C:') else w for w in verdict('Root', key)}
            if outcome not in allowed:
                ctx.violation('section-provider-' + lookup_key(SECTION_FAMILY, set(), 'eager' if case['eager'] else 'lazy', 'Root', key,
                                                               outcome, verdict('Root', key)),
                              f'ensure_instance({section!r}, Root) -> {outcome}, acceptable {sorted(allowed)}; layers={layers}',
                              witness)
    finally:
        _conf.CONFIG = original
        family.shut(pkg)
        shutil.rmtree(casedir, ignore_errors=True)


# ================================================================ driver
def workarea():
    return tempfile.mkdtemp(prefix='c20work', dir=tempfile.gettempdir())


LATE_SERIAL = [0]


def check_late_path(ctx, workdir, variant):
    """A reference looked up (and correctly reported missing) BEFORE the class declaring its search path is imported
    resolves afterwards - what was unknown once is not unknown forever.  variant: 'alias' | 'qualified'."""
    import importlib
    import sys

    import forml

    ctx.count('evaluations')
    ctx.count('late_path_checked')
    LATE_SERIAL[0] += 1
    pkg = f'c20late{os.getpid()}x{LATE_SERIAL[0]}'
    root = os.path.join(workdir, pkg)
    os.makedirs(os.path.join(root, 'plug'))
    files = {
        '__init__.py': '',
        'base.py': 'import abc\nfrom forml import provider\n\nclass Iface(provider.Service):\n    @abc.abstractmethod\n    def need(self):\n        """abstract"""\n',
        'later.py': f'import abc\nfrom {pkg} import base\n\nclass Mid(base.Iface, path=["{pkg}.plug"]):\n    @abc.abstractmethod\n    def more(self):\n        """abstract"""\n',
        'plug/__init__.py': '',
        'plug/late.py': f'from {pkg} import later\n\nclass Late(later.Mid, alias="late"):\n    def need(self):\n        return 1\n    def more(self):\n        return 2\n',
    }
    for name, text in files.items():
        with open(os.path.join(root, name), 'w', encoding='utf-8') as fd:
            fd.write(text)
    witness = {'late_path': variant}
    sys.path.insert(0, workdir)
    importlib.invalidate_caches()
    try:
        base = importlib.import_module(f'{pkg}.base')
        reference = 'late' if variant == 'alias' else f'{pkg}.plug.late:Late'
        if variant == 'alias':
            try:
                base.Iface[reference]
                ctx.violation('late-path-known-too-early', f'Iface[{reference!r}] resolved before any search path was declared', witness)
                return
            except forml.MissingError:
                pass
            importlib.import_module(f'{pkg}.later')  # declares the search path on the banks of Mid and Iface
        else:
            sys.path.remove(workdir)
            try:
                base.Iface[reference]
                ctx.violation('late-path-known-too-early', f'Iface[{reference!r}] resolved while its module was not importable', witness)
                return
            except forml.MissingError:
                pass
            finally:
                sys.path.insert(0, workdir)
            importlib.invalidate_caches()
        try:
            found = base.Iface[reference]
            if found.__name__ != 'Late':
                ctx.violation('late-path-resolved-to-other-class', f'Iface[{reference!r}] -> {found}', witness)
        except forml.MissingError as err:
            ctx.violation('missing-although-resolvable-after-earlier-miss', f'Iface[{reference!r}] was looked up (and missing) before it '
                          f'became loadable; now that it is, the lookup still raises {err!r}', witness)
        except Exception as err:  # pylint: disable=broad-except
            ctx.violation('late-path-lookup-raises', f'Iface[{reference!r}] raised {err!r}', witness)
    finally:
        if workdir in sys.path:
            sys.path.remove(workdir)
        for name in [m for m in sys.modules if m == pkg or m.startswith(pkg + '.')]:
            del sys.modules[name]
        shutil.rmtree(root, ignore_errors=True)


def run(ctx):
    from vlib import core

    planted = plant_global(ctx)
    import forml  # noqa: F401  pylint: disable=unused-import
    from vlib import c20_fam as fam

    if planted is None:
        raise core.Inconclusive('forml was imported before the global configuration could be planted')
    check_global(ctx, planted)
    ctx.sample({'global_planted_keys': sorted(planted)})
    workdir = workarea()
    try:
        # ---- part 1: stacks
        rng = ctx.rng('stacks', ctx.shard)
        total = ctx.pick(2400, 96000)
        for index in range(total):
            if not ctx.mine(index):
                continue
            layers, _ = gen_stack(rng)
            plan = gen_plan(rng, len(layers))
            check_stack(ctx, workdir, layers, plan, rng.randrange(1 << 30))
            if index < ctx.nshards * 1 and len(layers) > 1:
                ctx.sample({'stack': layers, 'plan': plan, 'merged': json.loads(json.dumps(fold(layers)))})
        # ---- part 2: families (directed ones in every shard = under every hash seed; random ones sharded)
        for spec in directed_families():
            check_family(ctx, workdir, spec)
        check_late_path(ctx, workdir, 'alias')
        rng = ctx.rng('families', ctx.shard)
        mine = []
        for index in range(ctx.pick(288, 9600)):
            if not ctx.mine(index):
                continue
            spec = gen_family(rng)
            mine.append(spec)
            check_family(ctx, workdir, spec)
        if mine and ctx.shard == 0:
            ctx.sample({'family': mine[0]})
        # ---- hash seeds in child interpreters
        directed = directed_families()
        batch = [directed[1], directed[(ctx.shard + 2) % len(directed)]]  # [1] = latent collision on two search paths
        batch += sorted(mine, key=lambda s: -(len(s['paths']) * 10 + len(fam.units(s))))[:ctx.pick(2, 10)]
        check_hashseeds(ctx, workdir, batch, ctx.pick([0, 1, 2], [0, 1, 2, 3, 4, 5]))
        # ---- part 3: sections
        rng = ctx.rng('sections', ctx.shard)
        family = fam.Family(SECTION_FAMILY, workdir)
        try:
            for index in range(ctx.pick(480, 9600)):
                if not ctx.mine(index):
                    continue
                case = gen_section_case(rng)
                check_section(ctx, workdir, family, case, rng.randrange(1 << 30))
                if index == ctx.shard:
                    ctx.sample({'section': case})
        finally:
            family.close()
    finally:
        shutil.rmtree(workdir, ignore_errors=True)


def replay(ctx, witness):
    from vlib import c20_fam as fam

    kindname = witness.get('kind')
    if kindname == 'global':
        rng = ctx.rng('global-replay')
        home = os.environ['FORML_HOME']
        write_toml(witness['planted'], rng, os.path.join(home, 'config.toml'))
        check_global(ctx, witness['planted'])
        return
    workdir = workarea()
    try:
        if 'late_path' in witness:
            check_late_path(ctx, workdir, witness['late_path'])
        elif kindname == 'stack':
            check_stack(ctx, workdir, witness['layers'], witness['plan'], witness['style'])
        elif kindname == 'family':
            only = [[witness['mode'], witness['order']]] if 'mode' in witness else None
            check_family(ctx, workdir, witness['spec'], only)
        elif kindname == 'hashseed':
            check_hashseeds(ctx, workdir, [witness['spec']], witness['seeds'])
        elif kindname == 'section':
            family = fam.Family(SECTION_FAMILY, workdir)
            try:
                check_section(ctx, workdir, family, {k: witness[k] for k in ('kind', 'class', 'layers', 'explicit', 'eager')},
                              witness['style'])
            finally:
                family.close()
    finally:
        shutil.rmtree(workdir, ignore_errors=True)
