"""C09 - AST side: source-tree navigation, the coverage oracle, literal sanitising, near-miss variants of sub-statements
and the seeded generator of feed pools.  Standard library + vlib.dslgen only (no forml).

Vocabulary: the *source tree* of a statement is what it reads from: query -> its source, join / set -> both sides,
reference -> the referenced instance, table -> leaf.  (Column origins are not part of it; the generators only emit columns
of in-scope origins.)  An *advert* is a source AST a feed lists as a key of its ``sources`` mapping.
"""
from . import dslgen

#: python-hash-collision-free literal values (C08's known defect: feature equality is hash equality; -1/-2, 0/False,
#: 1/True/1.0/2**61, 2/2.0, -1.0/-2.0 ... collide).  After the remap every literal value of a statement has its own hash.
REMAP_INT = {-1: 4, -2: 5, 0: 9, 2 ** 61 - 1: 6, 1: 8, 2 ** 61: 7}
REMAP_FLOAT = {-1.0: -1.5, -2.0: -2.5, 1.0: 1.25, 2.0: 2.25}
SUBSTATEMENT_KINDS = ('reference', 'join', 'set', 'query')


def sanitize(ast):
    """The statement with its literals remapped to the collision-free pools; None when it holds a window function
    (identical windows are unequal on the pinned tree - C08 'window-identity' - and the SQL parser refuses them)."""

    def walk(node):
        if isinstance(node, tuple) and node:
            if node[0] == 'window':
                raise ValueError('window')
            if node[0] == 'literal':
                value, kind = node[1], node[2]
                if kind == 'int':
                    value = REMAP_INT.get(value, value)
                elif kind == 'float':
                    value = REMAP_FLOAT.get(value, value)
                return ('literal', value, kind)
            return tuple(walk(n) for n in node)
        return node

    try:
        return walk(dslgen.norm(ast))
    except ValueError:
        return None


def source_nodes(ast, path=()):
    """(path, node) of every node of the source tree, pre-order."""
    yield path, ast
    tag = ast[0]
    if tag in ('reference', 'query'):
        yield from source_nodes(ast[1], path + (1,))
    elif tag in ('join', 'set'):
        yield from source_nodes(ast[1], path + (1,))
        yield from source_nodes(ast[2], path + (2,))


def tables_of(ast):
    """Names of the tables the source tree reads (with repetition, traversal order)."""
    return [node[1] for _, node in source_nodes(ast) if node[0] == 'table']


# ---------------------------------------------------------------------------------------------- the oracle
def coverage(ast, adverts):
    """The property's coverage rule.  ``adverts``: set of dslgen signatures of the sources a feed advertises.

    Returns (covered, stops, missing): ``stops`` = [(path, node)] advertised nodes through which the statement is
    covered (outermost advertised node on every root-to-table path), ``missing`` = [(path, name)] tables the statement
    reads that are neither advertised nor inside an advertised sub-statement the statement contains.
    """
    stops, missing = [], []

    def visit(node, path):
        if dslgen.signature(node) in adverts:
            stops.append((path, node))
        elif node[0] == 'table':
            missing.append((path, node[1]))
        elif node[0] in ('reference', 'query'):
            visit(node[1], path + (1,))
        else:
            visit(node[1], path + (1,))
            visit(node[2], path + (2,))

    visit(ast, ())
    return not missing, stops, missing


def via(stops):
    """How a covering feed covers: 'tables' or the sorted kinds of the advertised sub-statements it needs."""
    kinds = sorted({node[0] for _, node in stops if node[0] != 'table'})
    return '+'.join(kinds) if kinds else 'tables'


# ---------------------------------------------------------------------------------------------- near misses
def variants(node):
    """Self-contained sources that differ from the node in exactly one structural (non-literal) detail - something a
    feed may advertise that must *not* be taken for the node."""
    tag = node[0]
    out = []
    if tag == 'reference':
        out.append(('reference', node[1], node[2] + 'x'))
    elif tag == 'join':
        left, right, kind, cond = node[1:5]
        if cond is not None:
            out.extend(('join', left, right, k, cond) for k in ('inner', 'left', 'right', 'full') if k != kind)
        out.append(('join', right, left, kind, cond))
    elif tag == 'set':
        out.extend(('set', node[1], node[2], k) for k in dslgen.SET_KINDS if k != node[3])
        out.append(('set', node[2], node[1], node[3]))
    elif tag == 'query':
        out.append(node[:7] + ((7, 0) if node[7] is None else None,))
        if node[3] is not None:
            out.append(node[:3] + (None,) + node[4:])
        if node[6]:
            out.append(node[:6] + ((),) + node[7:])
    return out


# ---------------------------------------------------------------------------------------------- pools
STRATEGIES = ('tables', 'tables', 'tables-minus', 'cut', 'cut', 'cut', 'cut-minus', 'single', 'single-plus', 'near-miss',
              'random', 'empty')
PRIORITIES = (-1000.0, -7.5, -1.0, 0.0, 0.25, 1.0, 2.0, 3.0, 10.0, 99.5, 1e3, 1e9)
SLOTS = ('s0', 's1', 's2')


def _cut(ast, rng, stop):
    """A random antichain covering the source tree: the outermost node of every branch that gets advertised."""
    picked = []

    def visit(node):
        if node[0] == 'table' or rng.random() < stop:
            picked.append(node)
        elif node[0] in ('reference', 'query'):
            visit(node[1])
        else:
            visit(node[1])
            visit(node[2])

    visit(ast)
    return picked


def adverts_for(strategy, ast, rng, foreign):
    """The advert ASTs of one feed aimed at the statement.  ``foreign``: source ASTs not meant to occur in it."""
    nodes = [node for _, node in source_nodes(ast)]
    tables = [('table', name) for name in sorted(set(tables_of(ast)))]
    subs = [n for n in nodes if n[0] != 'table']
    picked = []
    if strategy == 'tables':
        picked = list(tables)
    elif strategy == 'tables-minus':
        picked = list(tables)
        picked.pop(rng.randrange(len(picked)))
        if subs and rng.random() < 0.4:  # ... but some sub-statement (which may or may not hold the missing table)
            picked.append(rng.choice(subs))
    elif strategy in ('cut', 'cut-minus'):
        picked = _cut(ast, rng, rng.choice((0.25, 0.5, 0.8)))
        if strategy == 'cut-minus':
            picked.pop(rng.randrange(len(picked)))
    elif strategy in ('single', 'single-plus'):
        picked = [rng.choice(subs)] if subs else list(tables)
        if strategy == 'single-plus':
            picked.extend(t for t in tables if rng.random() < 0.5)
    elif strategy == 'near-miss':
        picked = _cut(ast, rng, 0.6)
        index = [i for i, n in enumerate(picked) if n[0] != 'table']
        if index:
            at = rng.choice(index)
            options = variants(picked[at])
            if options:
                picked[at] = rng.choice(options)
        else:
            picked.pop(rng.randrange(len(picked)))
            if subs:
                picked.extend(variants(rng.choice(subs))[:1])
    elif strategy == 'random':
        picked = [n for n in nodes if rng.random() < 0.35]
    elif strategy != 'empty':
        raise ValueError(strategy)
    # distractors: unrelated tables, sub-statements of another statement, near misses of this one's
    if rng.random() < 0.5:
        extra = list(foreign)
        for sub in subs:
            extra.extend(variants(sub))
        for _ in range(rng.choice((1, 1, 2, 3))):
            if extra:
                picked.append(rng.choice(extra))
    unique = {}
    for node in picked:
        unique.setdefault(dslgen.signature(node), node)
    return list(unique.values())


def make_pool(rng, statements):
    """A pool spec for the case: 1-3 feeds; each aims its adverts at one of the statements (mostly the first)."""
    size = rng.choice((1, 2, 2, 3, 3, 3))
    unused = [('table', name) for name in dslgen.SCHEMA if all(name not in tables_of(s) for s in statements)]
    priorities = rng.sample(PRIORITIES, size)
    tied = size > 1 and rng.random() < 0.08
    if tied:
        priorities[1] = priorities[0]
    explicit = rng.randrange(size) if rng.random() < 0.2 else None  # at most one: explicit instances all rank infinite
    feeds = []
    for index in range(size):
        target = 0 if len(statements) == 1 or rng.random() < 0.75 else rng.randrange(1, len(statements))
        foreign = list(unused)
        for other, statement in enumerate(statements):
            if other != target:
                foreign.extend(node for _, node in source_nodes(statement) if node[0] != 'table')
        strategy = rng.choice(STRATEGIES)
        feeds.append({
            'slot': SLOTS[index],
            'priority': None if index == explicit else priorities[index],
            'strategy': strategy,
            'target': target,
            'adverts': adverts_for(strategy, statements[target], rng, foreign),
        })
    order = list(range(size))
    rng.shuffle(order)
    return {'feeds': feeds, 'order': order}


def pool_signature(statement, pool):
    """Canonical shape of a (statement, pool) pair: statement skeleton x per feed (priority rank, explicit?, which nodes
    of the statement's source tree it advertises by path and kind, how many foreign adverts by kind)."""
    where = {}
    for path, node in source_nodes(statement):
        where.setdefault(dslgen.signature(node), (path, node[0]))
    ranks = sorted({f['priority'] if f['priority'] is not None else float('inf') for f in pool['feeds']})
    feeds = []
    for feed in pool['feeds']:
        inside = sorted(where[s] for s in (dslgen.signature(a) for a in feed['adverts']) if s in where)
        outside = sorted(a[0] for a in feed['adverts'] if dslgen.signature(a) not in where)
        rank = ranks.index(feed['priority'] if feed['priority'] is not None else float('inf'))
        feeds.append((rank, feed['priority'] is None, inside, outside))
    return [dslgen.skeleton(statement), sorted(feeds, key=repr)]


def trivial(statement, pool):
    """Every feed advertises exactly the tables of the statement - the situation the repository's own tests cover."""
    tables = sorted({dslgen.signature(('table', name)) for name in tables_of(statement)})
    return all(sorted(dslgen.signature(a) for a in feed['adverts']) == tables for feed in pool['feeds'])
