"""On-disk forml project source trees generated from a JSON spec (used by checks/c18.py).

Spec::

    {'name': 'dist-name', 'version': '1.0', 'package': 'pk.sub',
     'modules': {'pipeline': 'pipe', 'source': 'pk.sub.deep.src'},   # non-conventional component module paths
     'threshold': 7, 'columns': ['a', 'c'], 'label': 'b',            # the source definition
     'helper': False,                                                # threshold kept in a sibling helper module
     'marks': ['x', 'y'],                                            # the pipeline definition (operator chain)
     'evaluation': 'tag' | None,                                     # evaluation component (absent if None)
     'data': ['pk/sub/data.txt']}                                    # non-python files (make a zip non zip-safe)

Every component embeds the values of the spec so that a loaded component can be *described* (``describe``) and the
description compared with the one expected from the spec (``expected``) - that is as far as the forml API lets one
compare two component instances coming from two separate imports.
"""
import os

SCHEMA = '''
from forml.io import dsl


class Verif(dsl.Schema):
    """Generated table."""

    a = dsl.Field(dsl.Integer())
    b = dsl.Field(dsl.Float())
    c = dsl.Field(dsl.String())
    d = dsl.Field(dsl.Integer())
'''

SOURCE = '''
from forml import project
from {package} import {schema} as schema
{helper}
T = schema.Verif
INSTANCE = project.Source.query(T.select({columns}).where(T.a > {threshold}), T.{label})
project.setup(INSTANCE)
'''

PIPELINE = '''
from forml import flow, project


class Mark(flow.Operator):
    """Transparent operator carrying a marker."""

    def __init__(self, tag):
        self.tag = tag

    def __repr__(self):
        return 'Mark(%r)' % (self.tag,)

    def compose(self, scope):
        return scope.expand()


INSTANCE = {chain}
project.setup(INSTANCE)
'''

EVALUATION = '''
from forml import evaluation, project


class Metric(evaluation.Metric):
    def __init__(self, tag):
        self.tag = tag

    def score(self, *outcomes):
        raise NotImplementedError()


class Method(evaluation.Method):
    def __init__(self, tag):
        self.tag = tag

    def produce(self, pipeline, features, labels):
        raise NotImplementedError()


INSTANCE = project.Evaluation(Metric({tag!r}), Method({tag!r}))
project.setup(INSTANCE)
'''
COMPONENTS = ('source', 'pipeline', 'evaluation')
SCHEMA_MODULE = 'verifschema'
HELPER_MODULE = 'verifconst'


def module_name(spec: dict, component: str) -> str:
    """Absolute module path of the component as forml's Components.load resolves it."""
    package = spec['package']
    name = spec.get('modules', {}).get(component) or component
    if not name.startswith(package + '.'):
        name = package + '.' + name
    return name


def _write(root: str, module: str, text: str, is_package: bool = False) -> None:
    parts = module.split('.')
    folder = root
    for part in parts if is_package else parts[:-1]:
        folder = os.path.join(folder, part)
        os.makedirs(folder, exist_ok=True)
        init = os.path.join(folder, '__init__.py')
        if not os.path.exists(init):
            with open(init, 'w', encoding='utf-8') as fd:
                fd.write('')
    if not is_package:
        with open(os.path.join(folder, parts[-1] + '.py'), 'w', encoding='utf-8') as fd:
            fd.write(text)


def generate(spec: dict, root: str) -> str:
    """Write the project source tree (without the manifest) under root; return root."""
    os.makedirs(root, exist_ok=True)
    package = spec['package']
    _write(root, package, '', is_package=True)
    _write(root, f'{package}.{SCHEMA_MODULE}', SCHEMA)
    columns = ', '.join(f'T.{c}' for c in spec['columns'])
    helper, threshold = '', spec['threshold']
    if spec.get('helper'):
        _write(root, f'{package}.{HELPER_MODULE}', f'K = {threshold}\n')
        helper, threshold = f'from {package} import {HELPER_MODULE}', f'{HELPER_MODULE}.K'
    _write(
        root,
        module_name(spec, 'source'),
        SOURCE.format(package=package, schema=SCHEMA_MODULE, helper=helper, columns=columns, threshold=threshold, label=spec['label']),
    )
    chain = ' >> '.join(f'Mark({m!r})' for m in spec['marks'])
    _write(root, module_name(spec, 'pipeline'), PIPELINE.format(chain=chain))
    if spec.get('evaluation') is not None:
        _write(root, module_name(spec, 'evaluation'), EVALUATION.format(tag=spec['evaluation']))
    for item in spec.get('data', []):
        path = os.path.join(root, *item.split('/'))
        os.makedirs(os.path.dirname(path), exist_ok=True)
        with open(path, 'w', encoding='utf-8') as fd:
            fd.write('payload of ' + item)
    if spec.get('namespace') and '.' in package:
        # the top level of the package path is an implicit namespace package (a directory without __init__.py), the way the
        # repository's own helloworld package is laid out (hello/world/...)
        init = os.path.join(root, package.split('.')[0], '__init__.py')
        if os.path.exists(init):
            os.unlink(init)
    return root


def files(root: str) -> dict:
    """Relative path -> bytes of all files under root (a directory), ignoring bytecode caches."""
    found = {}
    for folder, dirs, names in os.walk(root):
        dirs[:] = [d for d in dirs if d != '__pycache__']
        for name in names:
            path = os.path.join(folder, name)
            with open(path, 'rb') as fd:
                found[os.path.relpath(path, root).replace(os.sep, '/')] = fd.read()
    return found


def expected(spec: dict) -> dict:
    """Description of the components the spec defines."""
    return {
        'columns': list(spec['columns']),
        'threshold': spec['threshold'],
        'label': spec['label'],
        'marks': list(spec['marks']),
        'evaluation': spec.get('evaluation'),
    }


def describe(components) -> dict:
    """Description of loaded components (reads the definitions back through the forml API)."""
    query = components.source.extract.train
    marks, origins = [], set()

    def walk(node):
        if hasattr(node, '_left') and hasattr(node, '_right'):  # flow Compound (left >> right)
            walk(node._left)  # pylint: disable=protected-access
            walk(node._right)  # pylint: disable=protected-access
        else:
            marks.append(node.tag)
            origins.add(type(node).compose.__code__.co_filename)

    walk(components.pipeline)
    evaluation = components.evaluation
    if evaluation is not None:
        origins.add(type(evaluation.metric).score.__code__.co_filename)
        evaluation = evaluation.metric.tag if evaluation.metric.tag == evaluation.method.tag else [
            evaluation.metric.tag, evaluation.method.tag]
    return {
        'columns': [f.name for f in query.features],
        'threshold': query.prefilter.right.value,
        'label': components.source.extract.labels.name,
        'marks': marks,
        'evaluation': evaluation,
        'query': repr(query),
        'origins': sorted(origins),
    }
