"""Test actors of check C13 ("user code").  Every ``apply`` is an explicit function of (hyper-parameters in effect,
training history, input): it returns ``(tag, sorted param items, history, features)`` so the output reveals exactly
which state and which parameters an actor instance is using.  Every training step records
``(features, labels, alpha in effect when trained)``; the *Fold* actors instead learn a single value that may be falsy
(0, 0.0, '', [], {}, False, ()) and show it as ``('S', value)``.

The file is used twice by checks/c13.py: imported as the module ``vlib.c13_actors`` (classes resolvable by qualified
name: stdlib pickle and cloudpickle by reference) and ``exec``-ed into an anonymous namespace (classes not importable:
cloudpickle by value, like actors defined in ``__main__`` or a notebook).

Nothing in here is an oracle: the expected outputs are computed in checks/c13.py from its own flavour table.
"""
import functools
import pickle

from forml import flow
from forml.pipeline import wrap


def _items(params):
    return tuple(sorted(params.items()))


# ---------------------------------------------------------------------------------------------- native actors
class NativeDefault(flow.Actor):
    """Native stateful actor relying on the default (pickle of ``__dict__``) state."""

    TAG = 'nd'

    def __init__(self, alpha, beta='b', *, gamma=None):
        self.alpha = alpha
        self.beta = beta
        self.gamma = gamma
        self._history = []

    def train(self, features, labels, /):
        self._history.append((features, labels, self.alpha))

    def apply(self, *features):
        return self.TAG, _items(self.get_params()), tuple(self._history), tuple(features)

    def get_params(self):
        return {'alpha': self.alpha, 'beta': self.beta, 'gamma': self.gamma}

    def set_params(self, **params):
        for key, value in params.items():
            if key not in {'alpha', 'beta', 'gamma'}:
                raise ValueError(f'unknown param {key}')
            setattr(self, key, value)


class NativeInherited(NativeDefault):
    """Stateful only by inheritance (no train override of its own); one more hyper-parameter."""

    TAG = 'ni'

    def __init__(self, alpha=0, beta='b', *, gamma=None, delta=7):
        super().__init__(alpha, beta, gamma=gamma)
        self.delta = delta

    def get_params(self):
        return super().get_params() | {'delta': self.delta}

    def set_params(self, **params):
        if 'delta' in params:
            self.delta = params.pop('delta')
        super().set_params(**params)


class NativeCustom(flow.Actor):
    """Native stateful actor with its own state codec holding the history only."""

    def __init__(self, alpha=0, beta='b'):
        self._params = {'alpha': alpha, 'beta': beta}
        self._history = []

    def train(self, features, labels, /):
        self._history.append((features, labels, self._params['alpha']))

    def apply(self, *features):
        return 'nc', _items(self._params), tuple(self._history), tuple(features)

    def get_params(self):
        return dict(self._params)

    def set_params(self, **params):
        if set(params) - {'alpha', 'beta'}:
            raise ValueError(f'unknown params {params}')
        self._params.update(params)

    def get_state(self):
        return b'H' + pickle.dumps(tuple(self._history)) if self._history else b''

    def set_state(self, state):
        if state:
            assert state[:1] == b'H'
            self._history = list(pickle.loads(state[1:]))


class NativeSloppy(flow.Actor):
    """Native stateful actor whose own state codec carries the hyper-parameters too and whose ``set_state`` naively
    overwrites them: only the runtime's state preset (``SetState``) can keep the builder parameters in charge."""

    def __init__(self, alpha=0, beta='b'):
        self._params = {'alpha': alpha, 'beta': beta}
        self._history = []

    def train(self, features, labels, /):
        self._history.append((features, labels, self._params['alpha']))

    def apply(self, *features):
        return 'ns', _items(self._params), tuple(self._history), tuple(features)

    def get_params(self):
        return dict(self._params)

    def set_params(self, **params):
        if set(params) - {'alpha', 'beta'}:
            raise ValueError(f'unknown params {params}')
        self._params.update(params)

    def get_state(self):
        return pickle.dumps((dict(self._params), tuple(self._history)))

    def set_state(self, state):
        if state:
            params, history = pickle.loads(state)
            self._params = dict(params)
            self._history = list(history)


class NativeOpen(flow.Actor):
    """Native stateful actor with open keyword hyper-parameters (like tests/conftest.py) and the default state."""

    def __init__(self, **params):
        self._params = params
        self._history = []

    def train(self, features, labels, /):
        self._history.append((features, labels, self._params.get('alpha')))

    def apply(self, *features):
        return 'no', _items(self._params), tuple(self._history), tuple(features)

    def get_params(self):
        return dict(self._params)

    def set_params(self, **params):
        self._params.update(params)


class NativeStateless(flow.Actor):
    """Native actor without any training implementation."""

    def __init__(self, alpha=1, *, beta='x'):
        self.alpha = alpha
        self.beta = beta

    def apply(self, *features):
        return 'nl', _items(self.get_params()), (), tuple(features)

    def get_params(self):
        return {'alpha': self.alpha, 'beta': self.beta}

    def set_params(self, **params):
        for key, value in params.items():
            if key not in {'alpha', 'beta'}:
                raise ValueError(f'unknown param {key}')
            setattr(self, key, value)


# ---------------------------------------------------------------------------------------------- decorated functions
@wrap.Actor.apply
def FnStateless(*features, alpha, beta='b'):  # pylint: disable=invalid-name
    """Stateless function actor, keyword-only options."""
    return 'fl', _items({'alpha': alpha, 'beta': beta}), (), tuple(features)


@wrap.Actor.apply
def FnStatelessKw(features, /, *, alpha=1, **kwargs):  # pylint: disable=invalid-name
    """Stateless function actor, single input, open options."""
    return 'fk', _items({'alpha': alpha} | kwargs), (), (features,)


@wrap.Actor.train
def FnStateful(state, features, labels, *, alpha, beta='b'):  # pylint: disable=invalid-name,unused-argument
    """Stateful function actor - train part."""
    return tuple(state or ()) + ((features, labels, alpha),)


@FnStateful.apply
def FnStateful(state, features, *, alpha, beta='b'):  # pylint: disable=invalid-name,function-redefined
    """Stateful function actor - apply part."""
    return 'fs', _items({'alpha': alpha, 'beta': beta}), tuple(state), (features,)


@wrap.Actor.train
def FnStatefulPos(state, features, labels, alpha=3, beta=None):  # pylint: disable=invalid-name,unused-argument
    """Stateful function actor with positional-or-keyword options - train part; updates its state *in place* and returns the
    same object (the way a ``partial_fit`` style model does)."""
    if state is None:
        state = []
    state.append((features, labels, alpha))
    return state


@FnStatefulPos.apply
def FnStatefulPos(state, features, alpha=3, beta=None):  # pylint: disable=invalid-name,function-redefined
    """Stateful function actor with positional-or-keyword options - apply part."""
    return 'fp', _items({'alpha': alpha, 'beta': beta}), tuple(state), (features,)


@wrap.Actor.train
def FnStatefulKw(state, features, labels, /, alpha, **kwargs):  # pylint: disable=invalid-name,unused-argument
    """Stateful function actor with open options - train part."""
    return tuple(state or ()) + ((features, labels, alpha),)


@FnStatefulKw.apply
def FnStatefulKw(state, features, /, alpha, **kwargs):  # pylint: disable=invalid-name,function-redefined
    """Stateful function actor with open options - apply part."""
    return 'fw', _items({'alpha': alpha} | kwargs), tuple(state), (features,)


# ---------------------------------------------------------------------------------------------- wrapped classes
class _Estimator:
    """sklearn-like estimator: hyper-parameters are plain attributes, all with defaults."""

    TAG = '?'

    def __init__(self, alpha=1, beta='b'):
        self.alpha = alpha
        self.beta = beta
        self.history_ = []

    def fit(self, features, labels):
        self.history_.append((features, labels, self.alpha))
        return self

    def predict(self, *features):
        return self.TAG, _items(self.get_params()), tuple(self.history_), tuple(features)

    def get_params(self, deep=True):  # pylint: disable=unused-argument
        return {'alpha': self.alpha, 'beta': self.beta}

    def set_params(self, **params):
        for key, value in params.items():
            if key not in {'alpha', 'beta'}:
                raise ValueError(f'unknown param {key}')
            setattr(self, key, value)
        return self


@wrap.Actor.type(train='fit', apply='predict')
class WrapNamed(_Estimator):
    """Class actor with method-name mapping (decorator form)."""

    TAG = 'wn'


class Gadget:
    """User class with a completely foreign API (needs callable mappings)."""

    def __init__(self, alpha=1, beta='b'):
        self._config = {'alpha': alpha, 'beta': beta}
        self._seen = []

    def learn(self, pair):
        self._seen.append((*pair, self._config['alpha']))

    def infer(self, features):
        return _items(self._config), tuple(self._seen), tuple(features)

    def config(self):
        return dict(self._config)

    def configure(self, config):
        if set(config) - {'alpha', 'beta'}:
            raise ValueError(f'unknown params {config}')
        self._config.update(config)


WrapCallable = wrap.Actor.type(
    Gadget,
    train=lambda g, features, labels: g.learn((features, labels)),
    apply=lambda g, *features: ('wc', *g.infer(features)),
    get_params=lambda g: g.config(),
    set_params=lambda g, **params: g.configure(params),
)


def _gadget_learn(gadget, features, labels, mark=None):
    del mark
    gadget.learn((features, labels))


class _GadgetLearner:
    """A training implementation given as a callable *object* (neither a method name nor a plain function)."""

    def __call__(self, gadget, features, labels):
        gadget.learn((features, labels))


# the same actor with its training implementation mapped to other kinds of callables: a functools.partial, a callable object
WrapPartial = wrap.Actor.type(
    Gadget,
    train=functools.partial(_gadget_learn, mark='p'),
    apply=lambda g, *features: ('wp', *g.infer(features)),
    get_params=lambda g: g.config(),
    set_params=lambda g, **params: g.configure(params),
)
WrapCallableObject = wrap.Actor.type(
    Gadget,
    train=_GadgetLearner(),
    apply=lambda g, *features: ('wo', *g.infer(features)),
    get_params=lambda g: g.config(),
    set_params=lambda g, **params: g.configure(params),
)


@wrap.Actor.type
class WrapBare:
    """Class actor whose own method names already are the actor API (bare decorator)."""

    def __init__(self, alpha=1, beta='b'):
        self._params = {'alpha': alpha, 'beta': beta}
        self._history = []

    def train(self, features, labels):
        self._history.append((features, labels, self._params['alpha']))

    def apply(self, *features):
        return 'wb', _items(self._params), tuple(self._history), tuple(features)

    def get_params(self):
        return dict(self._params)

    def set_params(self, **params):
        if set(params) - {'alpha', 'beta'}:
            raise ValueError(f'unknown params {params}')
        self._params.update(params)


@wrap.Actor.type(apply='transform')
class WrapStateless:
    """Class actor without any training method."""

    def __init__(self, alpha=1, beta='b'):
        self.alpha = alpha
        self.beta = beta

    def transform(self, *features):
        return 'wl', _items(self.get_params()), (), tuple(features)

    def get_params(self):
        return {'alpha': self.alpha, 'beta': self.beta}

    def set_params(self, **params):
        for key, value in params.items():
            if key not in {'alpha', 'beta'}:
                raise ValueError(f'unknown param {key}')
            setattr(self, key, value)


@wrap.Actor.type(train='fit', apply='predict')
class WrapRequired(_Estimator):
    """Class actor whose origin has a mandatory constructor argument (reported by get_params like any other)."""

    TAG = 'wr'

    def __init__(self, alpha, beta='b'):  # pylint: disable=useless-parent-delegation
        super().__init__(alpha, beta)


class Estimator2(_Estimator):
    """Origin of WrapAssigned."""

    TAG = 'wa'


# the documented non-decorator form (``RfcActor = wrap.Actor.type(RandomForestClassifier, ...)``): the actor class
# carries the qualified name of its origin, so only cloudpickle (by value) can serialize it
WrapAssigned = wrap.Actor.type(Estimator2, train='fit', apply=lambda e, *features: e.predict(*features))


# ---------------------------------------------------------------------------------------------- falsy learned states
def _fold(state, labels):
    """The learned value: the first labels as they are (possibly 0, 0.0, '', [], {}, False, ()), later ones nested on
    top - so a continuation from a restored state differs visibly from a restart from scratch."""
    return labels if state is None else (state, labels)


@wrap.Actor.train
def FnFold(state, features, labels, *, alpha=1, beta='b'):  # pylint: disable=invalid-name,unused-argument
    """Stateful function actor whose trained state may be falsy - train part."""
    return _fold(state, labels)


@FnFold.apply
def FnFold(state, features, *, alpha=1, beta='b'):  # pylint: disable=invalid-name,function-redefined
    """Stateful function actor whose trained state may be falsy - apply part."""
    return 'ff', _items({'alpha': alpha, 'beta': beta}), ('S', state), (features,)


class NativeFoldDefault(flow.Actor):
    """Native actor, default state, learned value may be falsy."""

    TAG = 'fd'

    def __init__(self, alpha=0, beta='b'):
        self.alpha = alpha
        self.beta = beta
        self.learned = None

    def train(self, features, labels, /):
        self.learned = _fold(self.learned, labels)

    def apply(self, *features):
        return self.TAG, _items(self.get_params()), ('S', self.learned), tuple(features)

    def get_params(self):
        return {'alpha': self.alpha, 'beta': self.beta}

    def set_params(self, **params):
        for key, value in params.items():
            if key not in {'alpha', 'beta'}:
                raise ValueError(f'unknown param {key}')
            setattr(self, key, value)


class NativeFoldCustom(NativeFoldDefault):
    """Native actor, own state codec (empty only when never trained), learned value may be falsy."""

    TAG = 'fc'

    def get_state(self):
        return b'' if self.learned is None else b'L' + pickle.dumps(self.learned)

    def set_state(self, state):
        if state:
            assert state[:1] == b'L'
            self.learned = pickle.loads(state[1:])


@wrap.Actor.type(train='fit', apply='predict')
class WrapFoldNamed:
    """sklearn-like estimator whose fitted attribute may be falsy (method-name mapping)."""

    def __init__(self, alpha=1, beta='b'):
        self.alpha = alpha
        self.beta = beta
        self.learned_ = None

    def fit(self, features, labels):  # pylint: disable=unused-argument
        self.learned_ = _fold(self.learned_, labels)
        return self

    def predict(self, *features):
        return 'wf', _items(self.get_params()), ('S', self.learned_), tuple(features)

    def get_params(self, deep=True):  # pylint: disable=unused-argument
        return {'alpha': self.alpha, 'beta': self.beta}

    def set_params(self, **params):
        for key, value in params.items():
            if key not in {'alpha', 'beta'}:
                raise ValueError(f'unknown param {key}')
            setattr(self, key, value)
        return self


class FoldGadget:
    """Foreign API user class whose learned value may be falsy (callable mappings)."""

    def __init__(self, alpha=1, beta='b'):
        self._config = {'alpha': alpha, 'beta': beta}
        self._learned = None

    def learn(self, labels):
        self._learned = _fold(self._learned, labels)

    def infer(self, features):
        return 'wg', _items(self._config), ('S', self._learned), tuple(features)

    def config(self):
        return dict(self._config)

    def configure(self, config):
        if set(config) - {'alpha', 'beta'}:
            raise ValueError(f'unknown params {config}')
        self._config.update(config)


WrapFoldCallable = wrap.Actor.type(
    FoldGadget,
    train=lambda g, features, labels: g.learn(labels),
    apply=lambda g, *features: g.infer(features),
    get_params=lambda g: g.config(),
    set_params=lambda g, **params: g.configure(params),
)


# ---------------------------------------------------------------------------------------------- statefulness only
class _TrainMixin:
    def train(self, features, labels, /):
        self.seen = (features, labels)


class StatefulByMixin(_TrainMixin, flow.Actor):
    """Training implementation provided by a mixin."""

    def apply(self, *features):
        return features


class StatelessChild(NativeStateless):
    """Still no training implementation."""


class StatefulChild(NativeStateless):
    """A training implementation added below a stateless parent (the parent is asked for its statefulness first)."""

    def train(self, features, labels, /):
        self.seen = (features, labels)


class _NoFit:
    def predict(self, *features):
        return features

    def get_params(self):
        return {}

    def set_params(self, **params):
        pass


WrapMissingTrain = wrap.Actor.type(_NoFit, train='fit', apply='predict')  # mapped name the origin does not implement
WrapCallableTrain = wrap.Actor.type(_NoFit, train=lambda o, f, l: None, apply='predict')
