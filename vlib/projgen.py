"""On-disk forml project packages and registries generated from specs (used by C02 C04 C05 C16 C17)."""
import json
import os
import pathlib
import textwrap
import typing


def write_package(root: typing.Union[str, pathlib.Path], name: str, version: str, package: str = 'vproj',
                  modules: typing.Optional[dict] = None, files: typing.Optional[dict] = None) -> pathlib.Path:
    """Create a directory-based .4ml package: manifest + python package with the given module sources."""
    root = pathlib.Path(root)
    path = root / f'{name}-{version}.4ml'
    pkgdir = path.joinpath(*package.split('.'))
    pkgdir.mkdir(parents=True, exist_ok=True)
    (path / '__4ml__.py').write_text(
        f'NAME = {name!r}\nVERSION = {version!r}\nPACKAGE = {package!r}\nMODULES = {json.dumps(modules or {})}\n')
    parts = package.split('.')
    for depth in range(1, len(parts) + 1):
        init = path.joinpath(*parts[:depth]) / '__init__.py'
        if not init.exists():
            init.write_text('')
    for relative, source in (files or {}).items():
        target = pkgdir / relative
        target.parent.mkdir(parents=True, exist_ok=True)
        target.write_text(textwrap.dedent(source))
    return path


def directory(root: typing.Union[str, pathlib.Path], staging: typing.Optional[str] = None):
    """Fresh asset.Directory over a posix registry rooted at the given path (``staging``: the registry's documented option
    naming another location - possibly on another file system - for package staging)."""
    from forml.io import asset
    from forml.provider.registry.filesystem import posix

    return asset.Directory(posix.Registry(str(root), staging=staging) if staging else posix.Registry(str(root)))


def publish(adir, package_path):
    from forml import project as prj

    package = prj.Package(package_path)
    return adir.get(package.manifest.name).put(package)


def clear_caches() -> None:
    """Drop every module-level cache of the asset layer so that the next access re-reads the registry."""
    from forml.io.asset._directory.level import major, minor

    minor.TAGS.clear()
    minor.STATES.clear()
    major.ARTIFACTS.clear()
