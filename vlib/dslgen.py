"""dslgen - JSON-able statement ASTs for ``forml.io.dsl``: builders, an independent well-formedness oracle, output
schema oracle, generators, single-rule mutators and single-leaf variants.  Shared by C07/C08 (and meant for C06/C09/C14).

Only the standard library is imported at module level; ``forml`` (and ``sqlalchemy``) are imported lazily by ``catalog()``,
``build*`` and ``alchemy_sources()``.  ``dslgen.CATALOG`` is a lazy module attribute (PEP 562).

AST (nested tuples; lists are accepted everywhere - ``norm`` turns a JSON round trip back into tuples)::

    source  := ('table', name)
             | ('reference', source, alias)
             | ('join', left, right, kind, condition|None)          kind in JOIN_KINDS
             | ('set', left, right, kind)                           kind in SET_KINDS
             | ('query', source, select, where|None, groupby, having|None, orderby, rows|None)
                   select, groupby: tuples of features; orderby: tuple of (feature, 'asc'|'desc'); rows: (count, offset)
    feature := ('column', origin, name)       origin: table name or reference alias (aliases are unique per statement;
                                              an alias is resolved against *all* references of the whole statement, so
                                              that out-of-scope - "foreign" - columns can be expressed) or an explicit
                                              origin AST ('table', ..) / ('reference', ..)
             | ('literal', value, kind)       kind in int|float|str|bool|date (date value = iso text)
             | ('alias', feature, name)
             | ('arith', op, a, b)            op in + - * / %
             | ('cmp', op, a, b)              op in == != < <= > >=
             | ('and', a, b) | ('or', a, b) | ('not', a) | ('isnull', a) | ('notnull', a)
             | ('agg', fn, a)                 fn in count|sum|avg|min|max
             | ('func', fn, a)                fn in abs|ceil|floor|year
             | ('cast', a, kindname)          kindname in KINDS
             | ('window', fn, arg|None, partition, orderby)   fn in rownumber (arg None) | an aggregate fn

Use the constructor helpers ``table/reference/join/setop/query/column/lit/alias/...`` instead of writing tuples.

Oracle (written from the rule list of property C07, *not* from forml's code, deliberately no stricter):
``violations(ast)`` -> every (rule, path) broken; ``wellformed(ast)`` -> (bool, first rule); ``unspecified(ast)`` -> reason
when the statement uses a construct whose acceptance the property text does not fix (generators never emit those);
``schema_of(ast)`` -> [(name|None, kind)] where kind may be an alternative such as ``'Integer|Float'`` when the property
does not fix it (integer division, Avg of integers) and name is None for un-aliased expressions.
"""
import datetime
import itertools
import json
import random

# ------------------------------------------------------------------------------------------------ catalog
KINDS = ('Integer', 'Float', 'String', 'Boolean', 'Date')
NUMERIC = ('Integer', 'Float')
SCHEMA = {
    'A': [('x', 'Integer'), ('y', 'Integer'), ('z', 'Float'), ('s', 'String')],
    'B': [('x', 'Integer'), ('w', 'Integer'), ('t', 'String')],
    'C': [('k', 'Integer'), ('v', 'Float'), ('d', 'Date'), ('b', 'Boolean')],
}
#: tiny value domains (rows in SCHEMA column order) - for checks that execute statements (C06/C14)
DATA = {
    'A': [(1, 0, 0.5, 'a'), (1, 1, 1.5, 'b'), (2, 0, -1.0, 'a'), (2, 2, 0.5, None), (3, 1, None, 'b'), (-1, -2, 2.0, '')],
    'B': [(1, 10, 'a'), (2, 10, 'b'), (2, 20, 'a'), (4, 30, None), (-1, 0, 'c')],
    'C': [(1, 0.5, '2020-01-01', True), (2, 1.5, '2021-06-30', False), (3, -1.0, '2020-01-01', None), (5, 2.0, None, True)],
}
#: a table with exactly the fields of A under another name (C08: must not be confused with A)
TWIN = {'A2': SCHEMA['A']}
JOIN_KINDS = ('inner', 'left', 'right', 'full', 'cross')
SET_KINDS = ('union', 'intersection', 'difference')
ARITH = ('+', '-', '*', '/', '%')
CMP = ('==', '!=', '<', '<=', '>', '>=')
AGGS = ('count', 'sum', 'avg', 'min', 'max')
FUNCS = ('abs', 'ceil', 'floor', 'year')
LITKIND = {'int': 'Integer', 'float': 'Float', 'str': 'String', 'bool': 'Boolean', 'date': 'Date'}
#: literal pools; the first entries of int/float collide under python's hash (hash(-1) == hash(-2), hash(2**61-1) == 0,
#: hash(2**61) == hash(1), hash(-1.0) == hash(-2.0))
POOL = {
    'int': [-1, -2, 0, 2**61 - 1, 1, 2**61, 2, 3],
    'float': [-1.0, -2.0, 0.5, 1.0, 2.0, 0.0, -0.0],
    'str': ['a', 'b', ''],
    'bool': [True, False],
    'date': ['2020-01-01', '2021-06-30'],
}
SOURCE_TAGS = ('table', 'reference', 'join', 'set', 'query')
ORIGIN_TAGS = ('table', 'reference', 'join')
FEATURE_TAGS = ('column', 'literal', 'alias', 'arith', 'cmp', 'and', 'or', 'not', 'isnull', 'notnull', 'agg', 'func',
                'cast', 'window')

_CATALOG = None


class DslgenError(Exception):
    """Malformed AST handed to this library (a harness error, never a forml observation)."""


def catalog(extra=None):
    """name -> real ``dsl.Table`` for SCHEMA (+ TWIN); built once per process."""
    global _CATALOG  # pylint: disable=global-statement
    if _CATALOG is None:
        _CATALOG = make_catalog({**SCHEMA, **TWIN})
    if extra:
        return {**_CATALOG, **make_catalog(extra)}
    return _CATALOG


def make_catalog(schema):
    """Fresh ``dsl.Table`` objects (new classes) for the given name -> [(column, kind)] mapping."""
    from forml.io import dsl

    tables = {}
    for name, fields in schema.items():
        namespace = {column: dsl.Field(getattr(dsl, kind)()) for column, kind in fields}
        namespace['__module__'] = __name__
        tables[name] = type(dsl.Schema)(name, (dsl.Schema,), namespace)
    return tables


def __getattr__(name):  # PEP 562: lazy CATALOG, and ``dslgen.enumerate`` without shadowing the builtin in here
    if name == 'CATALOG':
        return {k: v for k, v in catalog().items() if k in SCHEMA}
    if name == 'enumerate':
        return enumerate_asts
    raise AttributeError(name)


def alchemy_sources(tables=None):
    """dsl.Table -> sqlalchemy table clause, for ``forml.provider.feed.reader.alchemy.Parser(sources, {})``."""
    from sqlalchemy import sql

    tables = tables or catalog()
    schema = {**SCHEMA, **TWIN}
    return {tables[n]: sql.table(n.lower(), *(sql.column(c) for c, _ in schema[n])) for n in tables if n in schema}


# ------------------------------------------------------------------------------------------------ constructors
def table(name):
    return ('table', name)


def reference(source, name):
    return ('reference', source, name)


def join(left, right, kind='inner', condition=None):
    return ('join', left, right, kind, condition)


def setop(left, right, kind='union'):
    return ('set', left, right, kind)


def query(source, select=(), where=None, groupby=(), having=None, orderby=(), rows=None):
    return ('query', source, tuple(select), where, tuple(groupby), having, tuple((f, d) for f, d in orderby),
            tuple(rows) if rows is not None else None)


def column(origin, name):
    return ('column', origin, name)


def lit(value, kind=None):
    if kind is None:
        kind = ('bool' if isinstance(value, bool) else 'int' if isinstance(value, int) else 'float'
                if isinstance(value, float) else 'date' if isinstance(value, datetime.date) else 'str')
    if isinstance(value, datetime.date):
        value = value.isoformat()
    return ('literal', value, kind)


def alias(feature, name):
    return ('alias', feature, name)


def arith(op, left, right):
    return ('arith', op, left, right)


def cmp(op, left, right):
    return ('cmp', op, left, right)


def and_(left, right):
    return ('and', left, right)


def or_(left, right):
    return ('or', left, right)


def not_(arg):
    return ('not', arg)


def isnull(arg):
    return ('isnull', arg)


def notnull(arg):
    return ('notnull', arg)


def agg(fn, arg):
    return ('agg', fn, arg)


def func(fn, arg):
    return ('func', fn, arg)


def cast(arg, kind):
    return ('cast', arg, kind)


def window(fn, arg, partition, orderby=()):
    return ('window', fn, arg, tuple(partition), tuple((f, d) for f, d in orderby))


# ------------------------------------------------------------------------------------------------ structure
def norm(ast):
    """Lists -> tuples, recursively (undo a JSON round trip)."""
    if isinstance(ast, (list, tuple)):
        return tuple(norm(a) for a in ast)
    return ast


def signature(ast):
    """Canonical string of an AST; equal exactly for structurally identical ASTs (value types included)."""

    def enc(node):
        if isinstance(node, (list, tuple)):
            return [enc(n) for n in node]
        if isinstance(node, bool):
            return {'b': node}
        if isinstance(node, float):
            return {'f': node.hex()}
        return node

    return json.dumps(enc(ast), separators=(',', ':'))


def skeleton(ast):
    """The AST with its leaves abstracted (literal -> kind, column / alias / table names dropped, limits dropped):
    the *shape* of a statement, used to count distinct non-trivial cases."""
    if isinstance(ast, tuple) and ast:
        tag = ast[0]
        if tag == 'literal':
            return ('literal', ast[2])
        if tag == 'column':
            return ('column',)
        if tag == 'table':
            return ('table',)
        if tag == 'reference':
            return ('reference', skeleton(ast[1]))
        if tag == 'alias':
            return ('alias', skeleton(ast[1]))
        if tag == 'query':
            return ('query',) + tuple(skeleton(a) for a in ast[1:7]) + (ast[7] is not None,)
        return tuple(skeleton(a) for a in ast)
    return ast


def is_source(node):
    return isinstance(node, tuple) and node and node[0] in SOURCE_TAGS


def is_feature(node):
    return isinstance(node, tuple) and node and node[0] in FEATURE_TAGS


def children(node):
    """(relative path, child node) of the directly nested tagged nodes."""
    tag = node[0]
    if tag == 'reference':
        yield (1,), node[1]
    elif tag == 'join':
        yield (1,), node[1]
        yield (2,), node[2]
        if node[4] is not None:
            yield (4,), node[4]
    elif tag == 'set':
        yield (1,), node[1]
        yield (2,), node[2]
    elif tag == 'query':
        yield (1,), node[1]
        for i, item in enumerate(node[2]):
            yield (2, i), item
        if node[3] is not None:
            yield (3,), node[3]
        for i, item in enumerate(node[4]):
            yield (4, i), item
        if node[5] is not None:
            yield (5,), node[5]
        for i, (item, _) in enumerate(node[6]):
            yield (6, i, 0), item
    elif tag == 'column':
        if isinstance(node[1], tuple):
            yield (1,), node[1]
    elif tag == 'alias':
        yield (1,), node[1]
    elif tag in ('arith', 'cmp'):
        yield (2,), node[2]
        yield (3,), node[3]
    elif tag in ('and', 'or'):
        yield (1,), node[1]
        yield (2,), node[2]
    elif tag in ('not', 'isnull', 'notnull', 'cast'):
        yield (1,), node[1]
    elif tag in ('agg', 'func'):
        yield (2,), node[2]
    elif tag == 'window':
        if node[2] is not None:
            yield (2,), node[2]
        for i, item in enumerate(node[3]):
            yield (3, i), item
        for i, (item, _) in enumerate(node[4]):
            yield (4, i, 0), item
    elif tag not in ('table', 'literal'):
        raise DslgenError(f'unknown tag {tag!r}')


def walk(ast, path=()):
    """(path, node) of every tagged node, pre-order."""
    yield path, ast
    for rel, child in children(ast):
        yield from walk(child, path + rel)


def get(ast, path):
    for index in path:
        ast = ast[index]
    return ast


def replace(ast, path, new):
    """Copy of ast with the node at path replaced."""
    if not path:
        return new
    head = path[0]
    return tuple(replace(item, path[1:], new) if i == head else item for i, item in enumerate(ast))


def subfeatures(feature):
    """All feature nodes of a feature tree (explicit origin ASTs of columns are not entered)."""
    yield feature
    for _, child in children(feature):
        if is_feature(child):
            yield from subfeatures(child)


def contains(feature, *tags):
    return any(f[0] in tags for f in subfeatures(feature))


def contains_aggregate(feature):
    """An aggregate function anywhere inside (also as the function of a window)."""
    return any(f[0] == 'agg' or (f[0] == 'window' and f[1] != 'rownumber') for f in subfeatures(feature))


def strip_alias(feature):
    while feature[0] == 'alias':
        feature = feature[1]
    return feature


def references(ast):
    """alias -> reference node for every reference of the statement (also those only used as explicit column origins)."""
    found = {}
    for _, node in walk(ast):
        if node[0] == 'reference':
            if node[2] in found and signature(found[node[2]]) != signature(node):
                raise DslgenError(f'alias {node[2]!r} used for two different references')
            found[node[2]] = node
    return found


def clauses(ast):
    """(owner path, clause name, feature path, feature) for every clause feature of every query / join of the statement."""
    for path, node in walk(ast):
        if node[0] == 'join' and node[4] is not None:
            yield path, 'join', path + (4,), node[4]
        elif node[0] == 'query':
            for i, item in enumerate(node[2]):
                yield path, 'select', path + (2, i), item
            if node[3] is not None:
                yield path, 'where', path + (3,), node[3]
            for i, item in enumerate(node[4]):
                yield path, 'groupby', path + (4, i), item
            if node[5] is not None:
                yield path, 'having', path + (5,), node[5]
            for i, (item, _) in enumerate(node[6]):
                yield path, 'orderby', path + (6, i, 0), item


# ------------------------------------------------------------------------------------------------ oracle
class Env:
    """Name resolution for one statement: tables of SCHEMA/TWIN plus every reference alias of the statement."""

    def __init__(self, root, schema=None):
        self.schema = schema or {**SCHEMA, **TWIN}
        self.refs = references(root)
        self._busy = set()

    def origin_id(self, origin):
        """Identifier of a column's origin: table name or alias."""
        if isinstance(origin, tuple):
            if origin[0] == 'table':
                return origin[1]
            if origin[0] == 'reference':
                return origin[2]
            raise DslgenError(f'not an origin: {origin!r}')
        return origin

    def columns(self, origin):
        """name -> kind of the named outputs of the origin (None when unknown origin)."""
        oid = self.origin_id(origin)
        if oid in self.refs:
            if oid in self._busy:
                raise DslgenError(f'reference {oid!r} is used inside its own definition')
            self._busy.add(oid)
            try:
                return {n: k for n, k in schema_of(self.refs[oid][1], self) if n is not None}
            finally:
                self._busy.discard(oid)
        if oid in self.schema:
            return dict(self.schema[oid])
        return None

    def scope(self, source):
        """Origin ids whose elements are the elements of the given source."""
        tag = source[0]
        if tag == 'table':
            return {source[1]}
        if tag == 'reference':
            return {source[2]}
        if tag == 'join':
            return self.scope(source[1]) | self.scope(source[2])
        raise DslgenError(f'{tag} cannot be queried directly (reference it first)')


def _alts(kind):
    return set(kind.split('|')) if kind else set()


def _numeric(kind):
    return bool(kind) and _alts(kind) <= set(NUMERIC)


def kind_of(feature, env):
    """Kind name of a feature (may be an alternative like 'Integer|Float'); None if it cannot be told."""
    tag = feature[0]
    if tag == 'column':
        cols = env.columns(feature[1])
        return cols.get(feature[2]) if cols else None
    if tag == 'literal':
        return LITKIND[feature[2]]
    if tag == 'alias':
        return kind_of(feature[1], env)
    if tag == 'arith':
        left, right = kind_of(feature[2], env), kind_of(feature[3], env)
        if not (_numeric(left) and _numeric(right)):
            return None
        if 'Float' in (left, right):
            return 'Float'
        if feature[1] == '/' or '|' in left or '|' in right:
            return 'Integer|Float'
        return 'Integer'
    if tag in ('cmp', 'and', 'or', 'not', 'isnull', 'notnull'):
        return 'Boolean'
    if tag == 'agg' or (tag == 'window' and feature[1] != 'rownumber'):
        if feature[1] == 'count':
            return 'Integer'
        inner = kind_of(feature[2], env)
        if feature[1] == 'avg' and inner and inner != 'Float':
            return 'Integer|Float'
        return inner
    if tag == 'window':
        return 'Integer'
    if tag == 'func':
        if feature[1] in ('ceil', 'floor', 'year'):
            return 'Integer'
        return kind_of(feature[2], env)
    if tag == 'cast':
        return feature[2]
    raise DslgenError(f'not a feature: {feature!r}')


def feature_name(feature):
    if feature[0] == 'alias':
        return feature[2]
    if feature[0] == 'column':
        return feature[2]
    return None


def schema_of(ast, env=None):
    """Output schema [(name|None, kind)] of a source in order."""
    env = env or Env(ast)
    tag = ast[0]
    if tag == 'table':
        return list(env.schema[ast[1]])
    if tag == 'reference':
        return schema_of(ast[1], env)
    if tag == 'join':
        return schema_of(ast[1], env) + schema_of(ast[2], env)
    if tag == 'set':
        return schema_of(ast[1], env)
    if tag == 'query':
        if not ast[2]:
            return schema_of(ast[1], env)
        return [(feature_name(f), kind_of(f, env)) for f in ast[2]]
    raise DslgenError(f'not a source: {ast!r}')


def output_features(ast, env):
    """The output features of a query as features (select list, or one column per output of the source)."""
    if ast[2]:
        return list(ast[2])
    out = []

    def expand(source):
        if source[0] in ('table', 'reference'):
            oid = env.origin_id(source)
            out.extend(('column', oid, n) for n, _ in schema_of(source, env))
        else:
            expand(source[1])
            expand(source[2])

    expand(ast[1])
    return out


def _kinds_equal(left, right):
    return bool(_alts(left) & _alts(right))


def _feature_violations(feature, env, scope, clause, path):
    """Rules every feature of a clause must obey: scope and operand kinds."""
    found = []
    for rel, node in walk(feature):
        if not is_feature(node):
            continue
        tag = node[0]
        if tag == 'column':
            cols = env.columns(node[1])
            if env.origin_id(node[1]) not in scope or cols is None or node[2] not in cols:
                found.append((f'scope-{clause}', path + rel))
        elif tag == 'arith':
            kinds = [kind_of(node[2], env), kind_of(node[3], env)]
            if all(kinds) and not all(_numeric(k) for k in kinds):
                found.append(('arithmetic-kinds', path + rel))
        elif tag == 'cmp':
            kinds = [kind_of(node[2], env), kind_of(node[3], env)]
            if all(kinds) and not (all(_numeric(k) for k in kinds) or _kinds_equal(*kinds)):
                found.append(('comparison-kinds', path + rel))
    return found


def violations(ast, env=None, path=()):
    """Every (rule, path) of the C07 rule list that the statement breaks (empty = conforming)."""
    env = env or Env(ast)
    tag = ast[0]
    found = []
    if tag == 'table':
        if ast[1] not in env.schema:
            raise DslgenError(f'unknown table {ast[1]}')
    elif tag == 'reference':
        found += violations(ast[1], env, path + (1,))
    elif tag == 'join':
        found += violations(ast[1], env, path + (1,))
        found += violations(ast[2], env, path + (2,))
        kind, cond = ast[3], ast[4]
        if kind == 'cross' and cond is not None:
            found.append(('cross-join-with-condition', path))
        if kind != 'cross' and cond is None:
            found.append(('join-without-condition', path))
        if cond is not None:
            scope = env.scope(ast[1]) | env.scope(ast[2])
            found += _feature_violations(cond, env, scope, 'join', path + (4,))
            if kind_of(cond, env) not in (None, 'Boolean'):
                found.append(('join-condition-not-boolean', path + (4,)))
            if contains_aggregate(cond):
                found.append(('aggregate-in-join', path + (4,)))
    elif tag == 'set':
        found += violations(ast[1], env, path + (1,))
        found += violations(ast[2], env, path + (2,))
        left, right = schema_of(ast[1], env), schema_of(ast[2], env)
        if len(left) != len(right) or any(
            (ln != rn) or (lk and rk and not _kinds_equal(lk, rk)) for (ln, lk), (rn, rk) in zip(left, right)
        ):
            found.append(('set-schema', path))
    elif tag == 'query':
        source, select, where, groupby, having, orderby = ast[1:7]
        found += violations(source, env, path + (1,))
        scope = env.scope(source)
        for i, item in enumerate(select):
            found += _feature_violations(item, env, scope, 'select', path + (2, i))
        if where is not None:
            found += _feature_violations(where, env, scope, 'where', path + (3,))
            if kind_of(where, env) not in (None, 'Boolean'):
                found.append(('where-not-boolean', path + (3,)))
            if contains_aggregate(where):
                found.append(('aggregate-in-where', path + (3,)))
        for i, item in enumerate(groupby):
            found += _feature_violations(item, env, scope, 'groupby', path + (4, i))
            if contains_aggregate(item):
                found.append(('aggregate-in-groupby', path + (4, i)))
        if having is not None:
            found += _feature_violations(having, env, scope, 'having', path + (5,))
            if kind_of(having, env) not in (None, 'Boolean'):
                found.append(('having-not-boolean', path + (5,)))
            if contains(having, 'window'):
                found.append(('window-in-having', path + (5,)))
        for i, (item, _) in enumerate(orderby):
            found += _feature_violations(item, env, scope, 'orderby', path + (6, i, 0))
        if groupby:
            grouped = {signature(g) for g in groupby}
            for i, item in enumerate(output_features(ast, env)):
                if signature(strip_alias(item)) not in grouped and not contains_aggregate(item):
                    found.append(('non-aggregate-outside-grouping', path + ((2, i) if select else (1,))))
    else:
        raise DslgenError(f'not a source: {ast!r}')
    return found


def wellformed(ast):
    """(True, None) if the statement obeys every rule of the property, else (False, first rule broken)."""
    found = violations(ast)
    return (False, found[0][0]) if found else (True, None)


def unspecified(ast):
    """Reason why the property text does not fix whether this statement is acceptable / what its schema is (else None).

    The generators never produce such statements; checks skip the verdict comparison for them.
    """
    env = Env(ast)
    for path, node in walk(ast):
        tag = node[0]
        if tag == 'query':
            if node[1][0] not in ORIGIN_TAGS:
                return 'query over a statement without a reference'
            for owner, clause, _, feature in clauses(node):
                if owner != ():
                    continue
                top = strip_alias(feature) if clause == 'select' else feature
                for sub in subfeatures(top):
                    if sub[0] == 'alias':
                        return 'alias in an operand position'
                    if sub[0] == 'window' and clause not in ('select', 'having') and not contains_aggregate(sub):
                        return 'ranking window outside select/having'
                    if sub[0] == 'window' and clause == 'select' and node[4]:
                        return 'window selected from a grouped query'
                    if sub[0] == 'window' and any(contains(p, 'window', 'agg') for p in sub[3] + tuple(f for f, _ in sub[4])):
                        return 'window over cumulative features'
            if node[7] is not None and not (isinstance(node[7][0], int) and isinstance(node[7][1], int)
                                            and node[7][0] >= 0 and node[7][1] >= 0):
                return 'limit that is not a natural number'
        elif tag == 'join':
            for side in (node[1], node[2]):
                if side[0] not in ORIGIN_TAGS:
                    return 'join operand that is not an origin'
            try:
                left, right = env.scope(node[1]), env.scope(node[2])
            except DslgenError:
                return 'join operand that is not an origin'
            if left & right:
                return 'join of an origin with itself without a reference'
        elif tag == 'set':
            for side in (node[1], node[2]):
                if side[0] not in ('query', 'set'):
                    return 'set operand that is not a statement'
            left, right = schema_of(node[1], env), schema_of(node[2], env)
            if len(left) == len(right) and any(ln is None or rn is None for (ln, _), (rn, _) in zip(left, right)):
                return 'set over unnamed output features'
        elif tag == 'reference':
            inner = [n for n, _ in schema_of(node[1], env)]
            if node[1][0] != 'table' and (None in inner or len(set(inner)) != len(inner)):
                return 'reference of a statement with unnamed or repeated output names'
        elif tag in ('and', 'or', 'not'):
            for operand in node[1:]:
                if kind_of(operand, env) not in (None, 'Boolean'):
                    return 'logical operator over a non-boolean operand'
        elif tag in ('cmp', 'arith'):
            kinds = [kind_of(node[2], env), kind_of(node[3], env)]
            if 'Boolean' in kinds and any(_numeric(k) for k in kinds):
                return 'boolean combined with a number'
        elif tag == 'agg' or (tag == 'window' and node[1] != 'rownumber'):
            if node[1] != 'count' and not _numeric(kind_of(node[2], env) or 'Integer'):
                return 'numeric aggregate of a non-numeric feature'
            if contains_aggregate(node[2]):
                return 'nested aggregate'
        elif tag == 'func':
            inner = kind_of(node[2], env)
            if inner and (node[1] == 'year') != (inner == 'Date'):
                return 'scalar function over an unsupported kind'
            if inner and node[1] != 'year' and not _numeric(inner):
                return 'scalar function over an unsupported kind'
        elif tag == 'cast':
            if node[2] not in KINDS:
                return 'cast to an unknown kind'
        elif tag == 'literal':
            if node[2] == 'float' and isinstance(node[1], float) and node[1] != node[1]:
                return 'NaN literal'
    return None


# ------------------------------------------------------------------------------------------------ builders
class Builder:
    """AST -> real dsl objects.  ``raw=False`` uses the fluent API / python operators, ``raw=True`` the constructors.

    Two python / forml quirks that matter when comparing the two routes:
      * ``left < right`` with ``right`` of a *subclass* of ``type(left)`` (a table Column vs a reference Element) makes
        python call the reflected method first (-> GreaterThan(right, left)); the fluent route therefore calls the
        operator method of ``left`` directly in that case, so that both routes build the operator the AST names;
      * the fluent ``Query`` methods read ``self.selection`` / ``self.prefilter`` ... through the process-wide lru cache
        of ``Source.__getitem__``: the statement returned may physically contain clause objects of an *earlier, equal*
        statement (C08 relies on ``structure()`` to notice when "equal" was a hash collision).

    ``split=True`` (fluent only) issues a top-level ``and`` of where/having as two successive calls, which the DSL
    documents as equivalent to one call with the conjunction.
    """

    def __init__(self, root, tables=None, raw=False, split=False, rename=None, order=None):
        from forml.io import dsl
        from forml.io.dsl import function

        #: ``order`` (fluent only): seed of the permutation in which the clause methods of every query are called - the
        #: builder methods replace one component each and carry the others forward, so any order denotes one statement
        #: (only ``groupby`` has to follow ``select``: the grouping rule is checked against the selection at hand)
        self.order = None if order is None else random.Random(order)

        self.dsl = dsl
        self.fn = function
        self.root = norm(root)
        self.tables = tables or catalog()
        self.raw = raw
        self.split = split
        self.rename = rename or {}  # AST reference name -> name given to the real reference (see shared_names)
        self.refs = references(self.root)
        self._origins = {}
        self.arith = {'+': function.Addition, '-': function.Subtraction, '*': function.Multiplication,
                      '/': function.Division, '%': function.Modulus}
        self.cmp = {'==': function.Equal, '!=': function.NotEqual, '<': function.LessThan, '<=': function.LessEqual,
                    '>': function.GreaterThan, '>=': function.GreaterEqual}
        self.aggs = {'count': function.Count, 'sum': function.Sum, 'avg': function.Avg, 'min': function.Min,
                     'max': function.Max}
        self.funcs = {'abs': function.Abs, 'ceil': function.Ceil, 'floor': function.Floor, 'year': function.Year}
        self.joins = {'inner': 'inner_join', 'left': 'left_join', 'right': 'right_join', 'full': 'full_join'}

    # -------- sources
    def source(self, ast):
        tag = ast[0]
        if tag == 'table':
            return self.tables[ast[1]]
        if tag == 'reference':
            key = signature(ast)
            if key not in self._origins:
                inner = self.source(ast[1])
                name = self.rename.get(ast[2], ast[2])
                self._origins[key] = self.dsl.Reference(inner, name) if self.raw else inner.reference(name)
            return self._origins[key]
        if tag == 'join':
            left, right = self.source(ast[1]), self.source(ast[2])
            kind, cond = ast[3], ast[4]
            condition = self.feature(cond) if cond is not None else None
            if self.raw or (kind == 'cross') != (cond is None):
                return self.dsl.Join(left, right, self.dsl.Join.Kind(kind), condition)
            if kind == 'cross':
                return left.cross_join(right)
            return getattr(left, self.joins[kind])(right, condition)
        if tag == 'set':
            left, right = self.source(ast[1]), self.source(ast[2])
            if self.raw:
                return self.dsl.Set(left, right, self.dsl.Set.Kind(ast[3]))
            return getattr(left, ast[3])(right)
        if tag == 'query':
            return self.query(ast)
        raise DslgenError(f'not a source: {ast!r}')

    def query(self, ast):
        source = self.source(ast[1])
        select, where, groupby, having, orderby, rows = ast[2:8]
        if self.raw:
            return self.dsl.Query(
                source,
                [self.feature(f, top=True) for f in select],
                self.feature(where) if where is not None else None,
                [self.feature(f) for f in groupby],
                self.feature(having) if having is not None else None,
                [self.dsl.Ordering(self.feature(f), self.direction(d)) for f, d in orderby],
                self.dsl.Rows(*rows) if rows is not None else None,
            )
        steps = []
        if select:
            steps.append(('select', lambda q: q.select(*(self.feature(f, top=True) for f in select))))
        if where is not None:
            steps.append(('where', lambda q: self.filter(q, 'where', where)))
        if groupby:
            steps.append(('groupby', lambda q: q.groupby(*(self.feature(f) for f in groupby))))
        if having is not None:
            steps.append(('having', lambda q: self.filter(q, 'having', having)))
        if orderby:
            steps.append(('orderby', lambda q: q.orderby(*((self.feature(f), d) for f, d in orderby))))
        if rows is not None:
            steps.append(('limit', lambda q: q.limit(*rows)))
        if self.order is not None and len(steps) > 1:
            self.order.shuffle(steps)
            names = [n for n, _ in steps]
            if 'groupby' in names and 'select' in names and names.index('groupby') < names.index('select'):
                # the only dependency: grouping is validated against the selection it meets
                i, j = names.index('groupby'), names.index('select')
                steps[i], steps[j] = steps[j], steps[i]
        result = source.query
        for _, step in steps:
            result = step(result)
        return result

    def filter(self, target, method, predicate):
        if self.split and predicate[0] == 'and':
            # q.where(b).where(a) is documented to yield the conjunction a & b
            return getattr(getattr(target, method)(self.feature(predicate[2])), method)(self.feature(predicate[1]))
        return getattr(target, method)(self.feature(predicate))

    def direction(self, text):
        return self.dsl.Ordering.Direction(text)

    # -------- features
    def origin(self, ref):
        if isinstance(ref, tuple):
            return self.source(ref)
        if ref in self.refs:
            return self.source(self.refs[ref])
        if ref in self.tables:
            return self.tables[ref]
        raise DslgenError(f'unknown origin {ref!r}')

    def literal(self, node):
        value = node[1]
        kind = node[2]
        if kind == 'date':
            value = datetime.date.fromisoformat(value)
        elif kind == 'float':
            value = float(value)
        elif kind == 'bool':
            value = bool(value)
        elif kind == 'int':
            value = int(value)
        return value

    def operand(self, node, bare=False):
        """A feature operand; in fluent mode a right-hand literal is passed as the bare python value."""
        if node[0] == 'literal' and bare and not self.raw:
            return self.literal(node)
        return self.feature(node)

    def feature(self, node, top=False):  # pylint: disable=too-many-return-statements,too-many-branches
        dsl, tag = self.dsl, node[0]
        if tag == 'column':
            origin = self.origin(node[1])
            if self.raw:
                return dsl.Element(origin, node[2])
            try:
                return origin[node[2]]
            except (KeyError, AttributeError):  # not a member of its origin: only expressible through the constructor
                return dsl.Element(origin, node[2])
        if tag == 'literal':
            return dsl.Literal(self.literal(node))
        if tag == 'alias':
            inner = self.feature(node[1])
            return dsl.Aliased(inner, node[2]) if self.raw else inner.alias(node[2])
        if tag == 'arith':
            if self.raw:
                return self.arith[node[1]](self.feature(node[2]), self.feature(node[3]))
            left, right = self.operand(node[2]), self.operand(node[3], bare=True)
            if node[1] == '+':
                return left + right
            if node[1] == '-':
                return left - right
            if node[1] == '*':
                return left * right
            if node[1] == '/':
                return left / right
            return left % right
        if tag == 'cmp':
            if self.raw:
                return self.cmp[node[1]](self.feature(node[2]), self.feature(node[3]))
            left, right = self.operand(node[2]), self.operand(node[3], bare=True)
            if type(right) is not type(left) and isinstance(right, type(left)):
                # python would try the reflected method of the subclass operand first (a table Column is a subclass of
                # a reference Element): ``r.x < A.y`` builds GreaterThan(A.y, r.x).  Call the operator method itself.
                method = {'==': '__eq__', '!=': '__ne__', '<': '__lt__', '<=': '__le__', '>': '__gt__', '>=': '__ge__'}
                return getattr(left, method[node[1]])(right)
            if node[1] == '==':
                return left == right
            if node[1] == '!=':
                return left != right
            if node[1] == '<':
                return left < right
            if node[1] == '<=':
                return left <= right
            if node[1] == '>':
                return left > right
            return left >= right
        if tag in ('and', 'or'):
            if self.raw:
                return (self.fn.And if tag == 'and' else self.fn.Or)(self.feature(node[1]), self.feature(node[2]))
            left, right = self.operand(node[1]), self.operand(node[2], bare=True)
            return (left & right) if tag == 'and' else (left | right)
        if tag == 'not':
            return self.fn.Not(self.feature(node[1])) if self.raw else ~self.feature(node[1])
        if tag == 'isnull':
            return self.fn.IsNull(self.feature(node[1]))
        if tag == 'notnull':
            return self.fn.NotNull(self.feature(node[1]))
        if tag == 'agg':
            return self.aggs[node[1]](self.feature(node[2]))
        if tag == 'func':
            return self.funcs[node[1]](self.feature(node[2]))
        if tag == 'cast':
            return self.fn.Cast(self.feature(node[1]), getattr(dsl, node[2])())
        if tag == 'window':
            function = self.fn.RowNumber() if node[1] == 'rownumber' else self.aggs[node[1]](self.feature(node[2]))
            partition = [self.feature(f) for f in node[3]]
            ordering = [(self.feature(f), d) for f, d in node[4]]
            if self.raw:
                return dsl.Window(function, partition, ordering)
            return function.over(partition, ordering)
        raise DslgenError(f'not a feature: {node!r}')


def shared_names(ast):
    """{name: other name} making two *different* references of the statement share one name - legal wherever the two are
    never visible in the same FROM clause (different set operands, a nested statement vs its surroundings): the AST
    keeps unique names (oracles stay unambiguous), only the real objects get the shared name.  {} if there is no pair."""
    ast = norm(ast)

    def visible(source):
        tag = source[0]
        if tag == 'reference':
            return {source[2]}
        if tag == 'join':
            return visible(source[1]) | visible(source[2])
        return set()

    scopes, names = [], []
    for path, node in walk(ast):
        if node[0] == 'query':
            scopes.append(visible(node[1]))
        elif node[0] == 'join' and path == ():
            scopes.append(visible(node))
        elif node[0] == 'reference' and node[2] not in names:
            names.append(node[2])
    for i, first in enumerate(names):
        for second in names[i + 1:]:
            if not any(first in scope and second in scope for scope in scopes):
                return {second: first}
    return {}


def build(ast, tables=None, split=False, rename=None, order=None):
    """Real dsl object of a source or feature AST through the fluent API (python operators, ``.select`` ...)."""
    ast = norm(ast)
    builder = Builder(ast, tables, raw=False, split=split, rename=rename, order=order)
    return builder.source(ast) if is_source(ast) else builder.feature(ast)


def build_raw(ast, tables=None):
    """Real dsl object through the raw constructors (``dsl.Query(...)``, ``dsl.Join(...)``, ``function.Equal`` ...)."""
    ast = norm(ast)
    builder = Builder(ast, tables, raw=True)
    return builder.source(ast) if is_source(ast) else builder.feature(ast)


def structure(obj):
    """Canonical structural description of a *real* dsl object (class names, nested items, typed literal values); does
    not use forml's ``__eq__``/``__hash__``.  Equal for two builds of one AST, different for different ASTs."""
    import enum

    from forml.io import dsl

    if isinstance(obj, dsl.Table):
        return ['Table', obj.schema.__name__, structure(obj.schema)]
    if isinstance(obj, type) and isinstance(obj, dsl.Source.Schema):
        return ['Schema', [[f.name, structure(f.kind)] for f in obj]]
    if isinstance(obj, dsl.Any):
        return [type(obj).__name__] + ([structure(i) for i in obj] if isinstance(obj, tuple) else [])
    if isinstance(obj, enum.Enum):
        return [type(obj).__name__, obj.name]
    if isinstance(obj, (dsl.Source, dsl.Feature, dsl.Ordering, dsl.Rows)):
        return [type(obj).__name__] + [structure(i) for i in tuple.__iter__(obj)]
    if isinstance(obj, (tuple, list)):
        return ['seq'] + [structure(i) for i in obj]
    if isinstance(obj, type):
        return ['type', obj.__name__]
    if isinstance(obj, (bool, int, float, str, datetime.date)) or obj is None:
        return [type(obj).__name__, obj.hex() if isinstance(obj, float) else str(obj)]
    return ['object', type(obj).__name__]


# ------------------------------------------------------------------------------------------------ generators
class Gen:
    """Seeded generator of conforming features and statements over the catalog."""

    def __init__(self, rng=None, tables=('A', 'B', 'C')):
        self.rng = rng or random.Random(0)
        self.tables = tuple(tables)
        self._alias = itertools.count()

    def fresh(self, prefix='r'):
        return f'{prefix}{next(self._alias)}'

    # -------- leaves
    def literal(self, kind):
        tag = {'Integer': 'int', 'Float': 'float', 'String': 'str', 'Boolean': 'bool', 'Date': 'date'}[kind]
        return ('literal', self.rng.choice(POOL[tag]), tag)

    @staticmethod
    def columns(env, scope, kind=None):
        out = []
        for oid in sorted(scope):
            for name, ckind in (env.columns(oid) or {}).items():
                if kind is None or (ckind and _alts(ckind) <= _alts(kind)):
                    out.append(('column', oid, name))
        return out

    def pick_column(self, env, scope, kind=None):
        cols = self.columns(env, scope, kind)
        return self.rng.choice(cols) if cols else None

    # -------- features
    def scalar(self, env, scope, kind, depth):
        """A conforming non-cumulative feature of the given kind ('Numeric' = Integer or Float)."""
        rng = self.rng
        if kind == 'Numeric':
            kind = rng.choice(NUMERIC)
        col = self.pick_column(env, scope, kind)
        if depth <= 0:
            if col is not None and rng.random() < 0.8:
                return col
            return self.literal(kind)
        choice = rng.random()
        if kind in NUMERIC:
            if choice < 0.45:
                left = self.scalar(env, scope, kind if kind == 'Integer' else 'Numeric', depth - 1)
                right = self.scalar(env, scope, kind, depth - 1)
                if rng.random() < 0.5:
                    left, right = right, left
                op = rng.choice(ARITH if kind == 'Float' else ('+', '-', '*', '%'))
                return ('arith', op, left, right)
            if choice < 0.55 and kind == 'Integer':
                return ('func', rng.choice(('ceil', 'floor')), self.scalar(env, scope, 'Numeric', depth - 1))
            if choice < 0.65:
                return ('func', 'abs', self.scalar(env, scope, kind, depth - 1))
            if choice < 0.72 and kind == 'Integer':
                date = self.pick_column(env, scope, 'Date')
                if date is not None:
                    return ('func', 'year', date)
            if choice < 0.85:
                return ('cast', self.scalar(env, scope, rng.choice(('Integer', 'Float', 'String')), depth - 1), kind)
            return self.scalar(env, scope, kind, 0)
        if kind == 'Boolean':
            return self.predicate(env, scope, depth)
        if choice < 0.3 and kind == 'String':
            return ('cast', self.scalar(env, scope, rng.choice(('Integer', 'Float')), depth - 1), kind)
        return self.scalar(env, scope, kind, 0)

    def comparison(self, env, scope, depth, operand=None):
        rng = self.rng
        operand = operand or self.scalar
        family = rng.choice(('Numeric', 'Numeric', 'Numeric', 'String', 'Date', 'Boolean')) if operand is self.scalar else 'Numeric'
        if family in ('Date', 'Boolean') and not self.columns(env, scope, family):
            family = 'Numeric'
        if family == 'Numeric':
            left, right = operand(env, scope, 'Numeric', depth - 1), self.scalar(env, scope, 'Numeric', max(depth - 2, 0))
        elif family == 'Boolean':
            left, right = self.pick_column(env, scope, 'Boolean'), self.literal('Boolean')
            return ('cmp', rng.choice(('==', '!=')), left, right)
        else:
            left, right = operand(env, scope, family, 0), self.scalar(env, scope, family, 0)
        if rng.random() < 0.3:
            left, right = right, left
        return ('cmp', rng.choice(CMP), left, right)

    def predicate(self, env, scope, depth, operand=None):
        """A conforming boolean feature; ``operand`` generates the non-boolean operands (scalars by default)."""
        rng = self.rng
        choice = rng.random()
        if depth <= 1 or choice < 0.5:
            if choice < 0.08:
                col = self.pick_column(env, scope, 'Boolean')
                if col is not None and operand is None:
                    return col
            if choice < 0.14 and operand is None:  # literal-only predicates
                return rng.choice([('literal', True, 'bool'), ('cmp', '<', self.literal('Integer'), self.literal('Integer')),
                                   ('cmp', '==', self.literal('String'), self.literal('String'))])
            if choice < 0.24 and operand is None:
                col = self.pick_column(env, scope)
                if col is not None:
                    return (rng.choice(('isnull', 'notnull')), col)
            return self.comparison(env, scope, max(depth, 1), operand)
        if choice < 0.7:
            return ('and', self.predicate(env, scope, depth - 1, operand), self.predicate(env, scope, depth - 1))
        if choice < 0.88:
            return ('or', self.predicate(env, scope, depth - 1, operand), self.predicate(env, scope, depth - 1))
        return ('not', self.predicate(env, scope, depth - 1, operand))

    def aggregate(self, env, scope, kind, depth):
        """A conforming feature of the given kind that contains an aggregate (possibly nested in arithmetic)."""
        rng = self.rng
        if kind == 'Numeric':
            kind = rng.choice(NUMERIC)
        if kind == 'Integer' and rng.random() < 0.4:
            base = ('agg', 'count', self.scalar(env, scope, rng.choice(('Integer', 'Float', 'String')), 0))
        else:
            base = ('agg', rng.choice(('sum', 'min', 'max', 'avg')), self.scalar(env, scope, kind, max(depth - 1, 0)))
            if base[1] == 'avg' and kind == 'Integer':
                base = ('agg', 'sum', base[2])
        if depth > 0 and rng.random() < 0.35:  # aggregate nested in arithmetic
            other = self.literal(kind) if rng.random() < 0.6 else self.aggregate(env, scope, kind, 0)
            pair = (base, other) if rng.random() < 0.5 else (other, base)
            return ('arith', rng.choice(('+', '-', '*')), *pair)
        return base

    def window(self, env, scope):
        rng = self.rng
        partition = tuple(rng.sample(self.columns(env, scope), 1))
        orderby = ((self.pick_column(env, scope), rng.choice(('asc', 'desc'))),) if rng.random() < 0.5 else ()
        arg = self.pick_column(env, scope, 'Integer')
        if arg is None or rng.random() < 0.5:
            return ('window', 'rownumber', None, partition, orderby)
        return ('window', rng.choice(('sum', 'count', 'max')), arg, partition, orderby)

    # -------- sources
    def origin(self, depth, used=None):
        """A conforming origin (table | reference | join) using every table / alias at most once."""
        rng = self.rng
        used = used if used is not None else set()
        free = [t for t in self.tables if t not in used]
        if depth <= 0 or not free:
            choice = 0.0
        else:
            choice = rng.random()
        if choice < 0.4 or len(free) < 2 and choice < 0.7:
            if free and rng.random() < 0.75:
                name = rng.choice(free)
                used.add(name)
                return ('table', name)
            return ('reference', ('table', rng.choice(self.tables)), self.fresh())
        if choice < 0.7:
            inner = self.statement(depth - 1, named=True)
            return ('reference', inner, self.fresh('q'))
        left = self.origin(depth - 1, used)
        right = self.origin(depth - 1 if rng.random() < 0.3 else 0, used)
        return self.join_of(left, right)

    def join_of(self, left, right, kind=None):
        rng = self.rng
        kind = kind or rng.choice(JOIN_KINDS)
        if kind == 'cross':
            return ('join', left, right, 'cross', None)
        probe = ('join', left, right, 'cross', None)
        env = Env(probe)
        lscope, rscope = env.scope(left), env.scope(right)
        family = rng.choice(('Integer', 'Integer', 'Numeric', 'String'))
        lcol, rcol = self.pick_column(env, lscope, family if family != 'Numeric' else 'Integer|Float'), \
            self.pick_column(env, rscope, family if family != 'Numeric' else 'Integer|Float')
        if lcol is None or rcol is None:
            lcol, rcol = self.pick_column(env, lscope, 'Integer|Float'), self.pick_column(env, rscope, 'Integer|Float')
        if lcol is None or rcol is None:
            return ('join', left, right, 'cross', None)
        cond = ('cmp', '==' if rng.random() < 0.7 else rng.choice(CMP), lcol, rcol)
        if rng.random() < 0.3:
            cond = ('and', cond, self.predicate(env, lscope | rscope, 1))
        return ('join', left, right, kind, cond)

    def query_over(self, source, shape=None, named=False, depth=2):
        """A conforming query over the origin.  ``shape``: set of clause names out of select, where, groupby, having,
        orderby, rows, exprs (expressions instead of plain columns), unnamed (leave expressions un-aliased)."""
        rng = self.rng
        if shape is None:
            shape = {c for c in ('select', 'where', 'groupby', 'having', 'orderby', 'rows', 'exprs') if rng.random() < 0.45}
            if rng.random() < 0.15:
                shape.add('unnamed')
        if named:
            shape = set(shape) - {'unnamed'}
        probe = ('query', source, (), None, (), None, (), None)
        env = Env(probe)
        scope = env.scope(source)
        cols = self.columns(env, scope)
        where = self.predicate(env, scope, depth) if 'where' in shape else None
        names = set()

        def named_item(feature, hint):
            name = feature_name(feature)
            if name is None and 'unnamed' in shape and rng.random() < 0.6:
                return feature
            if name is None or name in names or rng.random() < 0.15:
                name = next(n for n in itertools.chain([hint], (f'{hint}{i}' for i in itertools.count())) if n not in names)
                feature = ('alias', feature, name)
            names.add(name)
            return feature

        select, groupby, having = [], [], None
        if 'groupby' in shape:
            keys = []
            for _ in range(rng.choice((1, 1, 2))):
                key = rng.choice(cols) if 'exprs' not in shape or rng.random() < 0.6 else self.scalar(
                    env, scope, rng.choice(('Integer', 'Float', 'String', 'Boolean')), 1)
                if signature(key) not in {signature(k) for k in keys}:
                    keys.append(key)
            groupby = keys
            for key in keys:
                if rng.random() < 0.8:
                    select.append(named_item(key, 'g'))  # alias of a grouped feature
            for _ in range(rng.choice((1, 1, 2))):
                select.append(named_item(self.aggregate(env, scope, 'Numeric', 1 if 'exprs' in shape else 0), 'a'))
            rng.shuffle(select)
            if 'having' in shape:
                having = self.predicate(env, scope, 1, operand=self.aggregate)
        else:
            if 'select' in shape or 'exprs' in shape or named:
                for _ in range(rng.choice((1, 2, 2, 3))):
                    if 'exprs' in shape and rng.random() < 0.55:
                        kind = rng.choice(('Integer', 'Float', 'String', 'Boolean'))
                        item = self.scalar(env, scope, kind, rng.choice((1, 2)))
                    elif 'exprs' in shape and rng.random() < 0.1:
                        item = self.window(env, scope)
                    else:
                        item = rng.choice(cols)
                    select.append(named_item(item, 'e'))
            if 'having' in shape and rng.random() < 0.5:
                having = self.predicate(env, scope, 1, operand=self.aggregate)
        orderby = ()
        if 'orderby' in shape:
            pool = list(groupby) if groupby else cols
            if groupby and rng.random() < 0.4:  # a grouped statement may be ordered by an aggregate it does not select
                pool = pool + [self.aggregate(env, scope, 'Numeric', 0)]
            orderby = tuple((f, rng.choice(('asc', 'desc'))) for f in rng.sample(pool, min(len(pool), rng.choice((1, 2)))))
        rows = (rng.choice((0, 1, 3, 10)), rng.choice((0, 0, 2))) if 'rows' in shape else None
        return ('query', source, tuple(select), where, tuple(groupby), having, orderby, rows)

    def aligned(self, left):
        """A conforming statement with exactly the (all named) output schema of ``left`` over some other origin."""
        rng = self.rng
        env = Env(left)
        target = schema_of(left, env)
        source = ('table', rng.choice(self.tables)) if rng.random() < 0.7 else ('reference', ('table', rng.choice(self.tables)), self.fresh())
        probe = ('query', source, (), None, (), None, (), None)
        penv = Env(probe)
        scope = penv.scope(source)
        select = []
        for name, kind in target:
            kind = sorted(_alts(kind))[0]
            col = self.pick_column(penv, scope, kind)
            if col is None or rng.random() < 0.25:
                col = self.literal(kind) if rng.random() < 0.5 or col is None else ('cast', col, kind)
            select.append(col if feature_name(col) == name else ('alias', strip_alias(col), name))
        where = self.predicate(penv, scope, 1) if rng.random() < 0.4 else None
        return ('query', source, tuple(select), where, (), None, (), None)

    def statement(self, depth, named=False):
        """A conforming statement (query | set); ``named`` = all outputs carry unique names and fixed kinds."""
        rng = self.rng
        if depth > 0 and rng.random() < 0.3:
            left = self.statement(depth - 1, named=True)
            if any('|' in (k or '|') for _, k in schema_of(left)):
                return left
            return ('set', left, self.aligned(left), rng.choice(SET_KINDS))
        source = self.origin(depth)
        for _ in range(20):
            candidate = self.query_over(source, named=named)
            if not named or self.fully_named(candidate):
                return candidate
        return ('query', source, tuple(self.columns(Env(source), Env(source).scope(source))[:1]), None, (), None, (), None)

    @staticmethod
    def fully_named(ast):
        names = [n for n, _ in schema_of(ast)]
        return None not in names and len(set(names)) == len(names)


def random_ast(rng, depth=2, named=False):
    """A random conforming statement of at most the given source nesting depth."""
    gen = Gen(rng)
    for _ in range(50):
        ast = gen.statement(depth, named=named)
        if not violations(ast) and unspecified(ast) is None:
            return ast
    raise DslgenError('generator could not produce a conforming statement')


CLAUSES = ('select', 'where', 'groupby', 'having', 'orderby', 'rows', 'exprs')


def skeleton_origins(depth, gen):
    """Every origin skeleton up to the nesting depth (tables/aliases sampled, join kinds exhaustive)."""
    tables = gen.tables
    if depth >= 0:
        for name in tables:
            yield ('table', name)
    if depth >= 1:
        yield ('reference', ('table', gen.rng.choice(tables)), gen.fresh())
        for kind in JOIN_KINDS:
            left, right = gen.rng.sample(tables, 2)
            yield gen.join_of(('table', left), ('table', right), kind)
        left = gen.rng.choice(tables)
        yield gen.join_of(('table', left), ('reference', ('table', left), gen.fresh()), 'inner')  # self join
        for shape in ({'select'}, {'select', 'exprs', 'where'}, {'groupby'}, {'groupby', 'exprs', 'having'}):
            inner = named_query(gen, ('table', gen.rng.choice(tables)), shape)
            yield ('reference', inner, gen.fresh('q'))  # reference of a query
    if depth >= 2:
        for kind in JOIN_KINDS:
            first, second, third = gen.rng.sample(tables, 3)
            inner = gen.join_of(('table', first), ('table', second))
            yield gen.join_of(inner, ('table', third), kind)
            yield gen.join_of(('table', third), inner, kind)
        for inner in skeleton_origins(1, gen):
            if inner[0] == 'join':
                sub = named_query(gen, inner, {'select', 'exprs'})
                yield ('reference', sub, gen.fresh('q'))
                other = gen.rng.choice(tables)
                yield gen.join_of(('reference', sub, gen.fresh('q')), ('reference', ('table', other), gen.fresh()))
        for kind in SET_KINDS:
            left = named_query(gen, ('table', gen.rng.choice(tables)), {'select'})
            if not any('|' in k for _, k in schema_of(left)):
                yield ('reference', ('set', left, gen.aligned(left), kind), gen.fresh('u'))  # reference of a set


def named_query(gen, source, shape):
    for _ in range(50):
        candidate = gen.query_over(source, set(shape), named=True)
        if gen.fully_named(candidate) and not violations(candidate) and unspecified(candidate) is None:
            return candidate
    raise DslgenError('could not generate a fully named query')


def enumerate_asts(depth, rng=None, leaves=1):
    """Conforming statements: exhaustive skeletons (origin shapes up to ``depth`` x every clause combination x set
    kinds) with ``leaves`` seeded samples of the expression leaves per skeleton.  Also ``dslgen.enumerate``."""
    gen = Gen(rng or random.Random(0))
    shapes = []
    for size in range(len(CLAUSES) + 1):
        for combo in itertools.combinations(CLAUSES, size):
            combo = set(combo)
            if 'having' in combo and 'groupby' not in combo and 'select' not in combo:
                continue
            shapes.append(combo)
    for source in list(skeleton_origins(depth, gen)):
        deep = source[0] != 'table'
        for shape in shapes:
            if deep and len(shape) > 2 and gen.rng.random() < 0.6:  # thin the clause lattice over deep origins
                continue
            for _ in range(leaves):
                for variant in ((), ('unnamed',)) if 'exprs' in shape and not deep else ((),):
                    ast = gen.query_over(source, shape | set(variant))
                    if not violations(ast) and unspecified(ast) is None:
                        yield ast
    if depth >= 1:
        for kind in SET_KINDS:
            for shape in ({'select'}, {'select', 'exprs'}, {'select', 'where', 'orderby'}, {'groupby'},
                          {'groupby', 'having', 'exprs'}, {'select', 'exprs', 'where', 'rows'}):
                for _ in range(leaves * 3):
                    left = named_query(gen, ('table', gen.rng.choice(gen.tables)), shape)
                    if any('|' in k for _, k in schema_of(left)):
                        continue
                    ast = ('set', left, gen.aligned(left), kind)
                    if not violations(ast) and unspecified(ast) is None:
                        yield ast
                        if depth >= 2:
                            yield ('set', ast, gen.aligned(left), gen.rng.choice(SET_KINDS))
                            outer = ('reference', ast, gen.fresh('u'))
                            yield gen.query_over(outer, {'select', 'where'})


# ------------------------------------------------------------------------------------------------ mutators
def _foreign_origins(env, scope, root, owner):
    """Origins outside the scope: catalog tables (also those underneath in-scope references), other aliases of the
    statement (not the references enclosing the position - that would be a cycle) and two fresh references."""
    enclosing = set()
    for end in range(len(owner) + 1):
        node = get(root, owner[:end])
        if isinstance(node, tuple) and node and node[0] == 'reference':
            enclosing.add(node[2])
    out = [name for name in SCHEMA if name not in scope]
    out += [alias_ for alias_ in env.refs if alias_ not in scope and alias_ not in enclosing]
    out.append(('reference', ('table', 'A'), 'fz'))
    out.append(('reference', ('table', 'C'), 'fy'))
    return out


def _columns_of(env, origin):
    if isinstance(origin, tuple):
        return dict({**SCHEMA, **TWIN}[origin[1][1]])
    return env.columns(origin) or {}


def _single(root, mutant, rule):
    """The mutant breaks exactly the given rule (possibly at several positions) and nothing unspecified."""
    try:
        found = {r for r, _ in violations(mutant)}
    except DslgenError:
        return False
    return found == {rule} and unspecified(mutant) is None


def _candidates(ast, rng):
    """Unvalidated (mutant, intended rule, position) triples - see ``mutate``."""
    env = Env(ast)

    def emit(mutant, rule, position):
        return mutant, rule, position

    for owner, clause, path, feature in list(clauses(ast)):
        node = get(ast, owner)
        scope = env.scope(node[1]) | env.scope(node[2]) if node[0] == 'join' else env.scope(node[1])
        # ---- 1. foreign column at every column leaf of the clause
        for rel, leaf in walk(feature):
            if leaf[0] != 'column':
                continue
            kind = kind_of(leaf, env)
            candidates = []
            for origin in _foreign_origins(env, scope, ast, owner):
                for name, ckind in _columns_of(env, origin).items():
                    if ckind == kind:
                        candidates.append(('column', origin, name))
            rng.shuffle(candidates)
            # prefer the "same table behind a reference" confusion when available
            for candidate in candidates[:4]:
                got = emit(replace(ast, path + rel, candidate), f'scope-{clause}', path + rel)
                if got:
                    yield got
                    break
        # ---- 2. non-boolean filter / 3. aggregate in where, groupby, join / 4. window in having
        cols = Gen.columns(env, scope)
        ints = Gen.columns(env, scope, 'Integer') or Gen.columns(env, scope, 'Float')
        if clause in ('where', 'having', 'join'):
            rule = {'where': 'where-not-boolean', 'having': 'having-not-boolean', 'join': 'join-condition-not-boolean'}[clause]
            options = [('literal', 3, 'int'), ('literal', 'a', 'str')]
            if ints:
                options += [ints[0], ('arith', '+', ints[0], ('literal', 1, 'int'))]
            if clause == 'having' and ints:
                options.append(('agg', 'sum', ints[0]))
            for option in options:
                got = emit(replace(ast, path, option), rule, path)
                if got:
                    yield got
        if clause in ('where', 'join') and ints:
            rule = 'aggregate-in-where' if clause == 'where' else 'aggregate-in-join'
            extra = ('cmp', '>', ('agg', rng.choice(('count', 'sum', 'max')), ints[0]), ('literal', 0, 'int'))
            for mutant in (('and', feature, extra), ('and', extra, feature), extra, ('not', extra)):
                got = emit(replace(ast, path, mutant), rule, path)
                if got:
                    yield got
            for rel, leaf in walk(feature):  # aggregate wrapped around a numeric operand at every position
                if is_feature(leaf) and leaf[0] in ('column', 'arith') and _numeric(kind_of(leaf, env)):
                    got = emit(replace(ast, path + rel, ('agg', 'sum', leaf)), rule, path + rel)
                    if got:
                        yield got
        if clause == 'groupby' and ints:
            got = emit(replace(ast, path, ('agg', 'max', ints[0])), 'aggregate-in-groupby', path)
            if got:
                yield got
            if _numeric(kind_of(feature, env)):
                got = emit(replace(ast, path, ('arith', '+', feature, ('agg', 'count', ints[0]))), 'aggregate-in-groupby', path)
                if got:
                    yield got
        if clause == 'having' and cols:
            win = ('cmp', '>', ('window', 'rownumber', None, (cols[0],), ()), ('literal', 0, 'int'))
            win2 = ('cmp', '>', ('window', 'count', cols[0], (cols[-1],), ((cols[0], 'asc'),)), ('literal', 0, 'int'))
            for mutant in (('and', feature, win), win, ('or', win2, feature)):
                got = emit(replace(ast, path, mutant), 'window-in-having', path)
                if got:
                    yield got
        # ---- 6. incompatible operand kinds at every comparison / arithmetic node of the clause
        for rel, leaf in walk(feature):
            if leaf[0] not in ('cmp', 'arith'):
                continue
            rule = 'comparison-kinds' if leaf[0] == 'cmp' else 'arithmetic-kinds'
            for side in (2, 3):
                other = kind_of(leaf[5 - side], env)
                if other is None:
                    continue
                if _numeric(other):
                    wrong = [('literal', 'a', 'str'), ('literal', '2020-01-01', 'date')]
                    wrong += Gen.columns(env, scope, 'String')[:1]
                elif leaf[0] == 'cmp':
                    wrong = [('literal', 1, 'int'), ('literal', 0.5, 'float')] + ints[:1]
                    if other != 'String':
                        wrong.append(('literal', 'a', 'str'))
                else:
                    continue
                for bad in wrong:
                    got = emit(replace(ast, path + rel + (side,), bad), rule, path + rel + (side,))
                    if got:
                        yield got
            if leaf[0] == 'arith':
                # both operands of ONE non-numeric kind (string with string, date with date, boolean with boolean)
                same = [(('literal', 'a', 'str'), ('literal', 'b', 'str')),
                        (('literal', '2020-01-01', 'date'), ('literal', '2020-01-02', 'date'))]
                for kind in ('String', 'Boolean'):
                    found = Gen.columns(env, scope, kind)
                    if found:
                        same.append((found[0], found[-1]))
                        if kind == 'String':
                            same.append((found[0], ('literal', 'a', 'str')))
                for left, right in same:
                    got = emit(replace(replace(ast, path + rel + (2,), left), path + rel + (3,), right), rule, path + rel)
                    if got:
                        yield got
    for path, node in list(walk(ast)):
        # ---- 2'. clauses that are absent: add a non-boolean where / having, window in having
        if node[0] == 'query':
            scope = env.scope(node[1])
            cols = Gen.columns(env, scope)
            ints = Gen.columns(env, scope, 'Integer') or Gen.columns(env, scope, 'Float')
            if node[3] is None and ints:
                got = emit(replace(ast, path + (3,), ints[0]), 'where-not-boolean', path + (3,))
                if got:
                    yield got
                agg_ = ('cmp', '>', ('agg', 'count', ints[0]), ('literal', 0, 'int'))
                got = emit(replace(ast, path + (3,), agg_), 'aggregate-in-where', path + (3,))
                if got:
                    yield got
            if node[5] is None and cols:
                win = ('cmp', '>', ('window', 'rownumber', None, (cols[0],), ()), ('literal', 0, 'int'))
                got = emit(replace(ast, path + (5,), win), 'window-in-having', path + (5,))
                if got:
                    yield got
            # ---- 5. non-aggregate feature outside the grouping
            if node[4]:
                grouped = {signature(g) for g in node[4]}
                for col in cols:
                    if signature(col) not in grouped:
                        bad = col if feature_name(col) not in {feature_name(f) for f in node[2]} else ('alias', col, 'na')
                        got = emit(replace(ast, path + (2,), node[2] + (bad,)), 'non-aggregate-outside-grouping', path + (2, len(node[2])))
                        if got:
                            yield got
                            break
                for i, item in enumerate(node[2]):
                    inner = strip_alias(item)
                    if inner[0] == 'agg' and signature(inner[2]) not in grouped:
                        got = emit(replace(ast, path + (2, i), ('alias', inner[2], feature_name(item) or 'na')),
                                   'non-aggregate-outside-grouping', path + (2, i))
                        if got:
                            yield got
                    if inner[0] != 'agg' and contains_aggregate(inner) is False and len(node[4]) > 0:
                        # drop the grouping key this plain item relies on (keep at least one key)
                        for j, key in enumerate(node[4]):
                            if signature(key) == signature(inner) and len(node[4]) > 1:
                                smaller = node[4][:j] + node[4][j + 1:]
                                got = emit(replace(ast, path + (4,), smaller), 'non-aggregate-outside-grouping', path + (4, j))
                                if got:
                                    yield got
                lit_ = ('alias', ('literal', 1, 'int'), 'one')
                got = emit(replace(ast, path + (2,), node[2] + (lit_,)), 'non-aggregate-outside-grouping', path + (2, len(node[2])))
                if got:
                    yield got
            elif node[2] and cols:
                # grouping added to a query whose selection is not aggregated
                free = [c for c in cols if signature(c) not in {signature(strip_alias(f)) for f in node[2]}]
                if free:
                    got = emit(replace(ast, path + (4,), (free[0],)), 'non-aggregate-outside-grouping', path + (4, 0))
                    if got:
                        yield got
            # ---- 1'. foreign column appended to select / groupby / orderby that had none
            foreign = ('column', ('reference', ('table', 'A'), 'fz'), 'x')
            for slot, clause in ((2, 'select'), (6, 'orderby')):
                if not node[4] or slot == 6:
                    added = node[slot] + ((foreign,) if slot == 2 else ((foreign, 'asc'),))
                    got = emit(replace(ast, path + (slot,), added), f'scope-{clause}', path + (slot, len(node[slot])))
                    if got:
                        yield got
            if node[4]:
                got = emit(replace(ast, path + (4,), node[4] + (foreign,)), 'scope-groupby', path + (4, len(node[4])))
                if got:
                    yield got
        # ---- 8. join kind vs condition
        elif node[0] == 'join':
            if node[3] == 'cross':
                scope_l, scope_r = env.scope(node[1]), env.scope(node[2])
                left = Gen.columns(env, scope_l, 'Integer') or Gen.columns(env, scope_l, 'Float')
                right = Gen.columns(env, scope_r, 'Integer') or Gen.columns(env, scope_r, 'Float')
                cond = ('cmp', '==', left[0], right[0]) if left and right else ('literal', True, 'bool')
                got = emit(replace(ast, path + (4,), cond), 'cross-join-with-condition', path)
                if got:
                    yield got
                got = emit(replace(ast, path + (4,), ('literal', True, 'bool')), 'cross-join-with-condition', path)
                if got:
                    yield got
            else:
                got = emit(replace(ast, path + (4,), None), 'join-without-condition', path)
                if got:
                    yield got
                got = emit(replace(replace(ast, path + (3,), 'cross'), path + (4,), node[4]), 'cross-join-with-condition', path)
                if got:
                    yield got
        # ---- 7. unequal set schemas
        elif node[0] == 'set':
            target, rpath = node[2], path + (2,)
            if target[0] != 'query' or not target[2]:
                continue
            select = target[2]
            options = []
            if len(select) > 1:
                options.append(select[:-1])  # arity
                if feature_name(select[0]) != feature_name(select[1]):
                    options.append((select[1], select[0]) + select[2:])  # order
            scope = env.scope(target[1])
            extra = Gen.columns(env, scope)
            if extra:
                options.append(select + (('alias', extra[0], 'xtra'),))  # arity
            first = select[0]
            options.append((('alias', strip_alias(first), 'renamed'),) + select[1:])  # name
            kind = kind_of(first, env)
            other = 'String' if kind != 'String' else 'Integer'
            options.append((('alias', ('cast', strip_alias(first), other), feature_name(first)),) + select[1:])  # kind
            for option in options:
                got = emit(replace(ast, rpath + (2,), option), 'set-schema', path)
                if got:
                    yield got



def mutate(ast, rng=None, per_rule=None):
    """(mutant, rule violated, position) for single-rule violations at every position of a conforming statement:
    foreign column in select / where / groupby / having / orderby / join condition, non-boolean filter, aggregate in
    where / groupby / join condition, window in having, non-aggregate feature outside the grouping, incompatible
    comparison / arithmetic operand kinds, unequal set schemas, cross join with / other join without a condition.

    Every mutant breaks exactly one rule of the oracle (checked) and uses nothing ``unspecified``.  ``per_rule`` caps the
    number of mutants per rule (a seeded sample over the positions) - validation is the expensive part.
    """
    ast = norm(ast)
    rng = rng or random.Random(0)
    seen = set()
    if per_rule is None:
        for mutant, rule, position in _candidates(ast, rng):
            key = signature(mutant)
            if key not in seen and _single(ast, mutant, rule):
                seen.add(key)
                yield mutant, rule, position
        return
    groups = {}
    for triple in _candidates(ast, rng):
        groups.setdefault(triple[1], []).append(triple)
    for rule in sorted(groups):
        rng.shuffle(groups[rule])
        kept = 0
        for mutant, _, position in groups[rule]:
            if kept >= per_rule:
                break
            key = signature(mutant)
            if key not in seen and _single(ast, mutant, rule):
                seen.add(key)
                kept += 1
                yield mutant, rule, position


# ------------------------------------------------------------------------------------------------ leaf variants
def _pool_variants(value, tag):
    pool = POOL[tag]
    out = [v for v in pool if not (v == value and type(v) is type(value))]
    return out


def leaf_variants(ast, rng=None, cross_kind=True):
    """(variant, what, path) for statements differing from ``ast`` in exactly one leaf: a literal value (incl. values
    colliding under python's hash, and 1 / True / 1.0), an operator, an alias, a direction, a column, a join / set
    kind, a limit / offset, a cast kind, a reference name.  Variants may be ill-formed - filter with ``wellformed``."""
    ast = norm(ast)
    rng = rng or random.Random(0)
    env = Env(ast)
    taken = set(env.refs) | set(SCHEMA)
    for path, node in walk(ast):
        tag = node[0]
        if tag == 'literal':
            for value in _pool_variants(node[1], node[2]):
                yield replace(ast, path, ('literal', value, node[2])), 'literal', path
            if cross_kind and node[2] in ('int', 'float', 'bool') and node[1] in (1, 1.0, True, 0, 0.0, False):
                for kind, value in (('int', int(node[1])), ('float', float(node[1])), ('bool', bool(node[1]))):
                    if kind != node[2]:
                        yield replace(ast, path, ('literal', value, kind)), 'literal-kind', path
        elif tag == 'arith':
            for op in ARITH:
                if op != node[1]:
                    yield replace(ast, path + (1,), op), 'operator', path
            if signature(node[2]) != signature(node[3]):
                yield replace(ast, path, ('arith', node[1], node[3], node[2])), 'operand-order', path
        elif tag == 'cmp':
            for op in CMP:
                if op != node[1]:
                    yield replace(ast, path + (1,), op), 'operator', path
            if signature(node[2]) != signature(node[3]):
                yield replace(ast, path, ('cmp', node[1], node[3], node[2])), 'operand-order', path
        elif tag in ('and', 'or'):
            yield replace(ast, path + (0,), 'or' if tag == 'and' else 'and'), 'operator', path
            if signature(node[1]) != signature(node[2]):
                yield replace(ast, path, (tag, node[2], node[1])), 'operand-order', path
        elif tag in ('isnull', 'notnull'):
            yield replace(ast, path + (0,), 'notnull' if tag == 'isnull' else 'isnull'), 'operator', path
        elif tag == 'not':
            yield replace(ast, path, node[1]), 'operator', path
        elif tag == 'agg':
            for fn in AGGS:
                if fn != node[1]:
                    yield replace(ast, path + (1,), fn), 'function', path
        elif tag == 'func':
            for fn in ('abs', 'ceil', 'floor'):
                if fn != node[1] and node[1] != 'year':
                    yield replace(ast, path + (1,), fn), 'function', path
        elif tag == 'cast':
            for kind in KINDS:
                if kind != node[2]:
                    yield replace(ast, path + (2,), kind), 'cast-kind', path
        elif tag == 'alias':
            yield replace(ast, path + (2,), node[2] + '_'), 'alias', path
            yield replace(ast, path, node[1]), 'alias-dropped', path
        elif tag == 'column':
            cols = env.columns(node[1]) or {}
            kind = cols.get(node[2])
            for name, ckind in cols.items():
                if name != node[2] and ckind == kind:
                    yield replace(ast, path + (2,), name), 'column', path
            for oid in sorted(taken):
                if oid != env.origin_id(node[1]) and node[2] in (env.columns(oid) or {}):
                    yield replace(ast, path + (1,), oid), 'column-origin', path
        elif tag == 'window':
            for i, (_, direction) in enumerate(node[4]):
                yield replace(ast, path + (4, i, 1), 'desc' if direction == 'asc' else 'asc'), 'direction', path
        elif tag == 'join':
            for kind in JOIN_KINDS:
                if kind != node[3] and 'cross' not in (kind, node[3]):
                    yield replace(ast, path + (3,), kind), 'join-kind', path
            yield replace(ast, path, ('join', node[2], node[1], node[3], node[4])), 'operand-order', path
        elif tag == 'set':
            for kind in SET_KINDS:
                if kind != node[3]:
                    yield replace(ast, path + (3,), kind), 'set-kind', path
        elif tag == 'reference':
            new = node[2] + '_'
            if new not in taken:  # rename consistently: the alias is one leaf of the statement
                yield _rename(ast, node[2], new), 'reference-name', path
        elif tag == 'query':
            for i, (_, direction) in enumerate(node[6]):
                yield replace(ast, path + (6, i, 1), 'desc' if direction == 'asc' else 'asc'), 'direction', path
            if len(node[6]) > 1:
                yield replace(ast, path + (6,), node[6][::-1]), 'orderby-order', path
            if len(node[2]) > 1:
                yield replace(ast, path + (2,), node[2][::-1]), 'select-order', path
            if len(node[4]) > 1:
                yield replace(ast, path + (4,), node[4][::-1]), 'groupby-order', path
            if node[7] is not None:
                count, offset = node[7]
                for rows in ((count + 1, offset), (count, offset + 1), (offset, count)):
                    if rows != (count, offset):
                        yield replace(ast, path + (7,), rows), 'rows', path
            else:
                yield replace(ast, path + (7,), (5, 0)), 'rows', path
            if node[3] is not None:
                yield replace(ast, path + (3,), None), 'where-dropped', path
            if node[6]:
                yield replace(ast, path + (6,), ()), 'orderby-dropped', path


def _rename(ast, old, new):
    if isinstance(ast, tuple):
        if ast and ast[0] == 'reference' and ast[2] == old:
            return ('reference', _rename(ast[1], old, new), new)
        if ast and ast[0] == 'column' and ast[1] == old:
            return ('column', new, ast[2])
        if ast and ast[0] == 'literal':
            return ast
        return tuple(_rename(a, old, new) for a in ast)
    return ast


def literal_difference(left, right):
    """If two ASTs differ only in literal *values* of equal kind: the list of (v, w) pairs that differ, else None."""
    left, right = norm(left), norm(right)
    pairs = []

    def rec(a, b):
        if isinstance(a, tuple) and isinstance(b, tuple):
            if a and b and a[0] == 'literal' and b[0] == 'literal':
                if a[2] != b[2]:
                    return False
                if not (a[1] == b[1] and type(a[1]) is type(b[1])):
                    pairs.append((a[1], b[1]))
                return True
            if len(a) != len(b):
                return False
            return all(rec(x, y) for x, y in zip(a, b))
        return a == b and type(a) is type(b)

    return pairs if rec(left, right) and pairs else None
