"""C11 - abstract graph model (the oracle) for graph-construction call sequences.

Nodes are referred to by their creation index.  A *link* is ``(src, out_index, dst, port)`` with ``port`` one of
``('A', i)``, ``('T',)``, ``('L',)``; ``dst`` may be a worker port or the input ``i`` of a Future placeholder (which
passes input ``i`` to its output ``i``).  Everything the property talks about is derived from the set of links:

* resolved worker-to-worker edges (placeholders are transparent),
* the ports a worker is subscribed on (direct links - also those whose publisher is still a placeholder),
* trained-ness and group membership.

``violations(links)`` lists the invariants of the property text a link set would break; a call is *forbidden* iff the
link set after it breaks one.  Everything else is *open*: forml may accept it (the model then advances) or refuse it
with ``TopologyError`` leaving everything as it was - the property does not promise that legal calls succeed, except
through the placeholder-equals-direct-wiring clause which is checked by its own differential workload.
"""
import collections

T = ('T',)
L = ('L',)


def apply(i):
    return ('A', int(i))


class Model:
    """Append-only node table + current link set + segments/trunks by index."""

    def __init__(self):
        self.kind = []
        self.szin = []
        self.szout = []
        self.group = []
        self.stateful = []
        self.links = set()
        self.segs = []
        self.trunks = []

    # ------------------------------------------------------------------ nodes
    def add_worker(self, stateful, szin, szout, group=None):
        idx = len(self.kind)
        self.kind.append('W')
        self.szin.append(szin)
        self.szout.append(szout)
        self.group.append(idx if group is None else group)
        self.stateful.append(bool(stateful))
        return idx

    def add_future(self, szin, szout):
        idx = len(self.kind)
        self.kind.append('F')
        self.szin.append(szin)
        self.szout.append(szout)
        self.group.append(None)
        self.stateful.append(False)
        return idx

    def workers(self):
        return [i for i, k in enumerate(self.kind) if k == 'W']

    def futures(self):
        return [i for i, k in enumerate(self.kind) if k == 'F']

    def members(self, group):
        return [i for i, g in enumerate(self.group) if g == group and self.kind[i] == 'W']

    # ------------------------------------------------------------------ derivation
    def derive(self, links=None):
        links = self.links if links is None else links
        succ = collections.defaultdict(list)
        for s, o, d, p in links:
            succ[(s, o)].append((d, p))
        kind = self.kind

        def down(src, oi, seen):
            res = set()
            for d, p in succ.get((src, oi), ()):
                if kind[d] == 'W':
                    res.add((d, p))
                elif (d, p[1]) not in seen:
                    seen.add((d, p[1]))
                    res |= down(d, p[1], seen)
            return res

        out = {}
        for n in range(len(kind)):
            for oi in range(self.szout[n]):
                out[(n, oi)] = down(n, oi, set()) if (n, oi) in succ else set()
        win = {n: set() for n in range(len(kind)) if kind[n] == 'W'}
        fin = {n: set() for n in range(len(kind)) if kind[n] == 'F'}
        direct = collections.Counter()
        for s, o, d, p in links:
            if kind[d] == 'W':
                win[d].add(p)
                direct[(d, p)] += 1
            else:
                fin[d].add((s, o, p[1]))
        return {'out': out, 'win': win, 'fin': fin, 'direct': direct}

    def trained(self, derived, n):
        return bool(derived['win'][n] & {T, L})

    def violations(self, links=None):
        """Invariants of the property text broken by the link set (empty list = fine)."""
        links = self.links if links is None else links
        d = self.derive(links)
        kind = self.kind
        bad = []
        pubs = collections.defaultdict(set)
        for (n, oi), targets in d['out'].items():
            if kind[n] == 'W':
                for t in targets:
                    pubs[t].add((n, oi))
        if any(c > 1 for c in d['direct'].values()) or any(len(v) > 1 for v in pubs.values()):
            bad.append('two-publishers')
        if any(s == dst for s, _, dst, _ in links) or any(
            kind[n] == 'W' and any(t[0] == n for t in targets) for (n, _), targets in d['out'].items()
        ):
            bad.append('self-feed')
        trained_by_group = collections.Counter()
        for w, ports in d['win'].items():
            hasapply = any(p[0] == 'A' for p in ports)
            hastrain = bool(ports & {T, L})
            if hasapply and hastrain:
                bad.append('apply-train-mix')
            if hastrain:
                trained_by_group[self.group[w]] += 1
                if any(d['out'][(w, oi)] for oi in range(self.szout[w])):
                    bad.append('trained-publishes')
        if any(c > 1 for c in trained_by_group.values()):
            bad.append('group-two-trained')
        return sorted(set(bad))

    def future_cycle(self, links):
        """Placeholder-only cycle of length >= 2 (outside the property text; forml recurses) - never generated."""
        kind = self.kind
        succ = collections.defaultdict(set)
        for s, _, d, _ in links:
            if kind[s] == 'F' and kind[d] == 'F' and s != d:
                succ[s].add(d)
        color = {}

        def visit(n):
            color[n] = 1
            for m in succ[n]:
                if color.get(m) == 1 or (m not in color and visit(m)):
                    return True
            color[n] = 2
            return False

        return any(n not in color and visit(n) for n in list(succ))

    def state(self, links=None):
        """What the real graph must look like (per node; sets, not order)."""
        links = self.links if links is None else links
        d = self.derive(links)
        trained = {w: bool(p & {T, L}) for w, p in d['win'].items()}
        result = []
        for n, kind in enumerate(self.kind):
            out = tuple(frozenset(d['out'][(n, oi)]) for oi in range(self.szout[n]))
            if kind == 'W':
                members = self.members(self.group[n])
                result.append(
                    ('W', out, frozenset(d['win'][n]), trained[n],
                     self.stateful[n] and any(trained[m] for m in members if m != n), frozenset(members))
                )
            else:
                result.append(('F', out, frozenset(d['fin'][n])))
        return result

    # ------------------------------------------------------------------ segment tracing
    def mapper_succ(self, links=None):
        d = self.derive(self.links if links is None else links)
        succ = {}
        for n in range(len(self.kind)):
            succ[n] = {
                t[0] for oi in range(self.szout[n]) for t in d['out'][(n, oi)] if not (d['win'][t[0]] & {T, L})
            }
        return succ

    def cycle_must_raise(self, head, tail, links=None):
        """True when tracing Segment(head, tail) has to meet a cycle.

        auto-traced tail: any cycle reachable from head over non-trained subscribers.
        explicit worker tail: a cycle among nodes lying between head and tail (exploration stops at tail); cycles on
        sink branches / beyond the tail / placeholder tails make no demand (either outcome accepted)."""
        succ = self.mapper_succ(links)
        if tail is None:
            sub = None
        else:
            if self.kind[tail] != 'W' or head == tail:
                return False
            if self.kind[head] == 'F' and tail in self.upstream(head, links):
                return False  # the placeholder head stands for the tail's own output (forml: Future == its publisher)
            succ = dict(succ)
            succ[tail] = set()
            reach = self._reach(head, succ)
            if tail not in reach:
                return False
            sub = {n for n in reach if tail in self._reach(n, succ)}
        color = {}

        def visit(n):
            color[n] = 1
            for m in succ[n]:
                if sub is not None and m not in sub:
                    continue
                if color.get(m) == 1 or (m not in color and visit(m)):
                    return True
            color[n] = 2
            return False

        return visit(head)

    def upstream(self, node, links=None):
        """Nodes publishing into the given placeholder, directly or through other placeholders."""
        links = self.links if links is None else links
        found, stack = set(), [node]
        while stack:
            current = stack.pop()
            for s, _, d, _ in links:
                if d == current and s not in found:
                    found.add(s)
                    if self.kind[s] == 'F':
                        stack.append(s)
        return found

    @staticmethod
    def _reach(start, succ):
        seen = {start}
        stack = [start]
        while stack:
            for m in succ[stack.pop()]:
                if m not in seen:
                    seen.add(m)
                    stack.append(m)
        return seen
