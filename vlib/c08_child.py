"""Child interpreter of checks/c08.py (cross-process pickle identity).

Run as ``python -m vlib.c08_child <job.json>`` with ``PYTHONPATH=$VERIF_REPO:/verif`` and a ``PYTHONHASHSEED`` different
from the parent's.  The job lists objects the parent built from generator ASTs, *used* (hashed, put into dicts, schema
read, parsed) and pickled.  For every item this process
  * unpickles the parent's object,
  * builds the identical object natively from the AST (``dslgen`` builders; kinds from ``checks.c08.kind_pool``),
  * reports ``dslgen.structure`` equality, (==, hash equality, ``native in {loaded}``, ``{loaded: 1}.get(native)``), the
    same vector for a re-pickled copy of the loaded object, and - when the item names a single-leaf variant - the vector
    of the loaded object against the natively built variant (must stay unequal).
Nothing is judged here; the parent classifies.
"""
import base64
import json
import pickle
import sys


def build(g, root, node, raw):
    """The object of a job item: a source / feature of the statement ``root`` (python's lazy == proxies unwrapped)."""
    builder = g.Builder(g.norm(root), raw=raw)
    node = g.norm(node)
    if g.is_source(node):
        return builder.source(node)
    obj = builder.feature(node)
    if type(obj).__name__ == 'Pythonic':
        obj = obj.operable
    return obj


def native_of(g, dsl, pool, item):
    what = item['what']
    if what == 'kind':
        return dict(pool)[item['name']]()
    if what == 'schema':
        return build(g, item['root'], item['root'], item['raw']).schema
    return build(g, item['root'], item['node'], item['raw'])


def main() -> int:
    from vlib import core

    core.quiet_stderr()
    from forml.io import dsl

    from checks import c08
    from vlib import dslgen as g

    with open(sys.argv[1], encoding='utf-8') as fd:
        job = json.load(fd)
    pool = c08.kind_pool(dsl)
    out = []
    for item in job['items']:
        result = {'id': item['id']}
        try:
            loaded = pickle.loads(base64.b64decode(item['blob']))
        except RecursionError:
            result['error'] = 'unpickle: RecursionError'
            out.append(result)
            continue
        except Exception as err:  # pylint: disable=broad-except
            result['error'] = f'unpickle: {type(err).__name__}: {err}'[:300]
            out.append(result)
            continue
        try:
            native = native_of(g, dsl, pool, item)
        except Exception as err:  # pylint: disable=broad-except
            result['skip'] = f'native build: {type(err).__name__}: {err}'[:300]
            out.append(result)
            continue
        try:
            result['structure'] = g.structure(loaded) == g.structure(native)
        except RecursionError:
            result['structure'] = 'raises:RecursionError'
        result['vector'] = c08.vector(loaded, native)
        result['reverse'] = c08.vector(native, loaded)
        try:
            again = pickle.loads(pickle.dumps(loaded))
            result['repickle'] = c08.vector(again, native)
        except RecursionError:
            result['repickle'] = 'raises:RecursionError'
        except Exception as err:  # pylint: disable=broad-except
            result['repickle'] = f'raises:{type(err).__name__}: {err}'[:200]
        if item.get('variant_root') is not None:
            try:
                if item['what'] == 'schema':
                    other = build(g, item['variant_root'], item['variant_root'], item['raw']).schema
                    result['variant_same'] = g.structure(other) == g.structure(native)
                else:
                    other = build(g, item['variant_root'], item['variant_node'], not item['raw'])
                result['variant'] = c08.vector(loaded, other)
            except Exception as err:  # pylint: disable=broad-except
                result['variant_skip'] = f'{type(err).__name__}: {err}'[:200]
        if item['what'] == 'kind':
            result['others'] = {name: c08.vector(loaded, make()) for name, make in pool}
        out.append(result)
    with open(job['out'] + '.tmp', 'w', encoding='utf-8') as fd:
        json.dump({'hashseed': sys.flags.hash_randomization and __import__('os').environ.get('PYTHONHASHSEED'), 'results': out}, fd)
    __import__('os').replace(job['out'] + '.tmp', job['out'])
    return 0


if __name__ == '__main__':
    sys.exit(main())
