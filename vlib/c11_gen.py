"""C11 - call-sequence generators: random mixed legal/illegal sequences with retries, permutation families of a small
call set, and placeholder-vs-direct wiring specs."""
import itertools

from . import c11_driver, c11_model
from .c11_model import L, T

SHAPES = [(1, 1), (1, 1), (1, 1), (1, 1), (2, 1), (1, 2), (2, 2)]
WEIGHTS = {
    'worker': 2.0, 'future': 1.5, 'fork': 1.0, 'sub': 6.0, 'pub': 4.0, 'train': 2.5, 'segment': 2.0, 'extend': 1.5,
    'copy': 0.8, 'seg_sub': 1.0, 'trunk': 0.8, 'trunk_extend': 0.8, 'compose': 0.5, 'release': 1.5,
}
MAXNODES = 14


def _ref(rng, model, allow_none=0.4):
    roll = rng.random()
    if roll < allow_none:
        return None
    if model.segs and roll > 0.8:
        return ['s', rng.randrange(len(model.segs))]
    return ['n', rng.randrange(len(model.kind))]


def _source(rng, model, derived, untrained_bias=0.7):
    cands = [n for n in range(len(model.kind)) if model.szout[n] > 0]
    if not cands:
        return None
    if rng.random() < untrained_bias:
        good = [n for n in cands if model.kind[n] == 'F' or not model.trained(derived, n)]
        cands = good or cands
    n = rng.choice(cands)
    return n, rng.randrange(model.szout[n])


def _target(rng, model, derived, free_bias=0.6):
    cands = [(n, i) for n in range(len(model.kind)) for i in range(model.szin[n])]
    if not cands:
        return None
    if rng.random() < free_bias:
        free = [
            (n, i) for n, i in cands
            if (model.kind[n] == 'W' and not derived['win'][n] & {('A', i), T, L})
            or (model.kind[n] == 'F' and not any(x[2] == i for x in derived['fin'][n]))
        ]
        cands = free or cands
    return rng.choice(cands)


def draw(rng, case, explicit):
    """One random call for the current model state (None = kind not applicable now)."""
    model = case.model
    n = len(model.kind)
    kinds = [k for k in WEIGHTS if k != 'release' or (case.schedule == 'hold' and case.real.held)]
    kind = rng.choices(kinds, [WEIGHTS[k] for k in kinds])[0]
    derived = model.derive()
    if kind == 'worker':
        if explicit['worker'] >= 5 or n >= MAXNODES:
            return None
        explicit['worker'] += 1
        szin, szout = rng.choice(SHAPES)
        return ['worker', rng.random() < 0.5, szin, szout]
    if kind == 'future':
        if explicit['future'] >= 3 or n >= MAXNODES:
            return None
        explicit['future'] += 1
        return ['future', rng.choice([1, 1, 1, 2])]
    if n == 0:
        return None
    if kind == 'fork':
        if explicit['fork'] >= 3 or n >= MAXNODES:
            return None
        explicit['fork'] += 1
        workers = model.workers()
        return ['fork', rng.choice(workers) if workers and rng.random() < 0.85 else rng.randrange(n)]
    if kind == 'sub':
        src, dst = _source(rng, model, derived), _target(rng, model, derived)
        if not src or not dst:
            return None
        return ['sub', dst[0], dst[1], src[0], src[1]]
    if kind == 'pub':
        src = _source(rng, model, derived)
        if not src:
            return None
        roll = rng.random()
        workers = model.workers()
        if roll < 0.5 or not workers:
            dst = _target(rng, model, derived)
            if not dst:
                return None
            return ['pub', src[0], src[1], dst[0], ['A', dst[1]]]
        return ['pub', src[0], src[1], rng.choice(workers), ['T'] if roll < 0.75 else ['L']]
    if kind == 'train':
        workers = model.workers()
        if not workers:
            return None
        good = [w for w in workers if model.stateful[w]]
        worker = rng.choice(good if good and rng.random() < 0.8 else workers)
        first, second = _source(rng, model, derived), _source(rng, model, derived)
        if not first:
            return None
        return ['train', worker, first[0], first[1], second[0], second[1]]
    if kind == 'segment':
        head = rng.randrange(n)
        return ['segment', head, None if rng.random() < 0.5 else rng.randrange(n)]
    if kind == 'trunk':
        if n >= MAXNODES:
            return None
        return ['trunk', _ref(rng, model), _ref(rng, model), _ref(rng, model)]
    if kind == 'release':
        return ['release']
    if kind == 'compose':
        if not model.trunks:
            return None
        count = min(len(model.trunks), rng.choice([1, 1, 2, 2, 3]))
        return ['compose', rng.sample(range(len(model.trunks)), count)]
    if kind == 'trunk_extend':
        if not model.trunks:
            return None
        return ['trunk_extend', rng.randrange(len(model.trunks)), _ref(rng, model), _ref(rng, model), _ref(rng, model)]
    if not model.segs:
        return None
    seg = rng.randrange(len(model.segs))
    if kind == 'extend':
        return ['extend', seg, _ref(rng, model, 0.2), None if rng.random() < 0.8 else rng.randrange(n)]
    if kind == 'copy':
        return ['copy', seg] if n < MAXNODES else None
    if kind == 'seg_sub':
        if rng.random() < 0.3:
            return ['seg_sub', seg, ['s', rng.randrange(len(model.segs))]]
        src = _source(rng, model, derived)
        return ['seg_sub', seg, ['n', src[0], src[1]]] if src else None
    return None


def mutate(rng, case, call):
    """A retry of a refused call with one operand changed."""
    model = case.model
    call = [list(c) if isinstance(c, list) else c for c in call]
    derived = model.derive()
    src = _source(rng, model, derived, 0.9)
    if call[0] == 'sub' and src:
        call[3], call[4] = src
    elif call[0] == 'pub' and src:
        call[1], call[2] = src
    elif call[0] == 'train' and src:
        if rng.random() < 0.5:
            call[2], call[3] = src
        else:
            call[4], call[5] = src
    elif call[0] == 'seg_sub' and src:
        call[2] = ['n', src[0], src[1]]
    return call


def risky(case, call):
    """Calls that run into the mechanisms already recorded as findings (half of the cases steer around them so that
    the rest of the sequence is still explored)."""
    steps, states, forbidden_at, _, unspecified = case.plan(call)
    if unspecified or steps is None:
        return unspecified
    model = case.model
    kind = model.kind
    touches = any(kind[s] == 'F' or kind[d] == 'F' for s, _, d, _ in steps)
    if forbidden_at is not None and (touches or forbidden_at > 0 or call[0] == 'pub' and tuple(call[4]) in (T, L)):
        return True
    derived = model.derive()
    for s, o, d, p in steps:
        if kind[d] == 'F' and any(x[2] == p[1] and (x[0], x[1]) != (s, o) for x in derived['fin'][d]):
            return True
    return False


def random_case(rng, schedule, length, avoid):
    """Generate and run one random sequence; returns the finished Case."""
    case = c11_driver.Case(schedule)
    explicit = {'worker': 0, 'future': 0, 'fork': 0}
    prefix = [['worker', rng.random() < 0.5, *rng.choice(SHAPES)] for _ in range(rng.randint(2, 3))]
    prefix += [['future', 1] for _ in range(rng.choice([0, 1, 1, 2]))]
    explicit['worker'], explicit['future'] = sum(c[0] == 'worker' for c in prefix), sum(c[0] == 'future' for c in prefix)
    for call in prefix:
        case.step(call)
    refused = None
    executed = 0
    attempts = 0
    while executed < length and attempts < length * 6 and case.failed is None:
        attempts += 1
        if refused is not None and rng.random() < 0.35:
            call = mutate(rng, case, refused)
            case.retries = getattr(case, 'retries', 0) + 1
        else:
            call = draw(rng, case, explicit)
        if call is None:
            continue
        if avoid and call[0] != 'release' and risky(case, call):
            continue
        topo = case.stats['topo']
        if not case.step(call):
            break
        executed += 1
        refused = call if case.stats['topo'] > topo and call[0] in ('sub', 'pub', 'train', 'seg_sub') else None
    return case


# ---------------------------------------------------------------------------------------------- permutation families
def family(rng, size):
    """Fixed creation prefix + a set of wiring calls whose every order is run."""
    prefix = [['worker', False, 1, 2], ['worker', True, 1, 1], ['fork', 1], ['worker', False, 2, 1], ['worker', True, 1, 1],
              ['future', 1], ['future', 1], ['segment', 0, None], ['segment', 4, None]]
    nodes = 7
    szin = [1, 1, 1, 2, 1, 1, 1]
    szout = [2, 1, 1, 1, 1, 1, 1]
    futures = {5, 6}
    calls = []
    guard = 0
    while len(calls) < size and guard < 100:
        guard += 1
        roll = rng.random()
        src = rng.randrange(nodes)
        oi = rng.randrange(szout[src])
        dst = rng.randrange(nodes)
        if roll < 0.45:
            call = ['sub', dst, rng.randrange(szin[dst]), src, oi]
        elif roll < 0.65:
            if dst in futures:
                continue
            call = ['pub', src, oi, dst, rng.choice([['T'], ['L'], ['A', rng.randrange(szin[dst])]])]
        elif roll < 0.8:
            second = rng.randrange(nodes)
            call = ['train', rng.choice([1, 2, 4, 4]), src, oi, second, rng.randrange(szout[second])]
        elif roll < 0.9:
            call = ['segment', rng.choice([0, 0, 5, src]), rng.choice([None, dst])]
        else:
            call = ['extend', rng.choice([0, 1]), rng.choice([['n', dst], ['s', 1], ['s', 0]]), None]
        if call in calls:
            continue
        # placeholder-only cycles are outside the property: never put both directions of 5<->6 into one family
        if call[0] == 'sub' and {call[1], call[3]} <= futures and call[1] != call[3] and any(
            c[0] == 'sub' and {c[1], c[3]} <= futures and c[1] == call[3] for c in calls
        ):
            continue
        calls.append(call)
    return prefix, calls


def orders(calls, limit, rng):
    if len(calls) <= 5:
        yield from itertools.permutations(calls)
        return
    seen = set()
    for _ in range(limit):
        perm = calls[:]
        rng.shuffle(perm)
        if tuple(map(repr, perm)) not in seen:
            seen.add(tuple(map(repr, perm)))
            yield perm


# ---------------------------------------------------------------------------------------------- placeholder vs direct
def wiring(rng):
    """A legal worker-to-worker wiring + a routing of its connections through 1-3 chained placeholders."""
    model = c11_model.Model()
    creation = []
    for _ in range(rng.randint(3, 5)):
        if model.kind and rng.random() < 0.25:
            base = rng.choice(model.workers())
            model.add_worker(model.stateful[base], model.szin[base], model.szout[base], model.group[base])
            creation.append(['fork', base])
        else:
            szin, szout = rng.choice(SHAPES)
            stateful = rng.random() < 0.5
            model.add_worker(stateful, szin, szout)
            creation.append(['worker', stateful, szin, szout])
    workers = model.workers()
    links = []
    for _ in range(40):
        if len(links) >= rng.randint(2, 5):
            break
        src = rng.choice(workers)
        dst = rng.choice(workers)
        port = rng.choice([T, L, ('A', rng.randrange(model.szin[dst]))])
        link = (src, rng.randrange(model.szout[src]), dst, port)
        if link in links or model.violations(set(links) | {link}):
            continue
        links.append(link)
    widths = []  # placeholders in creation order: width w = w independent lanes (input i <-> output i)
    free = {}  # placeholder -> lanes not used yet
    ops = []
    shared = {}

    def hop(after):
        """(placeholder, lane) for the next hop: a free lane of an existing wider placeholder created later than the previous
        hop's (placeholder ids grow along every chain - no placeholder-only cycles), or a new placeholder."""
        options = [f for f, lanes in free.items() if lanes and f > after]
        if options and rng.random() < 0.5:
            future = rng.choice(options)
            return future, free[future].pop(0)
        future = len(workers) + len(widths)
        widths.append(rng.choice([1, 1, 1, 2, 2, 3]))
        free[future] = list(range(1, widths[-1]))
        return future, 0

    for src, oi, dst, port in links:
        chain = rng.choice([0, 1, 1, 2, 2, 3])
        hops = []
        if chain and (src, oi) in shared and rng.random() < 0.6:
            hops.append(shared[(src, oi)])
            chain -= 1
        elif chain:
            first = hop(-1)
            hops.append(first)
            shared.setdefault((src, oi), first)
            ops.append(['sub', first[0], first[1], src, oi] if rng.random() < 0.5 else ['pub', src, oi, first[0], ['A', first[1]]])
            chain -= 1
        for _ in range(chain):
            nxt = hop(hops[-1][0])
            ops.append(['sub', nxt[0], nxt[1], hops[-1][0], hops[-1][1]] if rng.random() < 0.5 else
                       ['pub', hops[-1][0], hops[-1][1], nxt[0], ['A', nxt[1]]])
            hops.append(nxt)
        last, lo = hops[-1] if hops else (src, oi)
        if port[0] == 'A' and rng.random() < 0.5:
            ops.append(['sub', dst, port[1], last, lo])
        else:
            ops.append(['pub', last, lo, dst, list(port)])
    nfut = len(widths)
    return {'creation': creation, 'links': [list(l[:3]) + [list(l[3])] for l in links], 'futures': nfut, 'widths': widths, 'ops': ops}

