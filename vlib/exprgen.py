"""Operator-expression ASTs, builder to real forml operators and the denotation [[expr]] (DESIGN appendix A).

AST nodes (JSON-able dicts):
  {'op': 'chain', 'left': e, 'right': e}                       left >> right (tree shape = parenthesisation)
  {'op': 'wrap', 'id': k, 'apply': a, 'train': t, 'label': l, 'style': s}
        a/t/l = None | {'name', 'stateful'}; a and t may carry the same name => one builder/state (mapper)
  {'op': 'mapreduce', 'id': k, 'mappers': [{'name','stateful'}...]}
  {'op': 'dump', 'id': k} | {'op': 'sniff', 'id': k}          transparent debug operators
  {'op': 'fullstack', 'id': k, 'bases': [e...], 'n': folds}     scope-wrapping stacking ensemble
  {'op': 'twice', 'id': k}                                     public-API operator expanding its scope twice

The denotation is written from the operator documentation, not from the wiring code.
"""
import pickle
import typing

from forml import flow
from forml.pipeline import payload

from . import symbolic
from .symbolic import NONE, Term


# ------------------------------------------------------------------------------------------------ symbolic pieces
class SymCV:
    """Symbolic cross-validator: fold index terms bound to what it was trained on."""

    def __init__(self, name: str, n: int):
        self.name = name
        self.n = n

    def split(self, features, labels=None, groups=None, /):
        sigma = Term('cv', self.name, symbolic.term(features), symbolic.term(labels))
        return tuple((Term('idx', i, 'tr', sigma), Term('idx', i, 'te', sigma)) for i in range(self.n))

    def get_n_splits(self, *_):
        return self.n

class SymFolds(payload.CVFoldable):
    """CVFoldable over symbolic payloads: port 2i = take(x, idx(i,'tr',cv)), port 2i+1 = take(x, idx(i,'te',cv))."""

    def __init__(self, name: str = 'cv', n: int = 2, log=None):
        super().__init__(SymCV(name, n))
        self.name = name
        self.n = n
        self.log = log

    @classmethod
    def split(cls, features, indices):
        return tuple(Term('take', symbolic.term(features), idx) for pair in indices for idx in pair)

    def get_state(self) -> bytes:
        if not self._indices:
            return b''
        return pickle.dumps(Term('cvstate', self.name, *(i for pair in self._indices for i in pair)))

    def set_state(self, state: bytes) -> None:
        if state:
            flat = pickle.loads(state).args[1:]
            self._indices = tuple((flat[2 * i], flat[2 * i + 1]) for i in range(len(flat) // 2))

    def get_params(self):
        return {'name': self.name, 'n': self.n, 'log': self.log}

    def set_params(self, **params):
        for key, value in params.items():
            setattr(self, key, value)

class SymDumper(payload.Dumpable):
    """Transparent dumper recording what it was asked to dump."""

    def __init__(self, path, tag: str = 'd', log=None):
        super().__init__(path, tag=tag, log=log)

    @classmethod
    def apply_dump(cls, features, path, tag='d', log=None):  # pylint: disable=arguments-differ
        symbolic._log(log, {'n': tag, 'k': 'apply_dump', 'dg': symbolic.term(features).dg})  # pylint: disable=protected-access

    @classmethod
    def train_dump(cls, features, labels, path, tag='d', log=None):  # pylint: disable=arguments-differ
        symbolic._log(log, {'n': tag, 'k': 'train_dump',  # pylint: disable=protected-access
                            'dg': Term('pair', symbolic.term(features), symbolic.term(labels)).dg})

class Twice(flow.Operator):
    """Operator written against the public composition API only: expands its scope twice (two independent copies of
    the left side) and merges both copies with a 2:1 stateless merger in both modes; labels pass from copy one."""

    def __init__(self, merger: 'flow.Builder'):
        self._merger = merger

    def compose(self, scope: 'flow.Composable') -> 'flow.Trunk':
        head = flow.Trunk()
        one = scope.expand()
        two = scope.expand()
        for copy in (one, two):
            copy.apply.subscribe(head.apply)
            copy.train.subscribe(head.train)
            copy.label.subscribe(head.label)
        apply = flow.Worker(self._merger, 2, 1)
        train = apply.fork()
        apply[0].subscribe(one.apply.publisher)
        apply[1].subscribe(two.apply.publisher)
        train[0].subscribe(one.train.publisher)
        train[1].subscribe(two.train.publisher)
        return flow.Trunk(head.apply.extend(tail=apply), head.train.extend(tail=train),
                          head.label.extend(tail=tuple(one.label)[1]))



class Handmade(flow.Operator):
    """A mapper written by hand against the public API: it keeps ONE builder object and uses it for every expansion (the
    wrap operators clone theirs), so when its scope is expanded repeatedly (per fold, twice, ...) distinct worker groups
    - each with its own persisted state - carry the very same builder object.  Semantics = ``wrap.Operator.mapper``."""

    def __init__(self, builder: 'flow.Builder'):
        self._builder = builder

    def compose(self, scope: 'flow.Composable') -> 'flow.Trunk':
        left = scope.expand()
        apply = flow.Worker(self._builder, 1, 1)
        train = apply.fork()
        if apply.stateful:
            apply.fork().train(left.train.publisher, left.label.publisher)
        return left.extend(apply, train)


class Relabel(flow.Operator):
    """A label operator written against the public API: a stateless 2:1 worker reads the train features and the labels and
    becomes the new label tail (``Trunk.use`` / ``Segment.extend(tail=...)``); the train and apply segments are left as they
    are - so a non-trained worker stays subscribed to the tail of a segment the operator does not extend."""

    def __init__(self, builder: 'flow.Builder'):
        self._builder = builder

    def compose(self, scope: 'flow.Composable') -> 'flow.Trunk':
        left = scope.expand()
        worker = flow.Worker(self._builder, 2, 1)
        worker[0].subscribe(left.train.publisher)
        worker[1].subscribe(left.label.publisher)
        return left.use(label=left.label.extend(tail=worker))


class Prewired(flow.Operator):
    """Two mappers in a row written by hand as ONE operator: it wires ``first -> second`` itself in both modes and hands
    the chains over by their *head* (``Trunk.extend`` / ``Segment.extend`` accept a node or a segment and trace the tail of
    what is wired behind it).  ``flavour``: both modes as nodes, both as segments, or apply as node and train as segment.
    Semantics = ``mapper(first) >> mapper(second)``."""

    def __init__(self, first: 'flow.Builder', second: 'flow.Builder', flavour: str):
        self._first = first
        self._second = second
        self._flavour = flavour

    def compose(self, scope: 'flow.Composable') -> 'flow.Trunk':
        left = scope.expand()
        apply1 = flow.Worker(self._first, 1, 1)
        train1 = apply1.fork()
        if apply1.stateful:
            apply1.fork().train(left.train.publisher, left.label.publisher)
        apply2 = flow.Worker(self._second, 1, 1)
        train2 = apply2.fork()
        apply2[0].subscribe(apply1[0])
        train2[0].subscribe(train1[0])
        if apply2.stateful:
            apply2.fork().train(train1[0], left.label.publisher)
        apply, train = apply1, train1
        if self._flavour == 'segments':
            apply, train = flow.Segment(apply1), flow.Segment(train1)
        elif self._flavour == 'mixed':
            train = flow.Segment(train1)
        return left.extend(apply, train)


def symcls():
    return {'SymCV': SymCV, 'SymFolds': SymFolds, 'SymDumper': SymDumper, 'Twice': Twice, 'Handmade': Handmade, 'Relabel': Relabel,
            'Prewired': Prewired}


# ------------------------------------------------------------------------------------------------ generation
class Gen:
    """Seeded expression generator; every operator and actor gets a unique name."""

    def __init__(self, rng, ops=('wrap', 'mapreduce', 'dump', 'sniff', 'fullstack', 'twice'), maxfolds=3):
        self.rng = rng
        self.k = 0
        self.ops = ops
        self.maxfolds = maxfolds

    def _id(self) -> int:
        self.k += 1
        return self.k

    def actor(self, stateful=None) -> dict:
        return {'name': f'a{self._id()}', 'stateful': self.rng.random() < 0.6 if stateful is None else stateful}

    def wrap(self, style=None) -> dict:
        style = style or self.rng.choice(['mapper', 'mapper', 'apply', 'train', 'apply+train', 'label', 'mapper+label',
                                          'apply+label', 'chained'])
        node = {'op': 'wrap', 'id': self._id(), 'apply': None, 'train': None, 'label': None, 'style': style}
        if style in ('mapper', 'mapper+label', 'chained'):
            node['apply'] = node['train'] = self.actor()
        if style in ('apply', 'apply+train', 'apply+label'):
            node['apply'] = self.actor()
        if style in ('train', 'apply+train'):
            node['train'] = self.actor()
        if style in ('label', 'mapper+label', 'apply+label'):
            node['label'] = self.actor()
        if style == 'mapper' and self.rng.random() < 0.3:
            node['handmade'] = True  # same semantics through a hand-written operator sharing one builder object
        if style == 'label' and self.rng.random() < 0.4:
            node['label']['stateful'] = False
            node['relabel'] = True  # labels := f(train features, labels) through a hand-written operator (exprgen.Relabel)
        return node

    def operator(self, depth: int, scoped_ok: bool = True) -> dict:
        pool = [o for o in self.ops if scoped_ok or o not in ('fullstack', 'twice')]
        op = self.rng.choice(pool + ['wrap'] * 3)
        if op == 'wrap':
            if self.rng.random() < 0.12:  # two mappers pre-wired by one hand-written operator (exprgen.Prewired)
                return {'op': 'chain', 'left': dict(self.wrap('mapper'), handmade=False), 'right': dict(self.wrap('mapper'), handmade=False),
                        'prewired': self.rng.choice(['nodes', 'segments', 'mixed'])}
            return self.wrap()
        if op == 'mapreduce':
            return {'op': 'mapreduce', 'id': self._id(), 'mappers': [self.actor() for _ in range(self.rng.randint(1, 3))]}
        if op in ('dump', 'sniff'):
            return {'op': op, 'id': self._id()}
        if op == 'twice':
            return {'op': 'twice', 'id': self._id()}
        bases = [self.expr(self.rng.randint(1, 2), depth - 1, scoped_ok=False) for _ in range(self.rng.randint(1, 3))]
        return {'op': 'fullstack', 'id': self._id(), 'bases': bases, 'n': self.rng.randint(2, self.maxfolds)}

    def expr(self, size: int, depth: int = 2, scoped_ok: bool = True) -> dict:
        """Random expression of `size` operators with a random parenthesisation."""
        if size <= 1:
            return self.operator(depth, scoped_ok and depth > 0)
        split = self.rng.randint(1, size - 1)
        return {'op': 'chain', 'left': self.expr(split, depth, scoped_ok), 'right': self.expr(size - split, depth, scoped_ok)}


def parenthesisations(ops: list) -> typing.Iterator[dict]:
    """All binary trees over the operator sequence."""
    if len(ops) == 1:
        yield ops[0]
        return
    for split in range(1, len(ops)):
        for left in parenthesisations(ops[:split]):
            for right in parenthesisations(ops[split:]):
                yield {'op': 'chain', 'left': left, 'right': right}


def operators(expr: dict) -> typing.Iterator[dict]:
    if expr['op'] == 'chain':
        yield from operators(expr['left'])
        yield from operators(expr['right'])
    else:
        yield expr
        for base in expr.get('bases', ()):
            yield from operators(base)


def signature(expr: dict) -> str:
    if expr['op'] == 'chain':
        return f'({signature(expr["left"])}>>{"~" + expr["prewired"] + "~" if expr.get("prewired") else ""}{signature(expr["right"])})'
    if expr['op'] == 'wrap':
        flags = ''.join(('S' if expr[k]['stateful'] else 's') if expr[k] else '-' for k in ('apply', 'train', 'label'))
        return f'W[{expr["style"]}{"!" if expr.get("handmade") or expr.get("relabel") else ""}:{flags}]'
    if expr['op'] == 'mapreduce':
        return 'MR[' + ''.join('S' if m['stateful'] else 's' for m in expr['mappers']) + ']'
    if expr['op'] == 'fullstack':
        return f'FS{expr["n"]}[' + ','.join(signature(b) for b in expr['bases']) + ']'
    return expr['op']


# ------------------------------------------------------------------------------------------------ real operators
def build(expr: dict, log: typing.Optional[str] = None):
    """AST -> fresh forml Composable (operators cannot be reused across expressions)."""
    from forml.pipeline import ensemble, payload, wrap

    klass = symcls()
    if expr['op'] == 'chain':
        if expr.get('prewired'):
            first, second = expr['left']['apply'], expr['right']['apply']
            return klass['Prewired'](symbolic.builder(first['name'], first['stateful'], 1, log),
                                     symbolic.builder(second['name'], second['stateful'], 1, log), expr['prewired'])
        return build(expr['left'], log) >> build(expr['right'], log)
    if expr['op'] == 'wrap':
        def actor(spec):
            return symbolic.Stateful if spec['stateful'] else symbolic.Stateless

        a, t, l = expr['apply'], expr['train'], expr['label']
        if expr.get('handmade'):
            return klass['Handmade'](symbolic.builder(a['name'], a['stateful'], 1, log))
        if expr.get('relabel'):
            return klass['Relabel'](symbolic.builder(l['name'], False, 1, log))
        operator = None
        if a and t and a['name'] == t['name']:
            if expr['id'] % 2 and not l:  # hyper-parameters given to the operator instance instead of the decorator
                decorated = wrap.Operator.train(wrap.Operator.apply(actor(a))) if expr['style'] == 'chained' else \
                    wrap.Operator.mapper(actor(a))
                return decorated(name=a['name'], log=log)
            if expr['style'] == 'chained':
                operator = wrap.Operator.train(wrap.Operator.apply(actor(a), name=a['name'], log=log))
            else:
                operator = wrap.Operator.mapper(actor(a), name=a['name'], log=log)
        else:
            if a:
                operator = wrap.Operator.apply(actor(a), name=a['name'], log=log)
            if t:
                operator = (operator or wrap.Operator).train(actor(t), name=t['name'], log=log)
        if l:
            operator = (operator or wrap.Operator).label(actor(l), name=l['name'], log=log)
        return operator()
    if expr['op'] == 'mapreduce':
        return payload.MapReduce(*(symbolic.builder(m['name'], m['stateful'], 1, log) for m in expr['mappers']),
                                 reducer=symbolic.builder(f'r{expr["id"]}', False, 1, log))
    if expr['op'] == 'dump':
        return payload.Dump(klass['SymDumper'].builder(tag=f'd{expr["id"]}', log=log), path=f'/nonexistent/d{expr["id"]}-$mode-$seq')
    if expr['op'] == 'sniff':
        return payload.Sniff()
    if expr['op'] == 'twice':
        return klass['Twice'](symbolic.builder(f'm{expr["id"]}', False, 1, log))
    if expr['op'] == 'fullstack':
        return ensemble.FullStack(
            *(build(b, log) for b in expr['bases']),
            splitter=klass['SymFolds'].builder(name=f'cv{expr["id"]}', n=expr['n'], log=log), nsplits=expr['n'],
            appender=symbolic.builder(f'app{expr["id"]}', False, 1, log),
            stacker=symbolic.builder(f'stk{expr["id"]}', False, 1, log),
            reducer=symbolic.builder(f'red{expr["id"]}', False, 1, log),
        )
    raise ValueError(expr['op'])


def source(log: typing.Optional[str] = None, nonce: str = ''):
    """The ETL source exactly as forml wires it (extract.Operator): apply source, train source, label extractor."""
    from forml.io._input import extract

    return extract.Operator(symbolic.builder('src_apply' + nonce, False, 1, log), symbolic.builder('src_train' + nonce, False, 1, log),
                            symbolic.builder('split' + nonce, False, 2, log))


def source_terms(nonce: str = '') -> tuple[Term, Term, Term]:
    """(X, Y, Xa) delivered by source()."""
    train = Term('app', 'src_train' + nonce, NONE)
    split = Term('app', 'split' + nonce, NONE, train)
    return Term('out', 0, split), Term('out', 1, split), Term('app', 'src_apply' + nonce, NONE)


# ------------------------------------------------------------------------------------------------ denotation
class Den(typing.NamedTuple):
    """Result of evaluating an expression on (X, Y, Xa): outputs + every fit term and dump event it performs."""

    x: Term
    y: Term
    xa: Term
    fits: tuple  # fit / cvstate terms produced while training
    dumps: tuple  # (tag, kind, term)


def app(name, state, *inputs) -> Term:
    return Term('app', name, state, *inputs)


def denote(expr: typing.Optional[dict], x: Term, y: Term, xa: Term, prev: typing.Optional[dict] = None) -> Den:
    """[[expr]](X, Y, Xa).  ``prev`` maps actor name -> list of previous state terms (incremental training), consumed
    in expansion order for builders expanded several times."""
    prev = prev if prev is not None else {}

    def previous(name):
        queue = prev.get(name)
        return queue.pop(0) if queue else NONE

    def fit(name, features, labels) -> Term:
        return Term('fit', name, previous(name), features, labels)

    def go(node, x, y, xa) -> Den:
        if node is None:  # Origin
            return Den(x, y, xa, (), ())
        if node['op'] == 'chain':
            if node['right']['op'] == 'chain':
                left = go(node['left'], x, y, xa)
                right = go(node['right'], left.x, left.y, left.xa)
                return Den(right.x, right.y, right.xa, left.fits + right.fits, left.dumps + right.dumps)
            return operator(node['right'], node['left'], x, y, xa)
        return operator(node, None, x, y, xa)

    def operator(node, scope, x, y, xa) -> Den:
        kind = node['op']
        if kind in ('fullstack', 'twice'):
            return scoped(node, scope, x, y, xa)
        left = go(scope, x, y, xa)
        x, y, xa = left.x, left.y, left.xa
        fits, dumps = list(left.fits), list(left.dumps)
        if kind == 'wrap':
            a, t, l = node['apply'], node['train'], node['label']
            y2 = y
            if l:
                sl = NONE
                if l['stateful']:
                    sl = fit(l['name'], x, y)
                    fits.append(sl)
                y2 = app(l['name'], sl, x, y) if node.get('relabel') else app(l['name'], sl, y)
            states = {}
            for spec in (a, t):  # apply is built first, then train (one state when both name the same builder)
                if spec and spec['name'] not in states:
                    states[spec['name']] = NONE
                    if spec['stateful']:
                        states[spec['name']] = fit(spec['name'], x, y2)
                        fits.append(states[spec['name']])
            x2 = app(t['name'], states[t['name']], x) if t else x
            xa2 = app(a['name'], states[a['name']], xa) if a else xa
            return Den(x2, y2, xa2, tuple(fits), tuple(dumps))
        if kind == 'mapreduce':
            outs_t, outs_a = [], []
            for m in node['mappers']:
                state = NONE
                if m['stateful']:
                    state = fit(m['name'], x, y)
                    fits.append(state)
                outs_t.append(app(m['name'], state, x))
                outs_a.append(app(m['name'], state, xa))
            reducer = f'r{node["id"]}'
            return Den(app(reducer, NONE, *outs_t), y, app(reducer, NONE, *outs_a), tuple(fits), tuple(dumps))
        if kind == 'dump':
            tag = f'd{node["id"]}'
            dumps.append((tag, 'train_dump', Term('pair', x, y)))
            dumps.append((tag, 'apply_dump', xa))
            return Den(x, y, xa, tuple(fits), tuple(dumps))
        if kind == 'sniff':
            return Den(x, y, xa, tuple(fits), tuple(dumps))
        raise ValueError(kind)

    def scoped(node, scope, x, y, xa) -> Den:
        fits, dumps = [], []
        if node['op'] == 'twice':
            one = go(scope, x, y, xa)
            two = go(scope, x, y, xa)
            merger = f'm{node["id"]}'
            return Den(app(merger, NONE, one.x, two.x), one.y, app(merger, NONE, one.xa, two.xa),
                       one.fits + two.fits, one.dumps + two.dumps)
        name = f'cv{node["id"]}'
        n = node['n']
        sigma = Term('cv', name, x, y)
        idx = [(Term('idx', i, 'tr', sigma), Term('idx', i, 'te', sigma)) for i in range(n)]
        fits.append(Term('cvstate', name, *(i for pair in idx for i in pair)))
        folds = []
        for i in range(n):
            ftr, fte = Term('take', x, idx[i][0]), Term('take', x, idx[i][1])
            ltr, lte = Term('take', y, idx[i][0]), Term('take', y, idx[i][1])
            # the scope is trained on the fold's train part, applied to the held-out features and to the apply input
            trained = go(scope, ftr, ltr, xa)
            tested = go_apply_only(scope, trained, fte)
            fits.extend(trained.fits)
            dumps.extend(trained.dumps)
            folds.append((trained, tested, lte))
        stk, red, apd = f'stk{node["id"]}', f'red{node["id"]}', f'app{node["id"]}'
        train_cols, apply_cols = [], []
        perbase: list[list] = []
        for base in node['bases']:
            preds, applied = [], []
            for trained, tested, _ in folds:
                b = go(base, trained.x, trained.y, trained.xa)
                fits.extend(b.fits)
                dumps.extend(b.dumps)
                preds.append(go_apply_only(base, b, tested))
                applied.append(b.xa)
            perbase.append(preds)
            train_cols.append(app(stk, NONE, *preds))
            apply_cols.append(app(red, NONE, *applied))
        return Den(app(apd, NONE, *train_cols), app(stk, NONE, *(lte for _, _, lte in folds)), app(apd, NONE, *apply_cols),
                   tuple(fits), tuple(dumps))

    def go_apply_only(node, trained: Den, xa: Term) -> Term:
        """apply[[node]](model of `trained`, xa): re-evaluate the apply path with the states that `trained` produced.

        Implemented by substitution: the apply output of `trained` is a term over its apply input; replay the same
        structure on another input by re-running the denotation with a frozen state table."""
        table = {}
        for f in trained.fits:
            if f.op == 'fit':
                table.setdefault(f.args[0], []).append(f)
        return _apply(node, table, xa, extra_dumps)

    extra_dumps: list = []
    result = go(expr, x, y, xa)
    result = result._replace(dumps=result.dumps + tuple(extra_dumps))
    return result


def _apply(node, table, xa, dumps=None) -> Term:
    """apply[[node]] with states looked up by actor name (each name's fits consumed in expansion order)."""
    cursor = {k: list(v) for k, v in table.items()}

    def state(spec):
        if not spec['stateful']:
            return NONE
        return cursor[spec['name']].pop(0)

    def go(node, xa):
        if node is None:
            return xa
        if node['op'] == 'chain':
            if node['right']['op'] == 'chain':
                return go(node['right'], go(node['left'], xa))
            return operator(node['right'], node['left'], xa)
        return operator(node, None, xa)

    def operator(node, scope, xa):
        kind = node['op']
        if kind == 'twice':
            one = go(scope, xa)
            two = go(scope, xa)
            return app(f'm{node["id"]}', NONE, one, two)
        if kind == 'fullstack':
            folds = [go(scope, xa) for _ in range(node['n'])]
            cols = [app(f'red{node["id"]}', NONE, *(go(base, fold) for fold in folds)) for base in node['bases']]
            return app(f'app{node["id"]}', NONE, *cols)
        xa = go(scope, xa)
        if kind == 'wrap':
            a, t, l = node['apply'], node['train'], node['label']
            if l and l['stateful']:
                state(l)
            sa = None
            if a:
                sa = state(a)
            if t and (not a or t['name'] != a['name']) and t['stateful']:
                state(t)
            return app(a['name'], sa, xa) if a else xa
        if kind == 'mapreduce':
            return app(f'r{node["id"]}', NONE, *(app(m['name'], state(m), xa) for m in node['mappers']))
        if kind == 'dump' and dumps is not None:
            dumps.append((f'd{node["id"]}', 'apply_dump', xa))
        return xa

    return go(node, xa)


# ------------------------------------------------------------------------------------------------ evaluation (C12 / C04)
def sym_metric(true, pred):
    """Uninterpreted metric: records exactly which (true, predicted) pair was scored."""
    return Term('metric', symbolic.term(true), symbolic.term(pred))


def sym_reduce(*values):
    return Term('reduce', *(symbolic.term(v) for v in values))


def evaluator(kind: str, n: int, name: str = 'cvE', log=None):
    """Real evaluation operator over symbolic metric / splitter: kind in {'crossval', 'holdout', 'perftrack'}."""
    from forml import evaluation

    metric = evaluation.Function(sym_metric, reducer=sym_reduce)
    if kind == 'perftrack':
        return evaluation.PerfTrackScore(metric)
    if kind == 'holdout':
        method = evaluation.HoldOut(splitter=SymFolds.builder(name=name, n=2, log=log))
    else:
        method = evaluation.CrossVal(splitter=SymFolds.builder(name=name, n=n, log=log), nsplits=n)
    return evaluation.TrainTestScore(metric, method)


def denote_traintest(expr: dict, kind: str, n: int, x: Term, y: Term, name: str = 'cvE') -> Term:
    """[[expr >> TrainTestScore(metric, CrossVal n | HoldOut)]]: the metric term delivered by the train segment."""
    folds = 2 if kind == 'holdout' else n
    sigma = Term('cv', name, x, y)
    scores = []
    for i in range(1 if kind == 'holdout' else n):
        tr, te = Term('idx', i, 'tr', sigma), Term('idx', i, 'te', sigma)
        fold = denote(expr, Term('take', x, tr), Term('take', y, tr), Term('take', x, te))
        scores.append(Term('metric', Term('take', y, te), fold.xa))
    del folds
    return scores[0] if len(scores) == 1 else Term('reduce', *scores)


def persistent_names(expr: typing.Optional[dict]) -> set:
    """Names of the stateful actors that sit on the apply path (their states are carried between train and apply)."""
    if expr is None:
        return set()
    if expr['op'] == 'chain':
        return persistent_names(expr['left']) | persistent_names(expr['right'])
    if expr['op'] == 'wrap':
        return {expr['apply']['name']} if expr['apply'] and expr['apply']['stateful'] else set()
    if expr['op'] == 'mapreduce':
        return {m['name'] for m in expr['mappers'] if m['stateful']}
    if expr['op'] == 'fullstack':
        return set().union(*(persistent_names(b) for b in expr['bases']))
    return set()


def apply_with(expr: dict, fits: typing.Iterable[Term], xa: Term) -> Term:
    """apply[[expr]] with the states of one training run (its fit terms in expansion order)."""
    table: dict = {}
    for f in fits:
        if f.op == 'fit':
            table.setdefault(f.args[0], []).append(f)
    return _apply(expr, table, xa)


# ------------------------------------------------------------------------------------------------ concrete payloads (C12)
class FixedCV:
    """Cross-validator returning explicitly given (train, test) index lists - any splitter decision, incl.
    non-complementary, overlapping or gapped parts."""

    def __init__(self, pairs):
        self.pairs = [(list(tr), list(te)) for tr, te in pairs]

    def split(self, features, labels=None, groups=None, /):
        return [(list(tr), list(te)) for tr, te in self.pairs]

    def get_n_splits(self, *_):
        return len(self.pairs)


class ListFolds(payload.CVFoldable):
    """CVFoldable over plain python lists."""

    @classmethod
    def split(cls, features, indices):
        return tuple(part for train, test in indices for part in ([features[i] for i in train], [features[i] for i in test]))


class Const(flow.Actor):
    """Stateless source: returns the configured value."""

    def __init__(self, value):
        self.value = value

    def apply(self, *_):
        return list(self.value)

    def get_params(self):
        return {'value': self.value}

    def set_params(self, **params):
        self.value = params.get('value', self.value)


class Unzip(flow.Actor):
    """Label extractor: rows (rid, label) -> ([rid...], [label...])."""

    def apply(self, rows):
        return [r[0] for r in rows], [r[1] for r in rows]


class Recorder(flow.Actor):
    """Stateful model remembering the record ids (and labels) it was trained on; predicts (rid, trained-on ids)."""

    def __init__(self, tag: str = 'm'):
        self.tag = tag
        self.seen = None
        self.labels = None

    def train(self, features, labels, /):
        self.seen = tuple(sorted(_rid(f) for f in features))
        self.labels = tuple(sorted(labels))

    def apply(self, features):
        return [(_rid(f), self.tag, self.seen, self.labels) for f in features]

    def get_params(self):
        return {'tag': self.tag}

    def set_params(self, **params):
        self.tag = params.get('tag', self.tag)


def _rid(value):
    """Record id of a raw record or of an upstream prediction tuple."""
    while isinstance(value, tuple):
        value = value[0]
    return value


def pair_metric(true, pred):
    return ('scored', list(true), list(pred))


def pair_reduce(*values):
    return ('reduced', *values)


def least_label(true, pred):
    """A plain numeric metric whose per-fold value is known from the fold's held-out records alone (labels are 10 * id, so
    a fold holding out record 0 scores exactly 0)."""
    return min(true)


def concat_rows(*parts):
    return [row for part in parts for row in part]


def zip_columns(*columns):
    return [tuple(cells) for cells in zip(*columns)]
