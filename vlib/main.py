"""Parent process of a check: shards the workload over child processes, merges observations, classifies
violations against the committed known findings, writes evidence / replay files and decides the verdict.

Usage: python -m vlib.main C07 [--tier quick|thorough] [--replay FILE] [--shards N] [--jobs N]
"""
import argparse
import concurrent.futures
import importlib
import json
import os
import shutil
import subprocess
import sys
import tempfile
import time

from . import core


def child_env(seed: int, pid: str, index: int, tier: str, hashseed: str | None = None) -> dict:
    env = dict(os.environ)
    env['PYTHONPATH'] = os.pathsep.join([core.REPO, core.VERIF])
    env['PYTHONDONTWRITEBYTECODE'] = '1'
    env['PYTHONWARNINGS'] = 'ignore'
    env['PYTHONHASHSEED'] = hashseed if hashseed is not None else str(core.subseed(seed, pid, 'hash', index) % 4294967295)
    env['VERIF_SEED'] = str(seed)
    env['VERIF_TIER'] = tier
    env['VERIF_REPO'] = core.REPO
    env.pop('FORML_HOME', None)
    return env


def run_shard(module: str, pid: str, tier: str, seed: int, index: int, total: int, outdir: str, timeout: float, replay):
    out = os.path.join(outdir, f'{index}.json')
    cmd = [core.PYTHON, '-m', 'vlib.shard', module, str(index), str(total), out]
    env = child_env(seed, pid, index, tier)
    if replay:
        cmd.append(replay)
        with open(replay, encoding='utf-8') as fd:
            env['PYTHONHASHSEED'] = str(json.load(fd).get('hashseed', env['PYTHONHASHSEED']))
    home = os.path.join(outdir, f'home{index}')
    os.makedirs(home, exist_ok=True)
    env['FORML_HOME'] = home
    env['HOME'] = home
    env['TMPDIR'] = home
    try:
        proc = subprocess.run(cmd, env=env, cwd=home, capture_output=True, text=True, timeout=timeout, check=False)
    except subprocess.TimeoutExpired:
        return index, None, f'shard {index} watchdog fired after {timeout}s'
    if not os.path.exists(out):
        return index, None, f'shard {index} died rc={proc.returncode}: {proc.stderr[-1500:]}'
    with open(out, encoding='utf-8') as fd:
        return index, json.load(fd), None


def main(argv=None) -> int:
    parser = argparse.ArgumentParser()
    parser.add_argument('property')
    parser.add_argument('--tier', default=os.environ.get('VERIF_TIER', 'quick'), choices=['quick', 'thorough'])
    parser.add_argument('--replay')
    parser.add_argument('--shards', type=int)
    parser.add_argument('--evidence-dir', help='write evidence/replay here instead of /verif (mutation self-tests)')
    parser.add_argument('--jobs', type=int, default=int(os.environ.get('VERIF_JOBS', '16')))
    args = parser.parse_args(argv)
    pid = args.property.upper()
    if args.replay:
        args.replay = os.path.abspath(args.replay)  # shards run inside their scratch directory
    seed = int(os.environ.get('VERIF_SEED', '0') or 0)
    modname = f'checks.{pid.lower()}'
    sys.path.insert(0, core.VERIF)
    module = importlib.import_module(modname)
    t0 = time.time()
    total = 1 if args.replay else (args.shards or module.shards(args.tier))
    timeout = float(os.environ.get('VERIF_TIMEOUT', getattr(module, 'TIMEOUT', {}).get(args.tier, 1500 if args.tier == 'quick' else 7200)))
    outdir = tempfile.mkdtemp(prefix=f'verif-{pid}-')
    merged = core.Ctx(pid, args.tier, seed)
    vkeys: dict[str, int] = {}
    try:
        with concurrent.futures.ThreadPoolExecutor(max_workers=max(1, min(args.jobs, total))) as pool:
            futures = [
                pool.submit(run_shard, modname, pid, args.tier, seed, i, total, outdir, timeout, args.replay)
                for i in range(total)
            ]
            for future in concurrent.futures.as_completed(futures):
                index, result, error = future.result()
                if error:
                    merged.inconclusive(error)
                    continue
                for key, value in result['counters'].items():
                    merged.count(key, value)
                merged.shapes.update(result['shapes'])
                for sample in result['samples']:
                    merged.sample(sample)
                merged.violations.extend(result['violations'])
                for key, value in result['vkeys'].items():
                    vkeys[key] = vkeys.get(key, 0) + value
                merged.inconclusives.extend(result['inconclusives'])
                for key, value in result['notes'].items():
                    if isinstance(value, list):
                        for item in value:
                            merged.note_set(key, item)
                    elif isinstance(value, (int, float)):
                        merged.note_max(key, value)
                    else:
                        merged.notes[key] = value
    finally:
        shutil.rmtree(outdir, ignore_errors=True)
        shutil.rmtree('/tmp/dask-scratch-space', ignore_errors=True)

    if not args.replay:
        for counter, floor in module.floors(args.tier).items():
            if merged.counters.get(counter, 0) < floor:
                merged.inconclusive(f'floor not reached: {counter}={merged.counters.get(counter, 0)} < {floor}')

    known = {f['key']: f for f in core.load_known() if f['property'] == pid and f.get('status', 'known') == 'known'}
    fresh: dict[str, list[dict]] = {}
    hits: dict[str, int] = {}
    for violation in merged.violations:
        if violation['key'] in known:
            hits[violation['key']] = vkeys.get(violation['key'], 1)
        else:
            fresh.setdefault(violation['key'], []).append(violation)
    for key in sorted(hits):
        print(f'KNOWN-FINDING: property={pid} {key}: {known[key]["what"]} (observed {hits[key]}x in this run)')
    exit_code = 0
    outroot = args.evidence_dir or core.VERIF
    os.makedirs(os.path.join(outroot, 'replay'), exist_ok=True)
    for key in sorted(fresh):
        first = fresh[key][0]
        path = os.path.join(outroot, 'replay', f'{pid}-{core.digest([key, first["witness"]], 10)}.json')
        with open(path, 'w', encoding='utf-8') as fd:
            json.dump(
                core.jsonable(
                    {'property': pid, 'key': key, 'what': first['what'], 'witness': first['witness'], 'tier': args.tier,
                     'seed': seed, 'hashseed': first['hashseed'], 'occurrences': vkeys.get(key, len(fresh[key])),
                     'more': [v['witness'] for v in fresh[key][1:4]]}
                ),
                fd, indent=1,
            )
        print(f'VIOLATION property={pid} replay={path}')
        print(f'  mechanism={key}: {first["what"][:600]}')
        exit_code = 1
    if exit_code == 0 and merged.inconclusives:
        for reason in merged.inconclusives[:5]:
            print(f'INCONCLUSIVE property={pid} {reason[:2000]}')
        exit_code = 2

    wall = time.time() - t0
    if not args.replay:
        coverage = {
            'evaluations': merged.counters.get('evaluations', 0),
            'distinct_nontrivial': len(merged.shapes),
            'rule': module.RULE,
            'samples': core.jsonable(merged.samples),
            'exhaustive': bool(getattr(module, 'EXHAUSTIVE', False)),
            'counters': dict(sorted(merged.counters.items())),
            'observed': core.jsonable(merged.notes),
            'shards': total,
            'known_findings_hit': hits,
            'fresh_violation_keys': sorted(fresh),
            'inconclusive': merged.inconclusives[:5],
            'verdict': {0: 'held on what was observed', 1: 'violated', 2: 'inconclusive'}[exit_code],
        }
        evidence = {
            'property_id': pid, 'tier': args.tier, 'seed': seed, 'level': module.LEVEL, 'coverage': coverage,
            'assumptions': list(module.ASSUMPTIONS), 'wall_s': round(wall, 2), 'violations': len(fresh),
        }
        os.makedirs(os.path.join(outroot, 'evidence'), exist_ok=True)
        with open(os.path.join(outroot, 'evidence', f'{pid}.json'), 'w', encoding='utf-8') as fd:
            json.dump(evidence, fd, indent=1, sort_keys=True)
    verdict = {0: 'HELD', 1: 'VIOLATED', 2: 'INCONCLUSIVE'}[exit_code]
    print(
        f'{verdict} property={pid} tier={args.tier} seed={seed} evaluations={merged.counters.get("evaluations", 0)} '
        f'distinct={len(merged.shapes)} known={len(hits)} wall={wall:.1f}s'
    )
    return exit_code


if __name__ == '__main__':
    sys.exit(main())
