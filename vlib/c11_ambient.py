"""C11 ambient workload (DESIGN 3.5): pytest plugin evaluating the topology invariants of the property after every
outermost port / train / segment / composition call made by the repository's own tests.

Usage: ``python -m pytest -p vlib.c11_ambient <tests>`` with ``C11_AMBIENT_OUT=<json file>``.
Nodes are tracked per test (constructor wrapper, weak references).
"""
import json
import os
import weakref

from forml.flow._graph import atomic, port, span
from forml.flow._suite import assembly

STATE = {'nodes': [], 'depth': 0, 'test': None, 'checks': 0, 'calls': 0, 'violations': [], 'tests': 0, 'maxnodes': 0}


def _invariants():
    nodes = [n for n in (r() for r in STATE['nodes']) if n is not None]
    STATE['maxnodes'] = max(STATE['maxnodes'], len(nodes))
    bad = set()
    pubs = {}
    for node in nodes:
        if not isinstance(node, atomic.Worker):
            continue
        for index, subs in enumerate(node.output):
            for sub in subs:
                pubs.setdefault((id(sub.node), repr(sub.port)), set()).add((id(node), index))
                if sub.node is node:
                    bad.add('self-feed')
                if isinstance(sub.node, atomic.Worker) and sub.port not in sub.node.input:
                    bad.add('edge-without-registration')
        ports = node.input
        if any(isinstance(p, port.Apply) for p in ports) and any(isinstance(p, (port.Train, port.Label)) for p in ports):
            bad.add('apply-train-mix')
        if node.trained and any(node.output):
            bad.add('trained-publishes')
        if sum(1 for m in node.group if m.trained) > 1:
            bad.add('group-two-trained')
    if any(len(v) > 1 for v in pubs.values()):
        bad.add('two-publishers')
    STATE['checks'] += 1
    for name in sorted(bad):
        if len(STATE['violations']) < 50:
            STATE['violations'].append({'invariant': name, 'test': STATE['test']})


def _wrap(owner, name):
    original = getattr(owner, name)

    def wrapper(*args, **kwargs):
        STATE['depth'] += 1
        try:
            return original(*args, **kwargs)
        finally:
            STATE['depth'] -= 1
            if STATE['depth'] == 0:
                STATE['calls'] += 1
                _invariants()

    wrapper.__name__ = getattr(original, '__name__', name)
    wrapper.__doc__ = getattr(original, '__doc__', None)
    setattr(owner, name, staticmethod(wrapper) if name == '__new__' else wrapper)


def _install():
    init = atomic.Node.__init__

    def tracked(self, *args, **kwargs):
        init(self, *args, **kwargs)
        STATE['nodes'].append(weakref.ref(self))

    atomic.Node.__init__ = tracked
    _wrap(port.Publishable, 'publish')
    _wrap(port.Subscriptable, 'subscribe')
    _wrap(atomic.Future.PubSub, 'subscribe')
    _wrap(atomic.Worker, 'train')
    _wrap(span.Segment, 'extend')
    _wrap(span.Segment, 'copy')
    _wrap(assembly.Trunk, 'extend')


_install()


def pytest_runtest_setup(item):
    STATE['nodes'] = []
    STATE['test'] = item.nodeid
    STATE['tests'] += 1


def pytest_sessionfinish(session, exitstatus):  # pylint: disable=unused-argument
    out = os.environ.get('C11_AMBIENT_OUT')
    if out:
        with open(out, 'w', encoding='utf-8') as fd:
            json.dump({k: v for k, v in STATE.items() if k not in ('nodes', 'depth', 'test')}, fd)
