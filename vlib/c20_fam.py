"""C20 helper: provider families as real python packages - materialiser, scenario executor and registration model.

A *family spec* (JSON-able) describes one fresh provider hierarchy::

    {'generic': bool,                       # roots are typing.Generic (children subclass Root[int])
     'default': [alias, {param: value}] | None,   # ``default=`` of the first root (Meta.__call__)
     'paths': {'plug': 'Root', 'ext': 'Mid0'},    # search-path sub-package -> class of base.py declaring it (path=[...])
     'ghost': bool,                         # additionally declare a search path that does not exist (explicit preload)
     'classes': [{'name', 'module', 'parent', 'abstract', 'alias', 'nested'}, ...]}   # abstract: False | True | 'inner'

``classes`` lists the roots first (``parent`` None, ``module`` 'base'), parents always precede children.  Modules are
relative to the family package; 'base' holds the roots (and optionally abstract intermediates), every other module
holding classes is a *unit* whose import order is permuted.  The package is written once (``materialise``) and made
importable under a fresh top-level name per scenario through a symlink, so that every scenario sees fresh classes and
therefore fresh banks (forml keys its banks by module + qualname of the root class).

Run as ``python -m vlib.c20_fam <jobs.json>`` it executes the listed scenarios under the PYTHONHASHSEED of the process
and prints the outcomes as JSON (used for the cross-hash-seed comparison).
"""
import importlib
import itertools
import json
import os
import shutil
import sys

UNKNOWN_REFS = ['a:nosuch', 'qx', 'qn', 'qz']


# ---------------------------------------------------------------- spec accessors (shared by executor and model)
def by_name(spec):
    return {c['name']: c for c in spec['classes']}


def chain(spec, name):
    """The class and its ancestors, nearest first (== the banks forml registers it with)."""
    classes = by_name(spec)
    out = []
    while name is not None:
        out.append(name)
        name = classes[name]['parent']
    return out


def qualname(cls):
    return f'Holder_{cls["name"]}.{cls["name"]}' if cls['nested'] else cls['name']


def units(spec):
    """Modules (other than base) holding classes, in spec order."""
    out = []
    for cls in spec['classes']:
        if cls['module'] != 'base' and cls['module'] not in out:
            out.append(cls['module'])
    return out


def refkeys(spec):
    """All reference keys looked up in a scenario: every alias, every class by qualified name, unknown ones."""
    keys = []
    for cls in spec['classes']:
        if cls['alias'] and 'a:' + cls['alias'] not in keys:
            keys.append('a:' + cls['alias'])
    keys.extend('q:' + c['name'] for c in spec['classes'])
    return keys + UNKNOWN_REFS


def primary(spec, unit):
    """The reference a lazy scenario looks up to get the unit imported: alias of its first aliased class, else the
    qualified name of its first class."""
    members = [c for c in spec['classes'] if c['module'] == unit]
    for cls in members:
        if cls['alias']:
            return chain(spec, cls['name'])[-1], 'a:' + cls['alias']
    return chain(spec, members[0]['name'])[-1], 'q:' + members[0]['name']


def scenarios(spec, limit=None):
    """All orders of the units x {eager import, lazy lookup}."""
    out = []
    for order in itertools.permutations(units(spec)):
        out.append(['eager', list(order)])
        out.append(['lazy', list(order)])
    return out if limit is None else out[:limit]


# ---------------------------------------------------------------- materialiser
HEADER = (
    'import abc, importlib, typing\n'
    "_PKG = __name__.split('.')[0]\n"
)


def class_source(spec, cls, local):
    """Source of one class statement; ``local`` maps class name -> expression valid in this module."""
    classes = by_name(spec)
    indent = '    ' if cls['nested'] else ''
    lines = []
    if cls['nested']:
        lines.append(f'class Holder_{cls["name"]}:')
    if cls['parent'] is None:
        bases = ['provider.Service'] + (['typing.Generic[_T]'] if spec['generic'] else [])
    else:
        parent = local[cls['parent']]
        if spec['generic'] and classes[cls['parent']]['parent'] is None:
            parent += '[int]'
        bases = [parent]
    kwargs = []
    if cls['alias']:
        kwargs.append(f'alias={cls["alias"]!r}')
    owned = [p for p, owner in sorted(spec['paths'].items()) if owner == cls['name']]
    if spec.get('ghost') and cls['parent'] is None and cls['name'] == spec['classes'][0]['name']:
        owned.append('ghost')
    if owned:
        kwargs.append('path=[' + ', '.join(f"_PKG + '.{p}'" for p in owned) + ']')
    if spec['default'] and cls['name'] == spec['classes'][0]['name']:
        kwargs.append(f'default=({spec["default"][0]!r}, {spec["default"][1]!r})')
    lines.append(f'{indent}class {cls["name"]}({", ".join(bases + kwargs)}):')
    body = []
    if cls['parent'] is None:
        body.append('def __init__(self, **kw):\n    self.kw = kw')
    if cls['abstract'] == 'inner':  # abstract only through an abstract inner class (the way io.Sink is through its Writer)
        body.append('class Part(abc.ABC):\n    @abc.abstractmethod\n    def part(self):\n        """abstract"""')
    elif cls['abstract']:
        body.append(f'@abc.abstractmethod\ndef need_{cls["name"]}(self):\n    """abstract"""')
    else:
        for anc in chain(spec, cls['name'])[1:]:
            if classes[anc]['abstract']:
                body.append(f'def need_{anc}(self):\n    return {cls["name"]!r}')
    if not body:
        body.append('pass')
    for part in body:
        for line in part.split('\n'):
            lines.append(f'{indent}    {line}')
    return '\n'.join(lines) + '\n'


def module_source(spec, module):
    classes = by_name(spec)
    members = [c for c in spec['classes'] if c['module'] == module]
    src = [HEADER]
    if module == 'base':
        src.append('from forml import provider\n')
        if spec['generic']:
            src.append("_T = typing.TypeVar('_T')\n")
    local = {}
    needed = []
    for cls in members:
        parent = cls['parent']
        if parent is not None and classes[parent]['module'] != module and classes[parent]['module'] not in needed:
            needed.append(classes[parent]['module'])
    for index, other in enumerate(needed):
        src.append(f"_m{index} = importlib.import_module(_PKG + '.{other}')\n")
        for cls in spec['classes']:
            if cls['module'] == other:
                local[cls['name']] = f'_m{index}.{qualname(cls)}'
    for cls in members:
        src.append('\n' + class_source(spec, cls, local))
        local[cls['name']] = qualname(cls)
    return ''.join(src)


def materialise(spec, srcdir):
    """Write the family package into srcdir (which becomes the package directory)."""
    os.makedirs(srcdir)
    modules = ['base'] + units(spec)
    packages = {''}
    for path in spec['paths']:
        packages.add(path)
    for module in modules + ['lib.empty']:
        parts = module.split('.')
        for i in range(1, len(parts)):
            packages.add('.'.join(parts[:i]))
    packages.update(m for m in modules if any(o.startswith(m + '.') for o in modules))
    for package in sorted(packages):
        os.makedirs(os.path.join(srcdir, *package.split('.')) if package else srcdir, exist_ok=True)
    for package in sorted(packages):
        target = os.path.join(srcdir, *(package.split('.') if package else []), '__init__.py')
        with open(target, 'w', encoding='utf-8') as fd:
            fd.write(module_source(spec, package) if package in modules else '')
    for module in modules + ['lib.empty']:
        if module in packages:
            continue
        with open(os.path.join(srcdir, *module.split('.')) + '.py', 'w', encoding='utf-8') as fd:
            fd.write(module_source(spec, module) if module in modules else '')


# ---------------------------------------------------------------- executor
class Family:
    """A materialised family; ``run`` executes one scenario under a fresh package name."""

    COUNTER = itertools.count()

    def __init__(self, spec, workdir, tag=None):
        self.spec = spec
        self.workdir = workdir
        self.tag = tag or f'c20f{os.getpid()}x{next(self.COUNTER)}'
        self.srcdir = os.path.join(workdir, self.tag + '_src')
        materialise(spec, self.srcdir)
        if workdir not in sys.path:
            sys.path.insert(0, workdir)
        self.runs = 0

    def close(self):
        shutil.rmtree(self.srcdir, ignore_errors=True)

    def refstring(self, pkg, key):
        classes = by_name(self.spec)
        if key.startswith('a:'):
            return key[2:]
        if key.startswith('q:'):
            cls = classes[key[2:]]
            return f'{pkg}.{cls["module"]}:{qualname(cls)}'
        return {'qx': f'{pkg}.lib.empty:Nope', 'qn': f'{pkg}.lib.absent:Nope', 'qz': f'{pkg}_absent.mod:Nope'}[key]

    def outcome(self, pkg, thunk):
        """Label of what the call yields: 'C:<name>' class of the spec, 'I:<name>:<kw>' instance, 'X:..' any other
        class, 'ok' anything else; 'missing' / 'unexpected' / 'raise:<Type>' for errors."""
        import forml

        names = {(c['module'], qualname(c)): c['name'] for c in self.spec['classes']}
        try:
            result = thunk()
        except forml.MissingError:
            return 'missing'
        except forml.UnexpectedError:
            return 'unexpected'
        except Exception as err:  # pylint: disable=broad-except
            return 'raise:' + type(err).__name__
        if result is None:
            return 'ok'
        kind, klass = ('C', result) if isinstance(result, type) else ('I', type(result))
        module = getattr(klass, '__module__', '?')
        rel = module[len(pkg) + 1:] if module.startswith(pkg + '.') else module
        name = names.get((rel, getattr(klass, '__qualname__', '?')))
        if not name:
            return f'X:{module}:{getattr(klass, "__qualname__", "?")}'
        if kind == 'I':
            return f'I:{name}:' + json.dumps(getattr(result, 'kw', None), sort_keys=True)
        return f'C:{name}'

    def run(self, mode, order, extra_kw=None):
        """-> {'imports': {unit: outcome}, 'first': [[bank, ref, outcome]...], 'lookups': [[bank, ref, outcome]...],
        'default': outcome | None}"""
        pkg = f'{self.tag}r{self.runs}'
        self.runs += 1
        link = os.path.join(self.workdir, pkg)
        os.symlink(self.srcdir, link)
        importlib.invalidate_caches()
        result = {'imports': {}, 'first': [], 'lookups': [], 'default': None}
        classes = by_name(self.spec)
        try:
            try:
                base = importlib.import_module(pkg + '.base')
            except Exception as err:  # pylint: disable=broad-except
                result['base'] = f'raise:{type(err).__name__}: {err}'[:300]
                return result
            if mode == 'eager':
                for unit in order:
                    result['imports'][unit] = self.outcome(pkg, lambda u=unit: importlib.import_module(f'{pkg}.{u}') and None)
            else:
                for unit in order:
                    root, key = primary(self.spec, unit)
                    ref = self.refstring(pkg, key)
                    result['first'].append([root, key, self.outcome(pkg, lambda r=root, s=ref: getattr(base, r)[s])])
            for name in [c['name'] for c in self.spec['classes']]:
                holder = sys.modules.get(f'{pkg}.{classes[name]["module"]}')  # only banks whose class exists by now
                for part in qualname(classes[name]).split('.'):
                    holder = getattr(holder, part, None)
                if holder is None:
                    continue
                for key in refkeys(self.spec):
                    ref = self.refstring(pkg, key)
                    result['lookups'].append([name, key, self.outcome(pkg, lambda h=holder, s=ref: h[s])])
            if self.spec['default']:
                root = getattr(base, self.spec['classes'][0]['name'])
                result['default'] = self.outcome(pkg, lambda: root(**(extra_kw or {})))
        finally:
            self.cleanup(pkg)
            os.unlink(link)
        return result

    def open(self, eager=()):
        """Make the family importable under a fresh name (for callers driving their own lookups) -> (pkg, base)."""
        pkg = f'{self.tag}r{self.runs}'
        self.runs += 1
        os.symlink(self.srcdir, os.path.join(self.workdir, pkg))
        importlib.invalidate_caches()
        base = importlib.import_module(pkg + '.base')
        for unit in eager:
            importlib.import_module(f'{pkg}.{unit}')
        return pkg, base

    def shut(self, pkg):
        self.cleanup(pkg)
        os.unlink(os.path.join(self.workdir, pkg))

    @staticmethod
    def cleanup(pkg):
        """Forget the scenario's modules; drop its banks (memory only - all lookups are done by now)."""
        try:
            from forml import provider
        except Exception:  # pylint: disable=broad-except
            provider = None
        for name, module in list(sys.modules.items()):
            if name == pkg or name.startswith(pkg + '.') or name.startswith(pkg + '_absent'):
                for value in list(vars(module).values()):
                    if isinstance(value, type) and str(getattr(value, '__module__', '')).startswith(pkg):
                        for inner in [value, *(v for v in vars(value).values() if isinstance(v, type))]:
                            try:
                                provider.BANK.pop(inner, None)
                                provider.DEFAULTS.pop(inner, None)
                            except Exception:  # pylint: disable=broad-except
                                pass
                del sys.modules[name]


# ---------------------------------------------------------------- registration model (oracle)
def registration(spec, order):
    """Model of eager registration: -> (per-bank {ref: class}, rejected class names, import outcome per unit).

    A class registers with itself and every ancestor; a reference already claimed by another class in one of those
    banks rejects the registration (the class statement raises, so does the import of its module).
    """
    classes = by_name(spec)
    started, sequence = set(), []

    def load(module):
        parts = module.split('.')
        for i in range(1, len(parts)):
            prefix = '.'.join(parts[:i])
            if prefix not in started:
                load(prefix)
        if module in started:
            return
        started.add(module)
        members = [c for c in spec['classes'] if c['module'] == module]
        for cls in members:
            if cls['parent'] is not None and classes[cls['parent']]['module'] != module:
                load(classes[cls['parent']]['module'])
        sequence.extend((c['name'], module) for c in members)

    bank = {c['name']: {} for c in spec['classes']}
    rejected = set()
    refused = {}  # refused class -> banks holding nothing of it
    imports = {}
    load('base')
    done = 0
    for unit in order:
        load(unit)
        imports[unit] = 'ok'
        for name, _ in sequence[done:]:
            cls = classes[name]
            refs = ['q:' + name] + (['a:' + cls['alias']] if cls['alias'] else [])
            holders = chain(spec, name)
            for position, holder in enumerate(holders):
                if any(r in bank[holder] and bank[holder][r] != name for r in refs):
                    rejected.add(name)
                    # the refusing bank checks every reference before registering any: it (and the banks above it, never
                    # reached) hold nothing of the refused class - the banks below it already registered it
                    refused[name] = set(holders[position:])
                    imports[unit] = 'unexpected'
                    break
                if not cls['abstract']:
                    for ref in refs:
                        bank[holder][ref] = name
        done = len(sequence)
    # base classes registered before any unit
    bank['#refused'] = refused
    return bank, rejected, imports


def claimants(spec, key, holder):
    """Concrete classes at or below ``holder`` carrying the reference."""
    out = []
    for cls in spec['classes']:
        if cls['abstract'] or holder not in chain(spec, cls['name']):
            continue
        if key == 'q:' + cls['name'] or (cls['alias'] and key == 'a:' + cls['alias']):
            out.append(cls['name'])
    return out


def collisions(spec):
    """Aliases claimed by more than one concrete class below a common root."""
    out = set()
    for root in [c['name'] for c in spec['classes'] if c['parent'] is None]:
        for cls in spec['classes']:
            if cls['alias'] and len(claimants(spec, 'a:' + cls['alias'], root)) > 1:
                out.add('a:' + cls['alias'])
    return out


def discoverable(spec, holder, name):
    """Whether a lazy alias lookup through ``holder`` must find class ``name``: the holder's bank knows a search path
    (declared by a class of base.py at or below the holder... or above it only if the holder is that class) whose
    package, or whose sub-module named like the alias, defines the class."""
    classes = by_name(spec)
    cls = classes[name]
    for path, owner in spec['paths'].items():
        if holder not in chain(spec, owner):
            continue  # the path was registered with the owner and its ancestors only
        if cls['module'] == path or cls['module'] == f'{path}.{cls["alias"]}':
            return True
    return False


def allowed(spec, mode, order):
    """-> (imports {unit: outcome}, function (holder, key) -> set of acceptable outcomes)."""
    classes = by_name(spec)
    roots = [c['name'] for c in spec['classes'] if c['parent'] is None]
    clash = collisions(spec)
    if mode == 'eager':
        bank, rejected, imports = registration(spec, order)
    else:
        bank, rejected, imports = None, set(), {}

    def verdict(holder, key):
        under = claimants(spec, key, holder)
        if mode == 'eager' and not clash:
            return {'C:' + under[0]} if under else {'missing'}
        if mode == 'eager' and key.startswith('q:') and holder in bank['#refused'].get(key[2:], ()):
            # the qualified name of a class refused by this bank (or never offered to it): never that class - the lookup
            # re-imports its module, which raises the collision again, or reports it missing
            return {'missing', 'unexpected'}
        if mode == 'eager':
            registered = bank[holder].get(key)
            if registered and holder in roots and key in clash:
                return {'C:' + registered}  # the first registration stands
            if registered and registered not in rejected and key not in clash:
                return {'C:' + registered}
            # not (or only partially) registered: the lookup falls back to lazy loading, which may re-import the module
            # of a rejected class (raising the collision again); what lower banks hold of a rejected class is not fixed
            return {'C:' + n for n in under} | {'missing', 'unexpected'}
        if clash:  # latent collision: which claimant is met first (or whether the clash surfaces) is not fixed
            return {'C:' + n for n in under} | {'missing', 'unexpected'}
        if not under:
            return {'missing'}
        found = {'C:' + under[0]}
        if key.startswith('q:'):
            return found
        if not discoverable(spec, holder, under[0]):
            found.add('missing')
        return found

    return imports, verdict


# ---------------------------------------------------------------- subprocess entry point
def main(argv):
    """jobs.json: {'workdir': str, 'jobs': [{'spec': ..., 'scenarios': [[mode, order]...]}]} -> stdout JSON."""
    import logging
    import warnings

    warnings.filterwarnings('ignore')
    logging.disable(logging.CRITICAL)
    import forml  # noqa: F401  pylint: disable=unused-import  (a broken forml import must fail the child, not a scenario)
    from forml import provider  # noqa: F401  pylint: disable=unused-import

    with open(argv[1], encoding='utf-8') as fd:
        jobs = json.load(fd)
    out = []
    for index, job in enumerate(jobs['jobs']):
        # identical package names in every child: differences between children are due to PYTHONHASHSEED alone
        family = Family(job['spec'], jobs['workdir'], tag=f'c20h{index}')
        try:
            out.append([family.run(mode, order, {'q': 2}) for mode, order in job['scenarios']])
        finally:
            family.close()
    with open(argv[2], 'w', encoding='utf-8') as fd:
        json.dump({'hashseed': os.environ.get('PYTHONHASHSEED'), 'results': out}, fd)
    return 0


if __name__ == '__main__':
    sys.exit(main(sys.argv))
