"""C09 - the pool feed: a minimal ``io.Feed`` whose advertised ``sources`` mapping is whatever the check registered for
its slot.  Lives in an importable module because lazily configured feeds are instantiated by forml itself from a
``setup.Feed`` descriptor: ``io.Feed['vlib.c09_pool:PoolFeed'](**params)`` (provider bank lookup by qualified name).

Imports forml at module level - only import it from inside ``run`` / ``replay``.
"""
from forml import io
from forml.provider.feed.reader import alchemy

#: slot name -> {dsl.Source: sqlalchemy selectable} advertised by the feed instantiated for that slot
REGISTRY: dict = {}
#: slot names in the order forml instantiated them (lazy slots are created on first use by Importer.__iter__)
CREATED: list = []
PROVIDER = f'{__name__}:PoolFeed'


class PoolFeed(io.Feed):
    """Feed advertising exactly REGISTRY[slot]; reads through the stock SQLAlchemy reader (and hence parser)."""

    Reader = alchemy.Reader

    def __init__(self, slot: str, **readerkw):
        super().__init__(**readerkw)
        self.slot = slot
        CREATED.append(slot)

    @property
    def sources(self):
        return REGISTRY[self.slot]
