"""Lifecycle actions on generated projects, each in a *fresh process* through the real runtime drivers.

    python -m vlib.lifecycle <job.json>

job = {'registry': dir, 'project': 'p', 'release': '1', 'generation': None|int, 'action': 'train'|'apply'|'perftrack'|
       'serve'|'serve_many', 'nonce': str, 'out': path, 'gc': 'default'|'disabled'|'eager', 'entries': [...]}

The project package (written by ``write_project``) builds its pipeline from an expression AST (vlib.exprgen) over
symbolic actors; the feed (``SymFeed``) delivers the one-cell symbolic dataset ``src(nonce)`` / ``entry(id)`` through the
real ``io.Feed.load`` / extract drivers; the sink records the term it receives.
"""
import base64
import gc
import json
import os
import pickle
import sys
import typing

from forml import flow, io, project
from forml.io import dsl, layout

from . import projgen, symbolic
from .symbolic import NONE, Term


class SymTable:
    """What the symbolic feed 'reads': a table whose only content is its provenance term."""

    def __init__(self, value: Term):
        self.value = value

    def to_rows(self):
        return Term('rows', self.value)

    def __term__(self) -> Term:
        return self.value


class SymProducer:
    """Feed producer: (statement, entry) -> table; picklable."""

    def __init__(self, nonce: str):
        self.nonce = nonce

    def __repr__(self):
        return f'SymProducer({self.nonce})'

    def __call__(self, statement, entry=None):
        if entry is not None:
            return SymTable(Term('entry', *(symbolic.term(v) for row in entry.data.to_rows() for v in row)))
        return SymTable(Term('src', self.nonce))


class Catalog(dsl.Schema):
    """The only table the generated projects read."""

    rid = dsl.Field(dsl.Integer())


class SymFeed(io.Feed):
    """Feed going through the real Feed.load / extract.Operator / drivers with a symbolic producer."""

    def __init__(self, nonce: str = ''):
        super().__init__()
        self._nonce = nonce

    @property
    def sources(self):
        return {Catalog: None}

    def producer(self, sources, features, **kwargs):  # pylint: disable=arguments-differ
        return SymProducer(self._nonce)


class Recorder(flow.Actor):
    """Sink actor: appends the pickled term of whatever reaches the sink to a file."""

    def __init__(self, path: str):
        self.path = path

    def apply(self, *features):
        value = symbolic.term(features[0] if len(features) == 1 else features)
        with open(self.path, 'ab') as fd:
            fd.write(base64.b64encode(pickle.dumps(value)) + b'\n')
        return value

    def get_params(self):
        return {'path': self.path}

    def set_params(self, **params):
        self.path = params.get('path', self.path)


class SymSink(io.Sink):
    """Sink recording what it receives."""

    def __init__(self, path: str):
        super().__init__()
        self._path = path

    def save(self, schema):
        from forml.pipeline import wrap

        return wrap.Operator.mapper(Recorder, path=self._path)()


PIPELINE_PY = '''
import json, os
from forml import project
from vlib import exprgen
INSTANCE = exprgen.build(json.loads({ast!r}), os.environ.get('VERIF_ACTOR_LOG'))
project.setup(INSTANCE)
'''
SOURCE_PY = '''
import os
from forml import project
from vlib import lifecycle, symbolic
INSTANCE = project.Source.query(lifecycle.Catalog.select(lifecycle.Catalog.rid),
                                labels=symbolic.builder('split', False, 2, os.environ.get('VERIF_ACTOR_LOG')))
project.setup(INSTANCE)
'''
EVALUATION_PY = '''
from forml import evaluation, project
from vlib import exprgen
INSTANCE = project.Evaluation(evaluation.Function(exprgen.sym_metric, reducer=exprgen.sym_reduce),
                              evaluation.HoldOut(splitter=exprgen.SymFolds.builder(name='cvE', n=2)))
project.setup(INSTANCE)
'''


def write_project(root, name: str, version: str, ast: dict):
    """Directory package whose pipeline is the given expression."""
    return projgen.write_package(root, name, version, package='vproj', files={
        'pipeline.py': PIPELINE_PY.format(ast=json.dumps(ast)),
        'source.py': SOURCE_PY,
        'evaluation.py': EVALUATION_PY,
    })


def source_terms(nonce: str) -> tuple[Term, Term, Term]:
    """(X, Y, Xa) the pipeline receives in a batch run with the given nonce."""
    table = Term('src', nonce)
    split = Term('app', 'split', NONE, table)
    return Term('out', 0, split), Term('out', 1, split), Term('rows', table)


def entry_term(values) -> Term:
    return Term('rows', Term('entry', *(symbolic.term(v) for v in values)))


def run(job: dict) -> dict:
    from forml.io import asset
    from forml.provider.runner import dask as daskrunner
    from forml.provider.runner import pyfunc

    schedule = job.get('gc', 'default')
    if schedule == 'disabled':
        gc.disable()
    elif schedule == 'eager':
        gc.set_threshold(1, 1, 1)
    if job.get('race'):
        # interleaving: right after this action's first state read another process trains and commits a generation
        import subprocess

        from forml.provider.registry.filesystem import posix

        original, fired = posix.Registry.read, []

        def read(self, *args, **kwargs):
            result = original(self, *args, **kwargs)
            if not fired:
                fired.append(True)
                env = dict(os.environ)
                proc = subprocess.run([sys.executable, '-m', 'vlib.lifecycle', job['race']], env=env, capture_output=True,
                                      text=True, timeout=600, check=False)
                fired.append(proc.returncode)
            return result

        posix.Registry.read = read
    if job.get('window'):
        # interleaving: after every rename of this training's commit (posix Registry.close) another process loads the latest
        # generation and applies it - it must see the previous generation or the complete new one, never a listed
        # generation whose states are not in place yet
        import pathlib
        import subprocess

        from forml.provider.registry.filesystem import posix

        commit, windows = posix.Registry.close, []

        def close(self, *args, **kwargs):
            rename = pathlib.Path.rename

            def observed(path, target):
                done = rename(path, target)
                with open(job['window'], encoding='utf-8') as fd:
                    reader = json.load(fd)
                reader['nonce'] = f"{reader['nonce']}k{len(windows) + 1}"
                reader['out'] = f"{reader['out']}.w{len(windows) + 1}"
                with open(reader['out'] + '.job', 'w', encoding='utf-8') as fd:
                    json.dump(reader, fd)
                proc = subprocess.run([sys.executable, '-m', 'vlib.lifecycle', reader['out'] + '.job'], env=dict(os.environ),
                                      capture_output=True, text=True, timeout=600, check=False)
                windows.append({'rc': proc.returncode, 'out': reader['out'], 'nonce': reader['nonce'], 'renamed': os.path.basename(str(target))})
                return done

            pathlib.Path.rename = observed
            try:
                return commit(self, *args, **kwargs)
            finally:
                pathlib.Path.rename = rename

        posix.Registry.close = close
    if job.get('prime'):
        # another registry holding the same project / release / generation keys is read first in this process
        other = projgen.directory(job['prime']).get(job['project']).get(job['release'])
        for key in other.list():
            generation = other.get(key)
            for index in range(len(generation.tag.states)):
                generation.get(index)
    adir = projgen.directory(job['registry'])
    instance = asset.Instance(job['project'], job['release'], job.get('generation'), adir)
    feed = SymFeed(job['nonce'])
    sinkfile = job['out'] + '.sink'
    result: dict = {'action': job['action'], 'error': None}
    if job.get('race'):
        result['race_fired'] = fired
    if job.get('window'):
        result['windows'] = windows
    try:
        if job['action'] in ('train', 'apply', 'perftrack'):
            for again in range(job.get('repeat') or 1):  # a long history in one go: every run re-resolves "the latest" afresh
                if again:
                    projgen.clear_caches()
                    instance = asset.Instance(job['project'], job['release'], job.get('generation'), projgen.directory(job['registry']))
                runner = daskrunner.Runner(instance, feed, SymSink(sinkfile), scheduler=job.get('scheduler', 'synchronous'))
                with runner:
                    getattr(runner, {'train': 'train', 'apply': 'apply', 'perftrack': 'eval_perftrack'}[job['action']])()
        elif job['action'] == 'serve':
            runner = pyfunc.Runner(instance, feed, None)
            outs = []
            for values in job['entries']:
                entry = layout.Entry(Catalog.schema, layout.Dense.from_rows([list(values)]))
                outs.append(base64.b64encode(pickle.dumps(symbolic.term(runner.call(entry)))).decode())
            result['served'] = outs
        else:
            raise ValueError(job['action'])
    except Exception as err:  # pylint: disable=broad-except
        import traceback

        result['error'] = f'{type(err).__name__}: {err}'
        result['trace'] = traceback.format_exc()[-2000:]
    sunk = []
    if os.path.exists(sinkfile):
        with open(sinkfile, 'rb') as fd:
            sunk = [line.strip().decode() for line in fd if line.strip()]
        os.unlink(sinkfile)
    result['sink'] = sunk
    # what a fresh reader sees in the registry afterwards
    projgen.clear_caches()
    release = projgen.directory(job['registry']).get(job['project']).get(job['release'])
    gens = []
    for key in release.list():
        generation = release.get(key)
        states = []
        for index in range(len(generation.tag.states)):
            states.append(base64.b64encode(generation.get(index)).decode())
        gens.append({'key': int(key), 'states': states})
    result['generations'] = gens
    return result


def decode(blob: str) -> Term:
    return pickle.loads(base64.b64decode(blob))


def main():
    from . import core

    core.quiet_stderr()
    with open(sys.argv[1], encoding='utf-8') as fd:
        job = json.load(fd)
    result = run(job)
    with open(job['out'], 'w', encoding='utf-8') as fd:
        json.dump(result, fd)


if __name__ == '__main__':
    main()
