"""C08 helper: user-defined DSL functions that carry the NAME of a stock function (a project's own ``Count`` / ``Abs`` /
``Year`` next to forml's) - different classes in a different module, so different operators of a statement."""
from forml.io.dsl import function


class Count(function.Count):
    """A project's own counting aggregate."""


class Abs(function.Abs):
    """A project's own absolute value."""


class Year(function.Year):
    """A project's own year extraction."""


class Max(function.Max):
    """A project's own maximum."""
