"""Crash-point injection for file-system based persistence code (used by C05).

A *crash point* is "the k-th observable event of an operation", where the events are

  * audit events (``sys.addaudithook``) of every mutating file-system call below a given root: ``os.mkdir``,
    ``os.rename`` (also raised by ``os.replace``), ``open`` for writing, ``shutil.copyfile/copytree/copystat/copymode``,
    ``os.chmod``, ``os.utime``, ``os.remove``, ``os.rmdir``, ... - they fire *before* the call is made;
  * ``sys.monitoring`` LINE events restricted (``set_local_events``) to the given code objects: every line of the
    ``lines`` code objects (the persistence functions under test) and, for the ``inner`` code objects (stdlib copy
    helpers such as ``shutil.copyfile`` / ``pathlib.Path.write_bytes``), only the lines executed while a destination
    file is open for writing (between an ``open``-for-write audit event and the next audit event).  These give the
    points *inside* a write: after ``open``, after ``write``, before the ``with`` exits.

The operation runs in a **forked child** which calls ``os._exit(97)`` when event k is about to happen: no unwinding, no
``finally``, python-level buffers are lost - exactly what ``kill -9`` does to a process (the model is process death, not
power loss: whatever a completed system call wrote stays written).  Point k therefore means "everything before event k
has happened, nothing from event k on".  The child reports the events it saw through a pipe (unbuffered ``os.write``),
so that the parent can (a) count the events with a dry run and (b) verify that the crashed run followed the same event
sequence as the dry run (determinism of the enumeration).

Nothing is installed in the calling process: the audit hook (which can never be removed) and the monitoring tool only
ever exist in the forked children.
"""
import json
import os
import re
import select
import signal
import sys
import time
import traceback
import typing

CRASHED = 97  # exit status of a child that died at the requested crash point
FAILED = 96  # the operation raised (reported through the pipe)
BROKEN = 98  # harness trouble inside the child
TOOL = 3  # sys.monitoring tool id (0-2 and 5 are reserved for debugger/coverage/profiler/optimizer)

MUTATING = frozenset({
    'os.mkdir', 'os.rename', 'os.remove', 'os.rmdir', 'os.chmod', 'os.chown', 'os.utime', 'os.truncate', 'os.link',
    'os.symlink', 'os.mkfifo', 'os.mknod', 'os.setxattr', 'os.removexattr', 'shutil.copyfile', 'shutil.copymode',
    'shutil.copystat', 'shutil.copytree', 'shutil.move', 'shutil.rmtree', 'shutil.make_archive', 'shutil.unpack_archive',
    'tempfile.mkstemp', 'tempfile.mkdtemp',
})
_WRITE_FLAGS = os.O_WRONLY | os.O_RDWR | os.O_CREAT | os.O_TRUNC | os.O_APPEND
_UUID = re.compile(r'[0-9a-f]{8}-[0-9a-f]{4}-[0-9a-f]{4}-[0-9a-f]{4}-[0-9a-f]{12}|[0-9a-f]{32}')
_TMPNAME = re.compile(r'tmp[a-z0-9_]{8}')


class Outcome(typing.NamedTuple):
    """What happened to the forked child."""

    status: int  # 0 completed, CRASHED died at the crash point, FAILED operation raised, anything else: trouble
    events: list  # canonical descriptors of the events seen (all of them for a dry run, 1..k for a crash run)
    error: typing.Optional[str]  # repr of the exception the operation raised (status FAILED) / harness traceback

    @property
    def completed(self) -> bool:
        return self.status == 0

    @property
    def crashed(self) -> bool:
        return self.status == CRASHED


def canonical(text: str, root: str) -> str:
    """Path text relative to the root with random name parts (uuid state ids, mkstemp names) masked."""
    text = text.replace(root, '<root>')
    text = _UUID.sub('<uuid>', text)
    return _TMPNAME.sub('<tmp>', text)


def _pathish(arg: typing.Any) -> typing.Optional[str]:
    if isinstance(arg, (str, bytes, os.PathLike)):
        try:
            return os.fsdecode(arg)
        except (TypeError, ValueError):
            return None
    path = getattr(arg, 'path', None)  # os.DirEntry
    return path if isinstance(path, str) else None


class _Injector:
    """Lives in the forked child only."""

    def __init__(self, root: str, lines: typing.Sequence, inner: typing.Sequence, crash_at: typing.Optional[int], fd: int):
        self.root = os.path.realpath(root)
        self.lines = {id(c): c for c in lines}
        self.inner = {id(c): c for c in inner}
        self.crash_at = crash_at
        self.fd = fd
        self.armed = False
        self.count = 0
        self.writing = False  # a destination below root is open for writing and no other audit event happened since
        self.busy = False

    # -------------------------------------------------------------- event sink
    def event(self, descriptor: list) -> None:
        self.count += 1
        os.write(self.fd, (json.dumps(descriptor) + '\n').encode())
        if self.crash_at is not None and self.count >= self.crash_at:
            os._exit(CRASHED)  # pylint: disable=protected-access

    # -------------------------------------------------------------- audit hook
    def audit(self, name: str, args: tuple) -> None:
        if not self.armed or self.busy:
            return
        if name == 'open':
            path, mode, flags = (tuple(args) + (None, None, None))[:3]
            writing = (isinstance(mode, str) and bool(set(mode) & set('wax+'))) or (
                not isinstance(mode, str) and isinstance(flags, int) and bool(flags & _WRITE_FLAGS))
            if not writing:
                return
            text = _pathish(path)
            if text is None or not self._below(text):
                return
            self.busy = True
            try:
                self.writing = True
                self.event(["open", canonical(os.path.abspath(text), self.root), mode if isinstance(mode, str) else flags])
            finally:
                self.busy = False
            return
        if name not in MUTATING:
            return
        paths = [p for p in map(_pathish, args) if p is not None]
        if not any(self._below(p) for p in paths):
            return
        self.busy = True
        try:
            self.writing = False
            self.event([name] + [canonical(p, self.root) for p in paths])
        finally:
            self.busy = False

    def _below(self, text: str) -> bool:
        if not os.path.isabs(text):
            text = os.path.abspath(text)
        return text == self.root or text.startswith(self.root + os.sep)

    # -------------------------------------------------------------- line events
    def line(self, code, lineno: int):
        if not self.armed or self.busy:
            return None
        if id(code) in self.inner and not self.writing:
            return None
        self.busy = True
        try:
            self.event(['line', code.co_qualname, lineno])
        finally:
            self.busy = False
        return None

    def install(self) -> None:
        sys.addaudithook(self.audit)
        monitoring = sys.monitoring
        if monitoring.get_tool(TOOL) is not None:
            monitoring.free_tool_id(TOOL)
        monitoring.use_tool_id(TOOL, 'verif-fsfault')
        monitoring.register_callback(TOOL, monitoring.events.LINE, self.line)
        for code in list(self.lines.values()) + list(self.inner.values()):
            monitoring.set_local_events(TOOL, code, monitoring.events.LINE)


def code_of(function: typing.Any):
    """Code object of a function / method / staticmethod / classmethod."""
    function = getattr(function, '__func__', function)
    function = getattr(function, '__wrapped__', function)
    return function.__code__


def run(operation: typing.Callable[[], typing.Any], root: typing.Union[str, os.PathLike], lines: typing.Sequence = (),
        inner: typing.Sequence = (), crash_at: typing.Optional[int] = None, timeout: float = 300.0) -> Outcome:
    """Run ``operation()`` in a forked child with event accounting below ``root``.

    Args:
        operation: zero-argument callable performing the persistence operation (it must build its own registry
                   objects - it runs in a copy of this process).
        root: only file-system events touching this directory count.
        lines: code objects whose every executed line is an event.
        inner: code objects (stdlib copy helpers) whose lines count only while a file below root is open for writing.
        crash_at: 1-based index of the event at which the child dies *before* the event takes effect; ``None`` = dry
                  run (count only).
        timeout: seconds after which a hanging child is killed (status -9).
    """
    root = os.fspath(root)
    rfd, wfd = os.pipe()
    sys.stdout.flush()
    sys.stderr.flush()
    pid = os.fork()
    if pid == 0:  # ---------------------------------------------------------------- child
        status = BROKEN
        try:
            os.close(rfd)
            injector = _Injector(root, lines, inner, crash_at, wfd)
            injector.install()
            try:
                injector.armed = True
                operation()
                injector.armed = False
                status = 0
            except BaseException as err:  # pylint: disable=broad-except
                injector.armed = False
                os.write(wfd, (json.dumps(['!error', repr(err)[:500], traceback.format_exc()[-1200:]]) + '\n').encode())
                status = FAILED
        except BaseException:  # pylint: disable=broad-except
            try:
                os.write(wfd, (json.dumps(['!harness', traceback.format_exc()[-1500:]]) + '\n').encode())
            except OSError:
                pass
        finally:
            os._exit(status)  # pylint: disable=protected-access
    # -------------------------------------------------------------------------------- parent
    os.close(wfd)
    chunks = []
    deadline = time.monotonic() + timeout
    hung = False
    while True:
        ready, _, _ = select.select([rfd], [], [], max(0.0, deadline - time.monotonic()))
        if not ready:  # the child hangs: kill it, the caller gets a status that is neither 0 nor CRASHED
            hung = True
            os.kill(pid, signal.SIGKILL)
            break
        data = os.read(rfd, 65536)
        if not data:
            break
        chunks.append(data)
    os.close(rfd)
    _, raw = os.waitpid(pid, 0)
    status = os.waitstatus_to_exitcode(raw)
    events, error = [], None
    for row in b''.join(chunks).decode(errors='replace').splitlines():
        try:
            item = json.loads(row)
        except ValueError:
            error = f'unparsable event row {row[:80]!r}'
            continue
        if item and item[0] == '!error':
            error = item[1]
        elif item and item[0] == '!harness':
            error = item[1]
        else:
            events.append(item)
    if hung:
        error = f'child did not finish within {timeout}s'
    return Outcome(status, events, error)


def enumerate_points(make_operation: typing.Callable[[str], typing.Callable[[], typing.Any]],
                     fresh_copy: typing.Callable[[str], str], lines: typing.Sequence = (), inner: typing.Sequence = (),
                     only: typing.Union[None, typing.Iterable[int], typing.Callable[[int], typing.Iterable[int]]] = None):
    """Generator over all crash points of one operation.

    ``fresh_copy(label)`` returns the path of a brand-new copy of the state the operation starts from;
    ``make_operation(root)`` returns the operation bound to that copy.  First yields ``('dry', root, outcome)`` for the
    counting run, then ``(k, root, outcome)`` for k = 1..N (or the indices in ``only`` / returned by ``only(N)`` -
    used to split one operation's points over several workers), where ``outcome.events`` are
    the events of the crashed run and ``root`` the directory the dying process left behind.
    """
    root = fresh_copy('dry')
    dry = run(make_operation(root), root, lines, inner)
    yield 'dry', root, dry
    if not dry.completed and dry.status != FAILED:
        return
    total = len(dry.events)
    for k in (range(1, total + 1) if only is None else only(total) if callable(only) else only):
        if not 1 <= k <= total:
            continue
        root = fresh_copy(str(k))
        yield k, root, run(make_operation(root), root, lines, inner, crash_at=k)
