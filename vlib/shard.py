"""Child process of a check: runs one shard of the workload (or one replay) and writes what it observed."""
import faulthandler
import importlib
import json
import os
import sys

from . import core


def main() -> int:
    module, index, total, out = sys.argv[1], int(sys.argv[2]), int(sys.argv[3]), sys.argv[4]
    replay = sys.argv[5] if len(sys.argv) > 5 else None
    faulthandler.enable()
    core.quiet_stderr()
    mod = importlib.import_module(module)
    ctx = core.Ctx(mod.PROPERTY, os.environ.get('VERIF_TIER', 'quick'), int(os.environ.get('VERIF_SEED', '0')), index, total)
    if replay:
        with open(replay, encoding='utf-8') as fd:
            witness = json.load(fd)
        core.guarded(ctx, mod.replay, ctx, witness['witness'])
    else:
        core.guarded(ctx, mod.run, ctx)
    with open(out + '.tmp', 'w', encoding='utf-8') as fd:
        json.dump(core.jsonable(ctx.dump()), fd)
    os.replace(out + '.tmp', out)
    return 0


if __name__ == '__main__':
    sys.exit(main())
