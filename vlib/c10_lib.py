"""C10 helpers that need forml: schemas with an ordinal column of each kind, sqlite tables behind a real
``forml.provider.feed.alchemy.Feed``, end-to-end execution of one extraction window
(``Feed.load`` -> ``flow.compile`` -> interpreter -> alchemy parser -> sqlite) and the ``Runner.train`` harness
(real ``runtime.Runner`` base class, real ``asset.Instance`` over a volatile registry, real ``asset.Tag``).
"""
import datetime
import decimal
import os
import uuid

import pandas
import sqlalchemy

import forml
from forml import flow, project, runtime
from forml.io import asset, dsl
from forml.provider.feed import alchemy

from vlib import symbolic


class OrdInteger(dsl.Schema):
    """Integer ordinal."""

    rid = dsl.Field(dsl.Integer())
    ord = dsl.Field(dsl.Integer())
    lab = dsl.Field(dsl.Integer())


class OrdFloat(dsl.Schema):
    """Float ordinal."""

    rid = dsl.Field(dsl.Integer())
    ord = dsl.Field(dsl.Float())
    lab = dsl.Field(dsl.Integer())


class OrdDate(dsl.Schema):
    """Date ordinal."""

    rid = dsl.Field(dsl.Integer())
    ord = dsl.Field(dsl.Date())
    lab = dsl.Field(dsl.Integer())


class OrdTimestamp(dsl.Schema):
    """Timestamp ordinal."""

    rid = dsl.Field(dsl.Integer())
    ord = dsl.Field(dsl.Timestamp())
    lab = dsl.Field(dsl.Integer())


class OrdString(dsl.Schema):
    """String ordinal."""

    rid = dsl.Field(dsl.Integer())
    ord = dsl.Field(dsl.String())
    lab = dsl.Field(dsl.Integer())


SCHEMA = {'integer': OrdInteger, 'float': OrdFloat, 'date': OrdDate, 'timestamp': OrdTimestamp, 'string': OrdString}
SQLTYPE = {
    'integer': sqlalchemy.Integer,
    'float': sqlalchemy.Float,
    'date': sqlalchemy.Date,
    'timestamp': sqlalchemy.DateTime,
    'string': sqlalchemy.Unicode,
}


def label_of(rid: int) -> int:
    return rid * 3 + 1


# ------------------------------------------------------------------ bound representations
def rep_native(value):
    return value


def rep_str(value):
    if isinstance(value, float):
        return repr(value)
    if isinstance(value, datetime.datetime):
        return value.isoformat(sep=' ')
    if isinstance(value, datetime.date):
        return value.isoformat()
    return str(value)


def rep_isot(value):
    """ISO 8601 with the 'T' separator."""
    return value.isoformat()


def rep_float(value):
    return float(value)


def rep_int_if_integral(value):
    return int(value) if float(value).is_integer() else value


def rep_decimal(value):
    return decimal.Decimal(repr(value))


def rep_datetime(value):
    return datetime.datetime(value.year, value.month, value.day)


def rep_pandas(value):
    return pandas.Timestamp(value)


def rep_date_if_midnight(value):
    if (value.hour, value.minute, value.second, value.microsecond) == (0, 0, 0, 0):
        return value.date()
    return value


def rep_int_if_digits(value):
    return int(value) if value.isdigit() and str(int(value)) == value else value


REPS = {
    'native': rep_native,
    'str': rep_str,
    'isot': rep_isot,
    'float': rep_float,
    'int-if-integral': rep_int_if_integral,
    'decimal': rep_decimal,
    'datetime': rep_datetime,
    'pandas': rep_pandas,
    'date-if-midnight': rep_date_if_midnight,
    'int-if-digits': rep_int_if_digits,
}


class Database:
    """One sqlite file (in the shard's TMPDIR); every dataset goes to a table with a globally unique name so that the
    alchemy feed's on-disk result cache (keyed by the SQL text, a separate concern of property C06) can never serve
    a result of another dataset."""

    def __init__(self, directory: str):
        self.path = os.path.join(directory, f'c10-{uuid.uuid4().hex}.db')
        self.url = f'sqlite:///{self.path}'
        self.engine = sqlalchemy.create_engine(self.url)
        with self.engine.begin() as conn:
            conn.exec_driver_sql('PRAGMA synchronous=OFF')

    def table(self, kind: str, ordinals) -> str:
        name = f'c10_{uuid.uuid4().hex}'
        meta = sqlalchemy.MetaData()
        table = sqlalchemy.Table(
            name,
            meta,
            sqlalchemy.Column('rid', sqlalchemy.Integer),
            sqlalchemy.Column('ord', SQLTYPE[kind]),
            sqlalchemy.Column('lab', sqlalchemy.Integer),
        )
        meta.create_all(self.engine)
        with self.engine.begin() as conn:
            conn.execute(table.insert(), [{'rid': i, 'ord': o, 'lab': label_of(i)} for i, o in enumerate(ordinals)])
        return name

    def feed(self, kind: str, name: str) -> alchemy.Feed:
        return alchemy.Feed(sources={SCHEMA[kind]: name}, connection=self.url)

    def close(self):
        self.engine.dispose()


def source(kind: str, once, labels: bool, selected: bool, ordinal: bool = True) -> project.Source:
    """The project source descriptor under test (built through the public factory)."""
    schema = SCHEMA[kind]
    features = schema.select(schema.rid, schema.ord) if selected else schema.select(schema.rid)
    kwargs = {}
    if labels:
        kwargs['labels'] = schema.lab
    if ordinal:
        kwargs['ordinal'] = schema.ord
        if once is not None:
            kwargs['once'] = once
    return project.Source.query(features, **kwargs)


def _rids(rows) -> list:
    return [int(list(r)[0]) for r in rows]


def _terminal(symbols):
    used = {id(a) for s in symbols for a in s.arguments}
    tails = [s for s in symbols if id(s.instruction) not in used]
    if len(tails) != 1:
        raise AssertionError(f'expected exactly one terminal instruction, got {tails}')
    return tails[0].instruction


def execute(feed, extract, lower, upper, labels: bool) -> dict:
    """One end-to-end launch of the extract stage for the window: Feed.load -> trunk -> compiled apply and train
    segments -> interpreter.  Returns the delivered row ids per mode (and the label values of the train mode)."""
    trunk = feed.load(extract, lower, upper).expand()
    out = {}
    symbols = flow.compile(trunk.apply)
    run = symbolic.Interpreter(symbols).run()
    out['apply'] = _rids(run.results[id(_terminal(symbols))])
    symbols = flow.compile(trunk.train)
    run = symbolic.Interpreter(symbols).run()
    result = run.results[id(_terminal(symbols))]
    if labels:
        features, labs = result
        out['train'] = _rids(features)
        out['labels'] = [int(v) for v in labs]
    else:
        out['train'] = _rids(result)
    return out


def once_members():
    return project.Source.Extract.Ordinal.Once


# ------------------------------------------------------------------ Runner.train harness
SEEN: list = []


class Recorder(flow.Actor):
    """Stateful actor recording what the train extract delivered to it."""

    def __init__(self):
        self._state = b'untrained'

    def train(self, features, labels, /):
        SEEN.append(('train', _rids(features), [int(v) for v in labels]))
        self._state = b'trained'

    def apply(self, features):
        SEEN.append(('apply', _rids(features)))
        return features

    def get_state(self) -> bytes:
        return self._state

    def set_state(self, state: bytes) -> None:
        self._state = state


class Consumer(flow.Operator):
    """Pipeline = one recorder trained on the extract's train/label outputs."""

    def compose(self, scope: flow.Composable) -> flow.Trunk:
        left = scope.expand()
        worker = flow.Worker(Recorder.builder(), 1, 1)
        worker.fork().train(left.train.publisher, left.label.publisher)
        return left.extend(worker)


class InterpreterRunner(runtime.Runner, alias='c10-interpreter'):
    """Real ``runtime.Runner`` (train/_build/_exec untouched); only ``run`` is the reference interpreter."""

    @classmethod
    def run(cls, symbols, **kwargs) -> None:
        symbolic.Interpreter(symbols).run()


def instance(src: project.Source, ordinal) -> asset.Instance:
    """A real asset.Instance over a volatile registry holding the project and - unless ``ordinal`` is the string
    'untrained' - one committed generation whose tag carries the given training ordinal."""
    launcher = src.bind(Consumer()).launcher
    registry, name = launcher._registry, launcher._project  # pylint: disable=protected-access
    directory = asset.Directory(registry)
    if ordinal != 'untrained':
        release = directory.get(name).get(None)
        sid = release.dump(b'trained')
        tag = asset.Tag().training.trigger().training.replace(ordinal=ordinal).replace(states=[sid])
        release.put(tag)
    inst = asset.Instance(name, None, None, directory)
    inst._c10_keepalive = launcher  # the volatile registry lives as long as the launcher
    return inst


def train(inst: asset.Instance, feed, lower, upper) -> list:
    """Real Runner.train; returns the recorder's observations."""
    del SEEN[:]
    InterpreterRunner(inst, feed).train(lower, upper)
    return list(SEEN)


FORML_ERRORS = (forml.AnyError,)
